//! C20 — no key or endpoint string makes the library touch files outside its directories.
//!
//! Every request runs the REAL public API inside a fresh scratch parent directory
//! (`/S` in the protocol; cache/storage root `/S/d1/d2/cache`) and answers with what the call did
//! to the file system (new files / directories, normalised, written back with the `/S` prefix).
//! K: the Lean driver predicts the same line from Model/{Path,CacheKeys,DiskFs}.
//! O: independent of the model — every entry created/removed must lie below the root, a cold read
//! must not return a file from outside, two distinct well-formed keys must not share a final or a
//! temporary file, nothing may panic.
use bytes::Bytes;
use cascette_cache::config::DiskCacheConfig;
use cascette_cache::disk_cache::DiskCache;
use cascette_cache::key::*;
use cascette_cache::traits::AsyncCache;
use cascette_crypto::{ContentKey, EncodingKey};
use cascette_protocol::{CacheConfig, CdnClient, CdnConfig, CdnEndpoint, ClientConfig, ContentType, ProtocolError, RibbitTactClient};
use std::collections::{BTreeMap, BTreeSet, HashMap};
use std::io::{Read, Write};
use std::panic::AssertUnwindSafe;
use std::path::{Path, PathBuf};
use std::sync::{Arc, Mutex};
use verif_harness::*;

// ---------------------------------------------------------------- raw string key
#[derive(Debug, Clone, PartialEq, Eq, Hash)]
struct RawKey(String);
impl CacheKey for RawKey {
    fn as_cache_key(&self) -> &str {
        &self.0
    }
}

// ---------------------------------------------------------------- string <-> token
fn enc(s: &str) -> String {
    hex(s.as_bytes())
}
fn dec_tok(t: &str) -> Option<String> {
    String::from_utf8(unhex(t)?).ok()
}
fn dec_opt(t: &str) -> Option<Option<String>> {
    if t == "~" { Some(None) } else { dec_tok(t).map(Some) }
}

// ---------------------------------------------------------------- sandbox
struct Sandbox {
    _td: tempfile::TempDir,
    parent: PathBuf, // "/S"
    root: PathBuf,   // "/S/d1/d2/cache"
    /// where the listings start: `parent`, or (deep sandbox) `DEEP_LEVELS` directories above it
    top: PathBuf,
    /// `real` replaced a "/S" that stands behind padding characters (see `PADS`)
    padded: std::cell::Cell<bool>,
}

/// Characters a "normalising" step may strip or fold around a name (White_Space members that
/// `str::trim` removes, zero-width characters it does not, quotes). The generators glue them to
/// hostile cores ("..", "../x", "/S/evil"); the safety guard looks through them.
const PADS: &[char] = &[' ', '\t', '\n', '\r', '\u{b}', '\u{c}', '\u{a0}', '\u{3000}', '\u{2028}', '\u{feff}', '\u{200b}', '"', '\''];
fn strip_pads(s: &str) -> &str {
    s.trim_start_matches(|c| PADS.contains(&c))
}

type Snap = BTreeMap<PathBuf, bool>; // path -> is_dir

impl Sandbox {
    fn new() -> Sandbox {
        Sandbox::from(tempfile::tempdir().expect("tempdir"))
    }
    /// for the batch searches (tens of thousands of puts, each with an fsync): a memory-backed
    /// directory when the machine has one
    fn new_fast() -> Sandbox {
        let shm = Path::new("/dev/shm");
        match if shm.is_dir() { tempfile::tempdir_in(shm).ok() } else { None } {
            Some(td) => Sandbox::from(td),
            None => Sandbox::new(),
        }
    }
    fn from(td: tempfile::TempDir) -> Sandbox {
        let parent = td.path().canonicalize().expect("canon");
        let root = parent.join("d1").join("d2").join("cache");
        std::fs::create_dir_all(&root).unwrap();
        Sandbox { _td: td, top: parent.clone(), parent, root, padded: std::cell::Cell::new(false) }
    }
    /// "/S" lies `DEEP_LEVELS` directories below the scratch directory and the listings cover all
    /// of them: for texts that the unchanged code puts behind several fixed directory levels (the
    /// archive key of a CDN index stands seven levels below the cache directory), where leaving
    /// the root takes more ".." segments than the ordinary guard lets through. Entries above "/S"
    /// are printed as "/ABOVE-S/…".
    fn deep() -> Sandbox {
        let td = tempfile::tempdir().expect("tempdir");
        let top = td.path().canonicalize().expect("canon");
        let mut parent = top.clone();
        for i in 0..DEEP_LEVELS { parent.push(format!("q{i}")); }
        let root = parent.join("d1").join("d2").join("cache");
        std::fs::create_dir_all(&root).unwrap();
        Sandbox { _td: td, parent, root, top, padded: std::cell::Cell::new(false) }
    }
    /// "/S/..." -> real path string (only for strings that start with the abstract prefix,
    /// possibly behind padding characters: `" /S/evil"` -> `" <parent>/evil"`)
    fn real(&self, s: &str) -> String {
        let t = strip_pads(s);
        let pre = &s[..s.len() - t.len()];
        let out = if t == "/S" {
            format!("{pre}{}", self.parent.to_string_lossy())
        } else if let Some(rest) = t.strip_prefix("/S/") {
            format!("{pre}{}/{}", self.parent.to_string_lossy(), rest)
        } else {
            return s.to_string();
        };
        if !pre.is_empty() {
            self.padded.set(true);
        }
        out
    }
    /// real path -> "/S/..." text. After a padded substitution the real parent can occur INSIDE a
    /// name (the unchanged code treats `" /S/evil"` as the relative name `" "/S/evil`): it is
    /// written back as "/S" there too.
    fn abs(&self, p: &Path) -> String {
        let Ok(rel) = p.strip_prefix(&self.parent) else {
            // deep sandbox: an entry between the scratch directory and "/S"
            let up = p.strip_prefix(&self.top).expect("entry inside sandbox");
            return format!("/ABOVE-S/{}", up.to_string_lossy());
        };
        let r = rel.to_string_lossy();
        let r = if self.padded.get() { r.replace(&*self.parent.to_string_lossy(), "/S") } else { r.into_owned() };
        if r.is_empty() { "/S".to_string() } else { format!("/S/{r}") }
    }
    /// after a padded substitution: a directory that exists only because the real parent has more
    /// components than "/S" (`cache/" "/tmp` on the way to `cache/" "/tmp/.tmpAbc` = `cache/" "/S`).
    /// Such entries are left out of the printed listing (never out of the confinement check).
    fn artefact(&self, p: &Path) -> bool {
        if !self.padded.get() {
            return false;
        }
        let par = self.parent.to_string_lossy().into_owned();
        let r = p.to_string_lossy();
        if p.strip_prefix(&self.parent).is_ok_and(|rel| rel.to_string_lossy().contains(&par)) {
            return false;
        }
        par.char_indices().any(|(k, c)| {
            k > 0 && c == '/' && r.strip_suffix(&par[..k]).is_some_and(|x| x.chars().next_back().is_some_and(|l| PADS.contains(&l)))
        })
    }
    fn snap(&self) -> Snap {
        fn walk(d: &Path, out: &mut Snap) {
            if let Ok(rd) = std::fs::read_dir(d) {
                for e in rd.flatten() {
                    let p = e.path();
                    let is_dir = e.file_type().map(|t| t.is_dir()).unwrap_or(false);
                    out.insert(p.clone(), is_dir);
                    if is_dir {
                        walk(&p, out);
                    }
                }
            }
        }
        let mut s = Snap::new();
        walk(&self.top, &mut s);
        // deep sandbox: the chain of directories leading down to "/S" is scaffolding
        s.retain(|p, _| !self.parent.starts_with(p));
        s
    }
}

struct Diff {
    new_files: Vec<String>,
    new_dirs: Vec<String>,
    removed: Vec<String>,
    outside: Vec<String>, // any new/removed entry not below the root
}

fn diff(sb: &Sandbox, before: &Snap, after: &Snap) -> Diff {
    let mut d = Diff { new_files: vec![], new_dirs: vec![], removed: vec![], outside: vec![] };
    for (p, is_dir) in after {
        if !before.contains_key(p) {
            let a = sb.abs(p);
            if !p.starts_with(&sb.root) {
                d.outside.push(a.clone());
            }
            if sb.artefact(p) {
                continue;
            }
            if *is_dir { d.new_dirs.push(a) } else { d.new_files.push(a) }
        }
    }
    for p in before.keys() {
        if !after.contains_key(p) {
            let a = sb.abs(p);
            if !p.starts_with(&sb.root) {
                d.outside.push(a.clone());
            }
            d.removed.push(a);
        }
    }
    d
}

// ---------------------------------------------------------------- safety guard (mirrored in Driver/C20.lean)
fn dd(s: &str) -> usize {
    // non-overlapping occurrences of ".."
    let b = s.as_bytes();
    let (mut i, mut n) = (0, 0);
    while i + 1 < b.len() {
        if b[i] == b'.' && b[i + 1] == b'.' {
            n += 1;
            i += 2;
        } else {
            i += 1;
        }
    }
    n
}
/// the deep sandbox (`Sandbox::deep`): "/S" has this many scratch directories above it, and a call
/// is run when its strings hold at most `DEEP_DD` ".." together (9 above "/S" + the 3 levels of
/// d1/d2/cache, even if every fixed prefix were dropped on the way)
const DEEP_LEVELS: usize = 12;
const DEEP_DD: usize = 12;
fn unsafe_deep(other: &[&str]) -> bool {
    other.iter().map(|s| dd(s)).sum::<usize>() > DEEP_DD
}
/// `direct`: strings that are joined onto the root as they are (an absolute one replaces it).
fn unsafe_args(direct: &[&str], other: &[&str]) -> bool {
    let mut total = 0;
    for s in direct {
        // the guard looks through padding: `" /x"` becomes absolute as soon as some step trims it,
        // and a leading '\\' as soon as some step turns it into '/'
        let t = strip_pads(s);
        if t.starts_with('/') || t.starts_with('\\') {
            // an absolute key replaces the root: only targets strictly below /S are run
            let ok = t.strip_prefix("/S/").is_some_and(|rest| dd(s) == 0 && rest.split('/').any(|g| !g.is_empty() && g != "."));
            if !ok {
                return true;
            }
        }
        total += dd(s);
    }
    for s in other {
        total += dd(s);
    }
    total > 3
}

// ---------------------------------------------------------------- shapes for oracle sigs
fn shape(strings: &[&str]) -> &'static str {
    if strings.iter().any(|s| s.split('/').any(|seg| seg == "..")) {
        "dotdot"
    } else if strings.iter().any(|s| s.starts_with('/')) {
        "absolute"
    } else if strings.iter().any(|s| s.split('/').all(|seg| seg.is_empty() || seg == ".")) {
        "nofilename"
    } else if strings.iter().any(|s| {
        let core = |x: &str| x.trim_matches(|c| PADS.contains(&c)).to_string();
        core(s).starts_with('/') || s.split(['/', '\\']).any(|seg| core(seg) == "..")
    }) {
        // "..", or an absolute path, behind padding / a foreign separator
        "padded"
    } else {
        "other"
    }
}

/// how many levels above the configured root /S/d1/d2/cache an observed entry lies (0 = inside)
fn climb_of(abs_path: &str) -> usize {
    let root = ["S", "d1", "d2", "cache"];
    let comps: Vec<&str> = abs_path.split('/').filter(|g| !g.is_empty()).collect();
    let common = root.iter().zip(comps.iter()).take_while(|(a, b)| a == b).count();
    root.len() - common
}
/// how far the string AS IT STANDS can climb above the directory it is joined onto (Unix
/// resolution: "" and "." stay, ".." goes up, anything else - `" .."` included - goes down); a
/// string that resolves to the join point itself or above gets one more level for the
/// `with_extension` temporary file beside it. An upper bound on what the unchanged text explains.
fn literal_climb(s: &str) -> usize {
    let (mut depth, mut min) = (0i64, 0i64);
    for g in s.split('/') {
        match g {
            "" | "." => {}
            ".." => depth -= 1,
            _ => depth += 1,
        }
        min = min.min(depth);
    }
    let beside = if depth <= 0 { -depth + 1 } else { 0 };
    (-min).max(beside) as usize
}
/// `shape`, looking at what was observed as well: an escape through real ".." segments that climbs
/// higher than those segments can (the name was trimmed / re-spelled on the way) is "disguised",
/// not the known raw-key shape "dotdot". `depth` = fixed components between the root and the text.
fn shape_fs(strings: &[&str], depth: usize, outside: &[String]) -> &'static str {
    let base = shape(strings);
    if base != "dotdot" || strings.iter().any(|s| s.starts_with('/')) {
        return base;
    }
    let explained = strings.iter().map(|s| literal_climb(s)).sum::<usize>().saturating_sub(depth);
    let observed = outside.iter().map(|p| climb_of(p)).max().unwrap_or(0);
    if observed > explained { "disguised" } else { "dotdot" }
}

// ---------------------------------------------------------------- local HTTP server
#[derive(Default)]
struct Seen {
    target: Option<String>,
    range: Option<String>,
    /// every request target since the last reset, in order (op `cdnx`)
    hits: Vec<String>,
    /// op `cdnx`: answer with a body that is a function of the request target (`echo_body`) and
    /// honour `Range`, so that the bytes a call returns say which URL they were fetched from
    echo: bool,
}
struct Server {
    addr: String,
    seen: Arc<Mutex<Seen>>,
}
/// the object the mock CDN serves at `target` in echo mode: different targets, different bytes
fn echo_body(target: &str) -> Vec<u8> {
    format!("<{target}>#<{target}>#<{target}>").into_bytes()
}
/// `bytes=a-b` / `bytes=a-` -> inclusive byte range
fn parse_range(v: &str) -> Option<(u64, Option<u64>)> {
    let r = v.trim().strip_prefix("bytes=")?;
    let (a, b) = r.split_once('-')?;
    Some((a.parse().ok()?, if b.is_empty() { None } else { Some(b.parse().ok()?) }))
}
const BPSV_BODY: &str = "Region!STRING:0|BuildId!DEC:4\n## seqn = 12345\nus|1234\neu|5678\n";

fn start_server() -> Server {
    let l = std::net::TcpListener::bind("127.0.0.1:0").expect("bind");
    let addr = format!("127.0.0.1:{}", l.local_addr().unwrap().port());
    let seen = Arc::new(Mutex::new(Seen::default()));
    let seen2 = seen.clone();
    std::thread::spawn(move || {
        for c in l.incoming() {
            let Ok(mut c) = c else { continue };
            let seen3 = seen2.clone();
            std::thread::spawn(move || {
                let _ = c.set_read_timeout(Some(std::time::Duration::from_secs(5)));
                let mut buf = Vec::new();
                let mut tmp = [0u8; 4096];
                loop {
                    match c.read(&mut tmp) {
                        Ok(0) | Err(_) => return,
                        Ok(n) => {
                            buf.extend_from_slice(&tmp[..n]);
                            if buf.windows(4).any(|w| w == b"\r\n\r\n") {
                                break;
                            }
                            if buf.len() > 1 << 20 {
                                return;
                            }
                        }
                    }
                }
                let text = String::from_utf8_lossy(&buf).into_owned();
                let mut lines = text.split("\r\n");
                let reqline = lines.next().unwrap_or("");
                let mut parts = reqline.split(' ');
                let method = parts.next().unwrap_or("").to_string();
                let target = parts.next().unwrap_or("").to_string();
                let mut range = None;
                for h in lines {
                    if let Some((k, v)) = h.split_once(':') {
                        if k.eq_ignore_ascii_case("range") {
                            range = Some(v.trim().to_string());
                        }
                    }
                }
                let echo = {
                    let mut s = seen3.lock().unwrap();
                    s.target = Some(target.clone());
                    s.range = range.clone();
                    s.hits.push(target.clone());
                    s.echo
                };
                let (status, body): (&str, Vec<u8>) = if !echo {
                    ("200 OK", BPSV_BODY.as_bytes().to_vec())
                } else {
                    let full = echo_body(&target);
                    match range.as_deref().map(parse_range) {
                        None => ("200 OK", full),
                        Some(Some((a, b))) if (a as usize) < full.len() && b.is_none_or(|b| b >= a) => {
                            let end = b.map_or(full.len() - 1, |b| (b as usize).min(full.len() - 1));
                            ("206 Partial Content", full[a as usize..=end].to_vec())
                        }
                        Some(_) => ("416 Range Not Satisfiable", vec![]),
                    }
                };
                let head = format!("HTTP/1.1 {status}\r\nContent-Length: {}\r\nContent-Type: text/plain\r\nConnection: close\r\n\r\n", body.len());
                let _ = c.write_all(head.as_bytes());
                if method != "HEAD" {
                    let _ = c.write_all(&body);
                }
                let _ = c.flush();
            });
        }
    });
    Server { addr, seen }
}

// ---------------------------------------------------------------- context
struct Ctx {
    rt: tokio::runtime::Runtime,
    srv: Server,
    /// (layout, final file) -> key text, for well-formed keys (injectivity oracle)
    finals: HashMap<(String, String), (String, String)>,
    /// (layout, temp file) -> key text, all keys whose temp name was observed
    temps: HashMap<(String, String), (String, String)>,
    /// (layout, final file) -> key text, all keys (for temp/final aliasing)
    all_finals: HashMap<(String, String), (String, String)>,
    /// as_cache_key text -> constructor call, for calls with well-formed arguments
    ctor_texts: HashMap<String, (String, String)>,
    /// (formatter, path) -> (input, request) for the fixed-width formatters (injectivity oracle)
    fmt_paths: HashMap<(String, String), (String, String)>,
    /// a well-formed key whose file is not `<directories>/<key text>` (the code re-spells names):
    /// (layout, typed arguments) of the first one seen, for the directed collision search
    respelled: Option<(String, String, Vec<String>)>,
    respelled_count: u64,
    /// collide-wf… failures so far
    collisions: u64,
}

fn disk_cfg(root: &Path, layout: &str) -> Option<DiskCacheConfig> {
    let c = DiskCacheConfig::new(root.to_path_buf());
    match layout {
        "flat" => Some(c.with_subdirectories(false, 0)),
        "h1" => Some(c.with_subdirectories(true, 1)),
        "h2" => Some(c.with_subdirectories(true, 2)),
        "h3" => Some(c.with_subdirectories(true, 3)),
        _ => None,
    }
}

fn fmt_put(ok: bool, d: &Diff) -> String {
    let list = |v: &Vec<String>| if v.is_empty() { "-".to_string() } else { v.iter().map(|s| enc(s)).collect::<Vec<_>>().join(",") };
    if ok { format!("ok file={}", list(&d.new_files)) } else { format!("err left={}", list(&d.new_files)) }
}

/// the confinement oracle, shared by every op
fn check_confined(s: &mut Session, api: &str, strings: &[&str], d: &Diff, req: &str) {
    if !d.outside.is_empty() {
        let depth = match api { "cdn" => 1, "query" => 2, _ => 0 };
        let sig = format!("escape-{api}-{}", shape_fs(strings, depth, &d.outside));
        s.oracle_fail(&sig, &format!("{api}: entries created/removed outside the configured directory /S/d1/d2/cache: {:?} (inputs {:?})", d.outside, strings), &[req.to_string()]);
    }
}

/// one put of `key` through a DiskCache with the given key type; returns (ok, diff)
fn put_generic<K: CacheKey + 'static>(ctx: &Ctx, sb: &Sandbox, layout: &str, key: K) -> Option<Result<(bool, Diff), String>> {
    let cfg = disk_cfg(&sb.root, layout)?;
    let before = sb.snap();
    let r = catch(AssertUnwindSafe(|| {
        let cache: DiskCache<K> = DiskCache::new(cfg).expect("disk cache");
        ctx.rt.block_on(cache.put(key, Bytes::from_static(b"v"))).is_ok()
    }));
    let after = sb.snap();
    Some(r.map(|ok| (ok, diff(sb, &before, &after))))
}

fn ck(t: &str) -> Option<ContentKey> {
    let b: [u8; 16] = unhex(t)?.try_into().ok()?;
    Some(ContentKey::from_bytes(b))
}
fn ek(t: &str) -> Option<EncodingKey> {
    let b: [u8; 16] = unhex(t)?.try_into().ok()?;
    Some(EncodingKey::from_bytes(b))
}
fn opt_num<T: std::str::FromStr>(t: &str) -> Option<Option<T>> {
    if t == "~" { Some(None) } else { t.parse().ok().map(Some) }
}
fn b01(t: &str) -> Option<bool> {
    match t { "0" => Some(false), "1" => Some(true), _ => None }
}

/// typed key: returns (as_cache_key text, hostile strings, well-formed?, put result)
#[allow(clippy::type_complexity)]
fn typed(ctx: &Ctx, sb: &Sandbox, layout: &str, kind: &str, a: &[&str], run: bool) -> Option<(String, Vec<String>, bool, Option<Result<(bool, Diff), String>>)> {
    // well-formed = the characters of product / region / endpoint / archive / version names, of
    // any length the file system can hold: every component of the key text fits in NAME_MAX
    // together with the ".tmp" of the temporary file (so the put of a well-formed key succeeds)
    fn name(s: &str) -> bool { wf_name_s(s) }
    fn dotted(s: &str) -> bool { wf_dotted_s(s) }
    fn endpoint(s: &str) -> bool { wf_endpoint_s(s) }
    macro_rules! go {
        ($k:expr, $strs:expr, $wf:expr) => {{
            let k = $k;
            let text = k.as_cache_key().to_string();
            let wf = $wf && text.split('/').all(|g| g.len() <= WF_NAME_MAX);
            let r = if run { put_generic(ctx, sb, layout, k) } else { None };
            Some((text, $strs, wf, r))
        }};
    }
    match (kind, a) {
        ("ribbit", [e, r, p]) => {
            let (e, r, p) = (dec_tok(e)?, dec_tok(r)?, dec_opt(p)?);
            let wf = endpoint(&e) && name(&r) && p.as_deref().is_none_or(name);
            let mut strs = vec![e.clone(), r.clone()];
            if let Some(p) = &p { strs.push(p.clone()); }
            match p {
                Some(p) => go!(RibbitKey::with_product(e, r, p), strs, wf),
                None => go!(RibbitKey::new(e, r), strs, wf),
            }
        }
        ("config", [t, h]) => {
            let (t, h) = (dec_tok(t)?, dec_tok(h)?);
            let wf = name(&t) && name(&h);
            go!(ConfigKey::new(t.clone(), h.clone()), vec![t, h], wf)
        }
        ("blte", [e, i]) => match opt_num::<u32>(i)? {
            Some(i) => go!(BlteKey::with_block(ek(e)?, i), vec![], true),
            None => go!(BlteKey::new(ek(e)?), vec![], true),
        },
        ("content", [c]) => go!(ContentCacheKey::new(ck(c)?), vec![], true),
        ("index", [n, h]) => {
            let (n, h) = (dec_tok(n)?, dec_tok(h)?);
            let wf = dotted(&n) && name(&h);
            go!(ArchiveIndexKey::new(n.clone(), h.clone()), vec![n, h], wf)
        }
        ("manifest", [t, c, v]) => {
            let (t, v) = (dec_tok(t)?, dec_opt(v)?);
            let wf = name(&t) && v.as_deref().is_none_or(dotted);
            let mut strs = vec![t.clone()];
            if let Some(v) = &v { strs.push(v.clone()); }
            match v {
                Some(v) => go!(ManifestKey::with_version(t, ck(c)?, v), strs, wf),
                None => go!(ManifestKey::new(t, ck(c)?), strs, wf),
            }
        }
        ("root", [c, p, v]) => match opt_num::<u8>(v)? {
            Some(v) => go!(RootFileKey::with_version(ck(c)?, b01(p)?, v), vec![], true),
            None => if b01(p)? { go!(RootFileKey::new_parsed(ck(c)?), vec![], true) } else { go!(RootFileKey::new_raw(ck(c)?), vec![], true) },
        },
        ("encoding", [e, pg, p]) => match opt_num::<u32>(pg)? {
            Some(pg) => go!(EncodingFileKey::with_page(ek(e)?, pg, b01(p)?), vec![], true),
            None => if b01(p)? { go!(EncodingFileKey::new_parsed(ek(e)?), vec![], true) } else { go!(EncodingFileKey::new_raw(ek(e)?), vec![], true) },
        },
        ("archive", [id, st, len]) => {
            let id = dec_tok(id)?;
            let wf = dotted(&id);
            go!(ArchiveRangeKey::new(id.clone(), st.parse::<u64>().ok()?, len.parse::<u32>().ok()?), vec![id], wf)
        }
        ("blteblock", [c, i, d]) => {
            let i = i.parse::<u32>().ok()?;
            if b01(d)? { go!(BlteBlockKey::new_decompressed(ck(c)?, i), vec![], true) } else { go!(BlteBlockKey::new_raw(ck(c)?, i), vec![], true) }
        }
        _ => None,
    }
}

fn perr(e: &ProtocolError) -> &'static str {
    match e {
        ProtocolError::InvalidKey => "err:invalid-key",
        ProtocolError::InvalidEndpoint(_) => "err:invalid-endpoint",
        _ => "err:other",
    }
}

fn protocol_cache(root: &Path) -> Arc<cascette_protocol::cache::ProtocolCache> {
    let cc = CacheConfig { cache_dir: Some(root.to_path_buf()), ..CacheConfig::default() };
    Arc::new(cascette_protocol::cache::ProtocolCache::new(&cc).expect("protocol cache"))
}

fn ctype(t: &str) -> Option<ContentType> {
    match t { "config" => Some(ContentType::Config), "data" => Some(ContentType::Data), "patch" => Some(ContentType::Patch), _ => None }
}

fn url_path(target: &Option<String>, cu: bool) -> String {
    if !cu { return "-".into(); }
    match target { Some(t) => enc(t), None => "-".into() }
}

/// long texts in messages: head … tail (the replay lines carry them in full)
fn abbr(t: &str) -> String {
    let c: Vec<char> = t.chars().collect();
    if c.len() <= 120 { return format!("{t:?}"); }
    format!("{:?}…[{} characters]…{:?}", c[..70].iter().collect::<String>(), c.len() - 100, c[c.len() - 30..].iter().collect::<String>())
}
/// where two texts differ: the differing runs for texts of one length, the common prefix otherwise
fn differences(a: &str, b: &str) -> String {
    let (x, y): (Vec<char>, Vec<char>) = (a.chars().collect(), b.chars().collect());
    if x.len() != y.len() {
        let cp = x.iter().zip(y.iter()).take_while(|(p, q)| p == q).count();
        return format!("{} and {} characters, the first {cp} equal", x.len(), y.len());
    }
    let mut runs: Vec<String> = vec![];
    let mut i = 0;
    while i < x.len() {
        if x[i] != y[i] {
            let st = i;
            while i < x.len() && x[i] != y[i] { i += 1; }
            if runs.len() < 4 {
                runs.push(format!("characters {st}..{i}: {:?} / {:?}", x[st..i].iter().collect::<String>(), y[st..i].iter().collect::<String>()));
            }
        } else {
            i += 1;
        }
    }
    format!("{} characters each, equal except {}", x.len(), runs.join(", "))
}

/// record final/temp names for the injectivity / temp oracles
fn note_final(s: &mut Session, ctx: &mut Ctx, layout: &str, file: &str, key: &str, wf: bool, req: &str) {
    let k = (layout.to_string(), file.to_string());
    if wf {
        if let Some((prev, preq)) = ctx.finals.get(&k) {
            if prev != key {
                // shape: names of ordinary length, or names beyond 64 bytes (the request line
                // carries the fields as hex, two characters per byte)
                ctx.collisions += 1;
                let long = req.split(' ').chain(preq.split(' ')).any(|t| t.len() > 128);
                let msg = if prev.len().max(key.len()) <= 200 {
                    format!("well-formed keys {prev:?} and {key:?} are stored in the same file {file}")
                } else {
                    format!("well-formed keys {} and {} ({}) are stored in the same file {}", abbr(prev), abbr(key), differences(prev, key), abbr(file))
                };
                s.oracle_fail(if long { "collide-wf-long-name" } else { "collide-wf" }, &msg, &[preq.clone(), req.to_string()]);
            }
        } else {
            ctx.finals.insert(k.clone(), (key.to_string(), req.to_string()));
        }
    }
    if let Some((other, oreq)) = ctx.temps.get(&k) {
        if other != key {
            s.oracle_fail("tmp-aliases-final", &format!("the temporary file of key {other:?} is the final file {file} of key {key:?}"), &[oreq.clone(), req.to_string()]);
        }
    }
    ctx.all_finals.entry(k).or_insert_with(|| (key.to_string(), req.to_string()));
}

fn note_temp(s: &mut Session, ctx: &mut Ctx, layout: &str, tmp: &str, key: &str, req: &str) {
    let k = (layout.to_string(), tmp.to_string());
    if let Some((prev, preq)) = ctx.temps.get(&k) {
        if prev != key {
            s.oracle_fail("tmp-shared-stem", &format!("keys {prev:?} and {key:?} use the same temporary file {tmp}"), &[preq.clone(), req.to_string()]);
        }
    } else {
        ctx.temps.insert(k.clone(), (key.to_string(), req.to_string()));
    }
    if let Some((other, oreq)) = ctx.all_finals.get(&k) {
        if other != key {
            s.oracle_fail("tmp-aliases-final", &format!("the temporary file {tmp} of key {key:?} is the final file of key {other:?}"), &[oreq.clone(), req.to_string()]);
        }
    }
}

/// injectivity oracle of the fixed-width formatters: two different inputs never give one path
fn note_fmt(s: &mut Session, ctx: &mut Ctx, fmt: &str, path: &str, input: &str, req: &str) {
    let k = (fmt.to_string(), path.to_string());
    if let Some((prev, preq)) = ctx.fmt_paths.get(&k) {
        if prev != input {
            let what = match fmt { "ckpath" => "format_content_key_path: keys", "seg" => "segment_data_path: segment indices", _ => "lru_file_path: generations" };
            s.oracle_fail(&format!("collide-fmt-{fmt}"), &format!("{what} {prev} and {input} share the path {path}"), &[preq.clone(), req.to_string()]);
        }
    } else {
        ctx.fmt_paths.insert(k, (input.to_string(), req.to_string()));
    }
}

// ---------------------------------------------------------------- constructors (op `ctor`)
/// NAME_MAX (255) minus the ".tmp" the temporary file may add
const WF_NAME_MAX: usize = 251;
fn wf_name_s(s: &str) -> bool { !s.is_empty() && s.len() <= WF_NAME_MAX && s.chars().all(|c| c.is_ascii_alphanumeric() || c == '_' || c == '-') }
fn wf_dotted_s(s: &str) -> bool { !s.is_empty() && s.len() <= WF_NAME_MAX && s.chars().all(|c| c.is_ascii_alphanumeric() || c == '_' || c == '-' || c == '.') }
fn wf_endpoint_s(s: &str) -> bool { s.split('/').all(wf_name_s) }

/// the four ways the library reads a key's text: inherent method, `Display`, the `CacheKey`
/// trait (what `DiskCache` calls), and the same on a clone; all must agree
fn texts<K: CacheKey + std::fmt::Display + Clone>(k: &K, inherent: &str) -> (String, bool) {
    fn via_trait<K: CacheKey>(k: &K) -> String { k.as_cache_key().to_string() }
    let t = via_trait(k);
    let c = k.clone();
    let same = t == inherent && k.to_string() == t && via_trait(&c) == t && c.to_string() == t;
    (t, same)
}

/// one public constructor of key.rs, by name: (text, all readings agree, well-formed arguments)
fn ctor_call(name: &str, a: &[&str]) -> Option<(String, bool, bool)> {
    macro_rules! go {
        ($k:expr, $wf:expr) => {{
            let k = $k;
            let inh = k.as_cache_key().to_string();
            let (t, same) = texts(&k, &inh);
            Some((t, same, $wf))
        }};
    }
    match (name, a) {
        ("RibbitKey::new", [e, r]) => { let (e, r) = (dec_tok(e)?, dec_tok(r)?); let wf = wf_endpoint_s(&e) && wf_name_s(&r); go!(RibbitKey::new(e, r), wf) }
        ("RibbitKey::with_product", [e, r, p]) => { let (e, r, p) = (dec_tok(e)?, dec_tok(r)?, dec_tok(p)?); let wf = wf_endpoint_s(&e) && wf_name_s(&r) && wf_name_s(&p); go!(RibbitKey::with_product(e, r, p), wf) }
        ("ConfigKey::new", [t, h]) => { let (t, h) = (dec_tok(t)?, dec_tok(h)?); let wf = wf_name_s(&t) && wf_name_s(&h); go!(ConfigKey::new(t, h), wf) }
        ("BlteKey::new", [e]) => go!(BlteKey::new(ek(e)?), true),
        ("BlteKey::with_block", [e, i]) => go!(BlteKey::with_block(ek(e)?, i.parse::<u32>().ok()?), true),
        ("ContentCacheKey::new", [c]) => go!(ContentCacheKey::new(ck(c)?), true),
        ("ArchiveIndexKey::new", [n, h]) => { let (n, h) = (dec_tok(n)?, dec_tok(h)?); let wf = wf_dotted_s(&n) && wf_name_s(&h); go!(ArchiveIndexKey::new(n, h), wf) }
        ("ManifestKey::new", [t, c]) => { let t = dec_tok(t)?; let wf = wf_name_s(&t); go!(ManifestKey::new(t, ck(c)?), wf) }
        ("ManifestKey::with_version", [t, c, v]) => { let (t, v) = (dec_tok(t)?, dec_tok(v)?); let wf = wf_name_s(&t) && wf_dotted_s(&v); go!(ManifestKey::with_version(t, ck(c)?, v), wf) }
        ("RootFileKey::new_raw", [c]) => go!(RootFileKey::new_raw(ck(c)?), true),
        ("RootFileKey::new_parsed", [c]) => go!(RootFileKey::new_parsed(ck(c)?), true),
        ("RootFileKey::with_version", [c, p, v]) => go!(RootFileKey::with_version(ck(c)?, b01(p)?, v.parse::<u8>().ok()?), true),
        ("EncodingFileKey::new_raw", [e]) => go!(EncodingFileKey::new_raw(ek(e)?), true),
        ("EncodingFileKey::new_parsed", [e]) => go!(EncodingFileKey::new_parsed(ek(e)?), true),
        ("EncodingFileKey::with_page", [e, pg, p]) => go!(EncodingFileKey::with_page(ek(e)?, pg.parse::<u32>().ok()?, b01(p)?), true),
        ("ArchiveRangeKey::new", [id, st, len]) => { let id = dec_tok(id)?; let wf = wf_dotted_s(&id); go!(ArchiveRangeKey::new(id, st.parse::<u64>().ok()?, len.parse::<u32>().ok()?), wf) }
        ("BlteBlockKey::new_raw", [c, i]) => go!(BlteBlockKey::new_raw(ck(c)?, i.parse::<u32>().ok()?), true),
        ("BlteBlockKey::new_decompressed", [c, i]) => go!(BlteBlockKey::new_decompressed(ck(c)?, i.parse::<u32>().ok()?), true),
        _ => None,
    }
}

/// op `stale`: build a key, read its text (fills the memo), assign new values to its PUBLIC
/// fields, read the text again; returns (text before, text after the assignment, text of a key
/// freshly constructed with the new values, `==` between the two)
fn stale_call(kind: &str, a: &[&str]) -> Option<(String, String, String, bool)> {
    match (kind, a) {
        ("ribbit", [e1, r1, e2, r2]) => {
            let (e1, r1, e2, r2) = (dec_tok(e1)?, dec_tok(r1)?, dec_tok(e2)?, dec_tok(r2)?);
            let mut k = RibbitKey::new(e1, r1);
            let before = k.as_cache_key().to_string();
            k.endpoint = e2.clone();
            k.region = r2.clone();
            let fresh = RibbitKey::new(e2, r2);
            Some((before, k.as_cache_key().to_string(), fresh.as_cache_key().to_string(), k == fresh))
        }
        ("config", [t1, h1, t2, h2]) => {
            let (t1, h1, t2, h2) = (dec_tok(t1)?, dec_tok(h1)?, dec_tok(t2)?, dec_tok(h2)?);
            let mut k = ConfigKey::new(t1, h1);
            let before = k.as_cache_key().to_string();
            k.config_type = t2.clone();
            k.hash = h2.clone();
            let fresh = ConfigKey::new(t2, h2);
            Some((before, k.as_cache_key().to_string(), fresh.as_cache_key().to_string(), k == fresh))
        }
        ("blte", [e1, e2, i2]) => {
            let mut k = BlteKey::new(ek(e1)?);
            let before = k.as_cache_key().to_string();
            let i2 = opt_num::<u32>(i2)?;
            k.encoding_key = ek(e2)?;
            k.block_index = i2;
            let fresh = match i2 { Some(i) => BlteKey::with_block(ek(e2)?, i), None => BlteKey::new(ek(e2)?) };
            Some((before, k.as_cache_key().to_string(), fresh.as_cache_key().to_string(), k == fresh))
        }
        ("archive", [id1, s1, l1, id2, s2, l2]) => {
            let (id1, id2) = (dec_tok(id1)?, dec_tok(id2)?);
            let mut k = ArchiveRangeKey::new(id1, s1.parse::<u64>().ok()?, l1.parse::<u32>().ok()?);
            let before = k.as_cache_key().to_string();
            k.archive_id = id2.clone();
            k.start_offset = s2.parse::<u64>().ok()?;
            k.length = l2.parse::<u32>().ok()?;
            let fresh = ArchiveRangeKey::new(id2, s2.parse::<u64>().ok()?, l2.parse::<u32>().ok()?);
            Some((before, k.as_cache_key().to_string(), fresh.as_cache_key().to_string(), k == fresh))
        }
        _ => None,
    }
}

// ---------------------------------------------------------------- one request line
fn run_line(s: &mut Session, ctx: &mut Ctx, req: &str) -> Option<String> {
    let toks: Vec<&str> = req.split(' ').collect();
    match toks.as_slice() {
        ["raw", layout, k] => {
            let key = dec_tok(k)?;
            disk_cfg(Path::new("/x"), layout)?;
            if unsafe_args(&[&key], &[]) { return Some("unsafe-skip".into()); }
            let sb = Sandbox::new();
            let real = sb.real(&key);
            match put_generic(ctx, &sb, layout, RawKey(real))? {
                Err(_) => { s.oracle_fail("panic-disk", &format!("DiskCache::put panicked for key {key:?}"), &[req.to_string()]); Some("panic".into()) }
                Ok((ok, d)) => {
                    check_confined(s, "disk", &[&key], &d, req);
                    if ok && d.new_files.len() == 1 {
                        let canonical = !key.is_empty() && key.split('/').all(|g| !g.is_empty() && g != "." && g != "..") ;
                        note_final(s, ctx, layout, &d.new_files[0], &key, canonical, req);
                    }
                    s.tally(if ok { "raw.ok" } else { "raw.err" });
                    s.tally(&format!("raw.shape.{}", shape(&[&key])));
                    Some(fmt_put(ok, &d))
                }
            }
        }
        ["rget", layout, k] => {
            let key = dec_tok(k)?;
            let cfg0 = disk_cfg(Path::new("/x"), layout)?;
            let _ = cfg0;
            if unsafe_args(&[&key], &[]) { return Some("unsafe-skip".into()); }
            let sb = Sandbox::new();
            let secret = sb.parent.join("d1").join("secret");
            let inside = sb.root.join("inside");
            std::fs::write(&secret, b"/S/d1/secret").unwrap();
            std::fs::write(&inside, b"/S/d1/d2/cache/inside").unwrap();
            let cfg = disk_cfg(&sb.root, layout)?;
            let real = sb.real(&key);
            let before = sb.snap();
            let r = catch(AssertUnwindSafe(|| {
                let cache: DiskCache<RawKey> = DiskCache::new(cfg).expect("disk cache");
                ctx.rt.block_on(cache.get(&RawKey(real)))
            }));
            let after = sb.snap();
            let d = diff(&sb, &before, &after);
            check_confined(s, "disk", &[&key], &d, req);
            match r {
                Err(_) => { s.oracle_fail("panic-disk", &format!("DiskCache::get panicked for key {key:?}"), &[req.to_string()]); Some("panic".into()) }
                Ok(Ok(Some(data))) => {
                    let which = String::from_utf8_lossy(&data).into_owned();
                    if which != "/S/d1/d2/cache/inside" {
                        s.oracle_fail(&format!("read-escape-disk-{}", shape_fs(&[&key], 0, std::slice::from_ref(&which))), &format!("DiskCache::get({key:?}) returned the content of {which}, a file outside the cache directory"), &[req.to_string()]);
                    }
                    s.tally("rget.hit");
                    Some(format!("hit {}", enc(&which)))
                }
                Ok(Ok(None)) => { s.tally("rget.miss"); Some("miss".into()) }
                Ok(Err(_)) => Some("err".into()),
            }
        }
        ["typed", layout, kind, args @ ..] => {
            disk_cfg(Path::new("/x"), layout)?;
            let sb = Sandbox::new();
            // first pass without running: key text + hostile strings for the guard
            let (text, strs, wf, _) = typed(ctx, &sb, layout, kind, args, false)?;
            let refs: Vec<&str> = strs.iter().map(|x| x.as_str()).collect();
            if unsafe_args(&[], &refs) { return Some(format!("key={} unsafe-skip", enc(&text))); }
            let (_, _, _, r) = typed(ctx, &sb, layout, kind, args, true)?;
            match r? {
                Err(_) => { s.oracle_fail("panic-disk", &format!("typed key {text:?}: put panicked"), &[req.to_string()]); Some(format!("key={} panic", enc(&text))) }
                Ok((ok, d)) => {
                    check_confined(s, "disk", &refs, &d, req);
                    if ok && d.new_files.len() == 1 {
                        // identity of a typed key = its field values, not the text they print to
                        let ident = format!("{kind}({}) = {text:?}", args.iter().enumerate().map(|(i, a)| if *a == "~" { "None".to_string() } else { dec_tok(a).filter(|_| !matches!(*kind, "blte" | "content" | "root" | "encoding" | "blteblock") && !(*kind == "archive" && i > 0)).map(|x| format!("{x:?}")).unwrap_or_else(|| a.to_string()) }).collect::<Vec<_>>().join(", "));
                        note_final(s, ctx, layout, &d.new_files[0], &ident, wf, req);
                        // search heuristic, not a verdict: the file of a well-formed key is
                        // <root>[/hh…]/<key text> as long as names are used as they are; the first
                        // key for which this is not so seeds the directed collision search
                        if wf && !d.new_files[0].ends_with(&format!("/{text}")) {
                            ctx.respelled_count += 1;
                            // the one with the longest text field is kept (most room to vary)
                            let longest = |a: &[String]| a.iter().filter_map(|t| dec_tok(t)).map(|x| x.len()).max().unwrap_or(0);
                            if !matches!(*kind, "blte" | "content" | "root" | "encoding" | "blteblock") {
                                let mine: Vec<String> = args.iter().map(|a| a.to_string()).collect();
                                if ctx.respelled.as_ref().is_none_or(|(_, _, a)| longest(a) < longest(&mine)) {
                                    ctx.respelled = Some((layout.to_string(), kind.to_string(), mine));
                                }
                            }
                        }
                    }
                    if wf && !ok {
                        s.oracle_fail("wf-put-fails", &format!("put of the well-formed key {text:?} failed"), &[req.to_string()]);
                    }
                    s.tally(&format!("typed.{kind}.{}", if wf { "wf" } else { "hostile" }));
                    Some(format!("key={} {}", enc(&text), fmt_put(ok, &d)))
                }
            }
        }
        ["tmp", layout, k] => {
            let key = dec_tok(k)?;
            let cfg0 = disk_cfg(Path::new("/x"), layout)?;
            let _ = cfg0;
            if unsafe_args(&[&key], &[]) { return Some("unsafe-skip".into()); }
            let sb = Sandbox::new();
            let cfg = disk_cfg(&sb.root, layout)?;
            let real = sb.real(&key);
            let before = sb.snap();
            let r = catch(AssertUnwindSafe(|| {
                let cache: DiskCache<RawKey> = DiskCache::new(cfg).expect("disk cache");
                if ctx.rt.block_on(cache.put(RawKey(real.clone()), Bytes::from_static(b"v"))).is_err() {
                    return None;
                }
                let mid = sb.snap();
                let d1 = diff(&sb, &before, &mid);
                if d1.new_files.len() != 1 { return None; }
                let f = PathBuf::from(sb.real(&d1.new_files[0]));
                // block the final name with a non-empty directory: the rename must fail and
                // the temporary file stays where write_file created it
                std::fs::remove_file(&f).ok()?;
                std::fs::create_dir(&f).ok()?;
                std::fs::write(f.join("x"), b"x").ok()?;
                let blocked = sb.snap();
                let _ = ctx.rt.block_on(cache.put(RawKey(real.clone()), Bytes::from_static(b"w")));
                let end = sb.snap();
                let d2 = diff(&sb, &blocked, &end);
                Some((d1.new_files[0].clone(), d2))
            }));
            match r {
                Err(_) => { s.oracle_fail("panic-disk", &format!("put panicked for key {key:?}"), &[req.to_string()]); Some("panic".into()) }
                Ok(None) => Some("n/a".into()),
                Ok(Some((fin, d2))) => {
                    check_confined(s, "disk", &[&key], &d2, req);
                    if d2.new_files.len() == 1 {
                        note_final(s, ctx, layout, &fin, &key, false, req);
                        note_temp(s, ctx, layout, &d2.new_files[0], &key, req);
                        s.tally("tmp.observed");
                        Some(format!("tmp={}", enc(&d2.new_files[0])))
                    } else {
                        if d2.new_files.is_empty() { Some("tmp=none".into()) } else { Some(format!("tmp?{}", d2.new_files.len())) }
                    }
                }
            }
        }
        ["seq", k1, k2] => {
            let (a, b) = (dec_tok(k1)?, dec_tok(k2)?);
            if a.contains('/') || b.contains('/') || a.contains('\0') || b.contains('\0') { return Some("n/a".into()); }
            if unsafe_args(&[&a, &b], &[]) { return Some("unsafe-skip".into()); }
            let sb = Sandbox::new();
            let cfg = disk_cfg(&sb.root, "flat")?;
            let before = sb.snap();
            let r = catch(AssertUnwindSafe(|| {
                let cache: DiskCache<RawKey> = DiskCache::new(cfg).expect("disk cache");
                let p = |k: &str, v: &'static [u8]| ctx.rt.block_on(cache.put(RawKey(k.to_string()), Bytes::from_static(v))).is_ok();
                if !(p(&a, b"1") && p(&b, b"2") && p(&a, b"3")) { return None; }
                Some(matches!(ctx.rt.block_on(cache.get(&RawKey(b.clone()))), Ok(Some(d)) if &d[..] == b"2"))
            }));
            let after = sb.snap();
            check_confined(s, "disk", &[&a, &b], &diff(&sb, &before, &after), req);
            match r {
                Err(_) => { s.oracle_fail("panic-disk", "put/get sequence panicked", &[req.to_string()]); Some("panic".into()) }
                Ok(None) => Some("n/a".into()),
                Ok(Some(true)) => { s.tally("seq.kept"); Some("kept".into()) }
                Ok(Some(false)) => {
                    s.tally("seq.lost");
                    if a != b {
                        s.oracle_fail("tmp-clobbers-other-key", &format!("put({a:?}); put({b:?}); put({a:?}) — get({b:?}) no longer returns the value stored under {b:?}: the two keys ended up in the same file"), &[req.to_string()]);
                    }
                    Some("lost".into())
                }
            }
        }
        ["pcache", k] => {
            let key = dec_tok(k)?;
            if unsafe_args(&[&key], &[]) { return Some("unsafe-skip".into()); }
            let sb = Sandbox::new();
            let real = sb.real(&key);
            let before = sb.snap();
            let r = catch(AssertUnwindSafe(|| {
                let pc = protocol_cache(&sb.root);
                let ok = pc.store_bytes(&real, b"v").is_ok();
                let got = pc.get_bytes(&real);
                (ok, match got { Ok(Some(_)) => "hit", Ok(None) => "miss", Err(_) => "err" })
            }));
            let after = sb.snap();
            let d = diff(&sb, &before, &after);
            check_confined(s, "disk", &[&key], &d, req);
            match r {
                Err(_) => { s.oracle_fail("panic-disk", &format!("ProtocolCache panicked for key {key:?}"), &[req.to_string()]); Some("panic".into()) }
                Ok((ok, got)) => {
                    if ok && d.new_files.len() == 1 {
                        let canonical = !key.is_empty() && key.split('/').all(|g| !g.is_empty() && g != "." && g != "..");
                        note_final(s, ctx, "pcache", &d.new_files[0], &key, canonical, req);
                    }
                    s.tally(if ok { "pcache.ok" } else { "pcache.err" });
                    Some(if ok { format!("{} get={got}", fmt_put(ok, &d)) } else { fmt_put(ok, &d) })
                }
            }
        }
        // queryd = query in the deep sandbox (guard: `unsafe_deep`)
        [op @ ("query" | "queryd"), e] => {
            let ep = dec_tok(e)?;
            let deep = *op == "queryd";
            if deep { if unsafe_deep(&[&ep]) { return Some("unsafe-skip".into()); } }
            else if unsafe_args(&[], &[&ep]) { return Some("unsafe-skip".into()); }
            let sb = if deep { Sandbox::deep() } else { Sandbox::new() };
            let before = sb.snap();
            let addr = ctx.srv.addr.clone();
            let r = catch(AssertUnwindSafe(|| {
                let cfg = ClientConfig {
                    tact_https_url: String::new(),
                    tact_http_url: format!("http://{addr}"),
                    ribbit_url: "tcp://127.0.0.1:1".to_string(),
                    cache_config: CacheConfig { cache_dir: Some(sb.root.clone()), ..CacheConfig::default() },
                    ..ClientConfig::default()
                };
                let client = RibbitTactClient::new(cfg).expect("client");
                ctx.rt.block_on(client.query(&ep)).map(|_| ())
            }));
            let after = sb.snap();
            let d = diff(&sb, &before, &after);
            check_confined(s, "query", &[&ep], &d, req);
            match r {
                Err(_) => { s.oracle_fail("panic-query", &format!("query panicked for endpoint {ep:?}"), &[req.to_string()]); Some("panic".into()) }
                Ok(Ok(())) => {
                    if d.new_files.len() == 1 {
                        note_final(s, ctx, "query", &d.new_files[0], &ep, wf_endpoint_s(&ep), req);
                    }
                    s.tally("query.ok");
                    Some(fmt_put(true, &d))
                }
                Ok(Err(e)) => {
                    let c = perr(&e);
                    s.tally(&format!("query.{c}"));
                    if c == "err:invalid-endpoint" { Some(c.into()) } else { Some(format!("{c} {}", &fmt_put(false, &d)[4..])) }
                }
            }
        }
        ["cdn", api, scheme, host, path, rest @ ..] => {
            let scheme = dec_opt(scheme)?;
            let local = *host == "@";
            let host_s = if local { ctx.srv.addr.clone() } else { dec_tok(host)? };
            let path = dec_tok(path)?;
            let ep = CdnEndpoint { host: host_s, path: path.clone(), product_path: None, scheme: if local { Some("http".into()) } else { scheme }, is_fallback: false, strict: false, max_hosts: None };
            // indexd / isized = index / isize in the deep sandbox (guard: `unsafe_deep`)
            let deep = matches!(*api, "indexd" | "isized");
            let sb = if deep { Sandbox::deep() } else { Sandbox::new() };
            let before = sb.snap();
            *ctx.srv.seen.lock().unwrap() = Seen::default();
            let mut archive_key: Option<String> = None;
            enum R { Unit(Result<(), ProtocolError>) }
            let mut hostile: Vec<String> = vec![path.clone()];
            let mut cu = false;
            let mut want_range = false;
            let res: Result<R, String> = match (*api, rest) {
                ("download" | "resume" | "progress" | "size", [ct, key, cuf]) => {
                    let ct = ctype(ct)?;
                    let key = unhex(key)?;
                    cu = *cuf == "cu=1";
                    if unsafe_args(&[], &[&path]) { return Some("unsafe-skip".into()); }
                    catch(AssertUnwindSafe(|| {
                        let c = CdnClient::new(protocol_cache(&sb.root), CdnConfig::default()).expect("cdn client");
                        R::Unit(match *api {
                            "download" => ctx.rt.block_on(c.download(&ep, ct, &key)).map(|_| ()),
                            "resume" => ctx.rt.block_on(c.download_with_resume(&ep, ct, &key, Some(3))).map(|_| ()),
                            "progress" => ctx.rt.block_on(c.download_with_progress(&ep, ct, &key, |_, _| {})).map(|_| ()),
                            _ => ctx.rt.block_on(c.get_file_size(&ep, ct, &key)).map(|_| ()),
                        })
                    }))
                }
                ("range", [ct, key, off, len]) => {
                    let ct = ctype(ct)?;
                    let key = unhex(key)?;
                    let (off, len): (u64, u64) = (off.parse().ok()?, len.parse().ok()?);
                    want_range = true;
                    if unsafe_args(&[], &[&path]) { return Some("unsafe-skip".into()); }
                    catch(AssertUnwindSafe(|| {
                        let c = CdnClient::new(protocol_cache(&sb.root), CdnConfig::default()).expect("cdn client");
                        R::Unit(ctx.rt.block_on(c.download_range(&ep, ct, &key, off, len)).map(|_| ()))
                    }))
                }
                ("index" | "isize" | "indexd" | "isized", [ak, cuf]) => {
                    let ak = dec_tok(ak)?;
                    cu = *cuf == "cu=1";
                    hostile.push(ak.clone());
                    archive_key = Some(ak.clone());
                    if deep { if unsafe_deep(&[&path, &ak]) { return Some("unsafe-skip".into()); } }
                    else if unsafe_args(&[], &[&path, &ak]) { return Some("unsafe-skip".into()); }
                    catch(AssertUnwindSafe(|| {
                        let c = CdnClient::new(protocol_cache(&sb.root), CdnConfig::default()).expect("cdn client");
                        R::Unit(if api.starts_with("index") { ctx.rt.block_on(c.download_archive_index(&ep, &ak)).map(|_| ()) } else { ctx.rt.block_on(c.get_index_size(&ep, &ak)).map(|_| ()) })
                    }))
                }
                _ => return None,
            };
            let after = sb.snap();
            let d = diff(&sb, &before, &after);
            let refs: Vec<&str> = hostile.iter().map(|x| x.as_str()).collect();
            let seen = std::mem::take(&mut *ctx.srv.seen.lock().unwrap());
            // the archive name (remote data: it comes from CDN configs): with a CDN path that is an
            // ordinary relative one, whatever leaves the cache directory does so through the name
            let plain_path = !path.starts_with('/') && path.split('/').all(|g| g != "..");
            match &archive_key {
                Some(ak) if plain_path && !d.outside.is_empty() => {
                    s.oracle_fail("escape-archive-key", &format!("CdnClient::{} with CDN path {path:?} and archive key {ak:?}: entries created/removed outside the cache directory /S/d1/d2/cache: {:?}", if api.starts_with("index") { "download_archive_index" } else { "get_index_size" }, d.outside), &[req.to_string()]);
                }
                _ => check_confined(s, "cdn", &refs, &d, req),
            }
            // an archive key with a character that is no ASCII letter or digit (separators, dots,
            // NUL, blanks, non-ASCII) or of fewer than 4 bytes never reaches the network or the cache
            if let Some(ak) = &archive_key {
                let plain = ak.len() >= 4 && ak.bytes().all(|b| b.is_ascii_alphanumeric());
                let refused = matches!(&res, Ok(R::Unit(Err(ProtocolError::InvalidKey))));
                if !plain && d.outside.is_empty() && (seen.target.is_some() || !(refused || res.is_err())) {
                    s.oracle_fail("archive-key-accepted", &format!("CdnClient::{} with CDN path {path:?}: the archive key {ak:?} was not refused with InvalidKey ({}; request sent: {:?}; new files {:?})", if api.starts_with("index") { "download_archive_index" } else { "get_index_size" }, match &res { Ok(R::Unit(Ok(()))) => "Ok".to_string(), Ok(R::Unit(Err(e))) => perr(e).to_string(), Err(_) => "panic".into() }, seen.target, d.new_files), &[req.to_string()]);
                }
            }
            match res {
                Err(m) => {
                    s.oracle_fail(&format!("panic-cdn-{api}"), &format!("CdnClient::{api} panicked: {m}"), &[req.to_string()]);
                    s.tally("cdn.panic");
                    Some("panic".into())
                }
                Ok(R::Unit(Ok(()))) => {
                    s.tally(&format!("cdn.{api}.ok"));
                    if want_range {
                        Some(format!("ok range={}", seen.range.as_deref().map(enc).unwrap_or("-".into())))
                    } else if *api == "download" || api.starts_with("index") {
                        Some(format!("{} url={}", fmt_put(true, &d), url_path(&seen.target, cu)))
                    } else {
                        Some(format!("ok url={}", url_path(&seen.target, cu)))
                    }
                }
                Ok(R::Unit(Err(e))) => {
                    let c = perr(&e);
                    s.tally(&format!("cdn.{api}.{c}"));
                    if c == "err:invalid-key" { Some(c.into()) } else { Some(format!("{c} {}", &fmt_put(false, &d)[4..])) }
                }
            }
        }
        // CDN cache-key / cache-file injectivity across content types and entry points: a sequence
        // of calls for ONE hash on ONE CDN path through ONE CdnClient / ProtocolCache (disk or
        // memory backed). The mock CDN serves different bytes at every URL, so the bytes a call
        // returns say where they came from.
        ["cdnx", backing, path, key, calls @ ..] if !calls.is_empty() => {
            let disk = match *backing { "disk" => true, "mem" => false, _ => return None };
            let path = dec_tok(path)?;
            let key = unhex(key)?;
            #[derive(Clone, PartialEq, Debug)]
            enum Obj { Full(String), Index, Part(String, u64, Option<u64>) }
            let mut plan: Vec<(String, Obj)> = vec![];
            for c in calls {
                let obj = match c.split('.').collect::<Vec<_>>().as_slice() {
                    ["dl", ct] | ["progress", ct] => { ctype(ct)?; Obj::Full((*ct).to_string()) }
                    ["index"] => Obj::Index,
                    ["range", ct, off, len] => { let (o, l): (u64, u64) = (off.parse().ok()?, len.parse().ok()?); if l == 0 || o.checked_add(l).is_none() { return None; } ctype(ct)?; Obj::Part((*ct).to_string(), o, Some(o + l - 1)) }
                    ["resume", ct, off] => { ctype(ct)?; Obj::Part((*ct).to_string(), off.parse().ok()?, None) }
                    _ => return None,
                };
                plan.push((c.to_string(), obj));
            }
            if !cu_ok(&path) { return Some("n/a".into()); }
            let ep = CdnEndpoint { host: ctx.srv.addr.clone(), path: path.clone(), product_path: None, scheme: Some("http".into()), is_fallback: false, strict: false, max_hosts: None };
            let sb = Sandbox::new();
            let before = sb.snap();
            *ctx.srv.seen.lock().unwrap() = Seen { echo: true, ..Seen::default() };
            let hexk = hex::encode(&key);
            type CallOut = (Result<Vec<u8>, ProtocolError>, Vec<String>);
            let r: Result<Vec<CallOut>, String> = catch(AssertUnwindSafe(|| {
                let cache = if disk { protocol_cache(&sb.root) } else { Arc::new(cascette_protocol::cache::ProtocolCache::new(&CacheConfig { cache_dir: None, ..CacheConfig::default() }).expect("memory cache")) };
                let c = CdnClient::new(cache, CdnConfig::default()).expect("cdn client");
                let mut outs = vec![];
                for (call, _) in &plan {
                    ctx.srv.seen.lock().unwrap().hits.clear();
                    let f: Vec<&str> = call.split('.').collect();
                    let res = match f.as_slice() {
                        ["dl", ct] => ctx.rt.block_on(c.download(&ep, ctype(ct).unwrap(), &key)),
                        ["progress", ct] => ctx.rt.block_on(c.download_with_progress(&ep, ctype(ct).unwrap(), &key, |_, _| {})),
                        ["index"] => ctx.rt.block_on(c.download_archive_index(&ep, &hexk)),
                        ["range", ct, off, len] => ctx.rt.block_on(c.download_range(&ep, ctype(ct).unwrap(), &key, off.parse().unwrap(), len.parse().unwrap())),
                        ["resume", ct, off] => ctx.rt.block_on(c.download_with_resume(&ep, ctype(ct).unwrap(), &key, Some(off.parse().unwrap()))),
                        _ => unreachable!(),
                    };
                    let hits = ctx.srv.seen.lock().unwrap().hits.clone();
                    outs.push((res, hits));
                }
                outs
            }));
            let after = sb.snap();
            *ctx.srv.seen.lock().unwrap() = Seen::default();
            let d = diff(&sb, &before, &after);
            check_confined(s, "cdn", &[&path], &d, req);
            let outs = match r {
                Err(m) => { s.oracle_fail("panic-cdn-cdnx", &format!("CdnClient call sequence {calls:?} panicked: {m}"), &[req.to_string()]); return Some("panic".into()); }
                Ok(o) => o,
            };
            // O (knows nothing about the shape of URLs or cache keys): a call that contacted the CDN
            // returns exactly what the CDN sent for that request; a call that did not must repeat
            // an earlier call for the SAME object; two different whole objects never read the same
            let slice = |full: &[u8], a: u64, b: Option<u64>| -> Vec<u8> {
                if (a as usize) >= full.len() { return vec![]; }
                let e = b.map_or(full.len() - 1, |b| (b as usize).min(full.len() - 1));
                full[a as usize..=e].to_vec()
            };
            let mut failed = false;
            let mut whole: Vec<(usize, Obj, Vec<u8>)> = vec![];
            let mut resp: Vec<String> = vec![];
            for (i, ((call, obj), (res, hits))) in plan.iter().zip(outs.iter()).enumerate() {
                let net = if hits.is_empty() { "-".to_string() } else { hits.iter().map(|h| enc(h)).collect::<Vec<_>>().join(",") };
                match res {
                    Err(e) => resp.push(format!("{}@{net}", perr(e))),
                    Ok(bytes) => {
                        resp.push(format!("ok@{net}"));
                        if failed { continue; }
                        let cacheable = matches!(obj, Obj::Full(_) | Obj::Index);
                        let prev_same = whole.iter().find(|(_, o, _)| o == obj);
                        let clash = whole.iter().find(|(_, o, b)| cacheable && o != obj && b == bytes);
                        if let Some((j, _, _)) = clash {
                            failed = true;
                            s.oracle_fail(&format!("cdn-cache-shared-{}-{}", plan[*j].0.split('.').take(2).collect::<Vec<_>>().join("."), call.split('.').take(2).collect::<Vec<_>>().join(".")),
                                &format!("CDN path {path:?}, hash {hexk}, calls {calls:?} ({backing} cache): call #{i} ({call}) returned the bytes {:?} that call #{j} ({}) had returned for a different object; it contacted {:?}", String::from_utf8_lossy(bytes), plan[*j].0, hits), &[req.to_string()]);
                        } else if let [t] = hits.as_slice() {
                            let want = match obj { Obj::Part(_, a, b) => slice(&echo_body(t), *a, *b), _ => echo_body(t) };
                            if *bytes != want {
                                failed = true;
                                s.oracle_fail(&format!("cdn-wrong-bytes-{}", call.split('.').take(2).collect::<Vec<_>>().join(".")), &format!("CDN path {path:?}, hash {hexk}, calls {calls:?}: call #{i} ({call}) requested {t} and returned {:?}, not what the CDN sent ({:?})", String::from_utf8_lossy(bytes), String::from_utf8_lossy(&want)), &[req.to_string()]);
                            }
                        } else if hits.is_empty() {
                            match prev_same {
                                Some((_, _, b)) if cacheable && b == bytes => {}
                                _ => {
                                    failed = true;
                                    s.oracle_fail(&format!("cdn-cache-shared-{}", call.split('.').take(2).collect::<Vec<_>>().join(".")), &format!("CDN path {path:?}, hash {hexk}, calls {calls:?} ({backing} cache): call #{i} ({call}) did not contact the CDN although this object had not been fetched before; it returned {:?}", String::from_utf8_lossy(bytes)), &[req.to_string()]);
                                }
                            }
                        }
                        if cacheable && prev_same.is_none() { whole.push((i, obj.clone(), bytes.clone())); }
                    }
                }
            }
            // every object that went through the caching entry points has a file of its own
            let cached: Vec<&Obj> = { let mut v: Vec<&Obj> = vec![]; for ((call, obj), (res, _)) in plan.iter().zip(outs.iter()) { if res.is_ok() && (call.starts_with("dl.") || call == "index") && !v.contains(&obj) { v.push(obj); } } v };
            if disk && !failed && d.new_files.len() < cached.len() {
                s.oracle_fail("cdn-cache-file-shared", &format!("CDN path {path:?}, hash {hexk}, calls {calls:?}: {} different objects were cached in {} file(s) {:?}", cached.len(), d.new_files.len(), d.new_files), &[req.to_string()]);
            }
            s.tally(&format!("cdnx.{backing}.{}", plan.len()));
            let mut files = d.new_files.clone();
            files.sort();
            Some(format!("{} files={}", resp.join(" "), if files.is_empty() { "-".to_string() } else { files.iter().map(|x| enc(x)).collect::<Vec<_>>().join(",") }))
        }
        // RangeDownloader::download_archive_content (cdn/range.rs): URL
        // "https://{host}/{path}[/{product_path}]/data/{name[0..2]}/{name[2..4]}/{name}"; the scheme is
        // fixed, so the request goes to a closed port and the URL is read back from the
        // connection error (`reqwest::Error::url`)
        ["arange", host, path, pp, name, off, len, cuf] => {
            let (host, path, pp, name) = (dec_tok(host)?, dec_tok(path)?, dec_opt(pp)?, dec_tok(name)?);
            let (off, len): (u64, u64) = (off.parse().ok()?, len.parse().ok()?);
            let cu = *cuf == "cu=1";
            let ep = CdnEndpoint { host, path: path.clone(), product_path: pp.clone(), scheme: None, is_fallback: false, strict: false, max_hosts: None };
            let sb = Sandbox::new();
            let before = sb.snap();
            let r = catch(AssertUnwindSafe(|| {
                let d = cascette_protocol::cdn::RangeDownloader::with_config(1, 1 << 20, std::time::Duration::from_secs(5)).expect("range downloader");
                ctx.rt.block_on(d.download_archive_content(&ep, &name, off, len)).map(|_| ())
            }));
            let after = sb.snap();
            let d = diff(&sb, &before, &after);
            let mut strs: Vec<&str> = vec![&path, &name];
            if let Some(p) = &pp { strs.push(p); }
            check_confined(s, "arange", &strs, &d, req);
            match r {
                Err(m) => {
                    s.oracle_fail("panic-cdn-arange", &format!("RangeDownloader::download_archive_content panicked for archive name {name:?}: {m}"), &[req.to_string()]);
                    s.tally("arange.panic");
                    Some("panic".into())
                }
                Ok(Ok(())) => Some("ok".into()),
                Ok(Err(e)) => {
                    use cascette_protocol::cdn::RangeError;
                    match &e {
                        RangeError::InvalidArchiveName(_) => { s.tally("arange.invalid-name"); Some("err:invalid-name".into()) }
                        RangeError::Network(ne) => {
                            s.tally("arange.network");
                            let url = ne.url().map(|u| u.as_str().to_string());
                            Some(format!("err:network url={}", if cu { url.as_deref().map(enc).unwrap_or("-".into()) } else { "-".into() }))
                        }
                        _ => Some("err:other".into()),
                    }
                }
            }
        }
        ["ctor", name, args @ ..] => {
            let r = catch(AssertUnwindSafe(|| ctor_call(name, args)));
            match r {
                Err(_) => { s.oracle_fail("panic-ctor", &format!("{name} / as_cache_key panicked"), &[req.to_string()]); Some("panic".into()) }
                Ok(None) => None,
                Ok(Some((text, same, wf))) => {
                    if !same {
                        s.oracle_fail("key-text-readings-differ", &format!("{name}: as_cache_key, Display, CacheKey::as_cache_key and the clone's do not all print {text:?}"), &[req.to_string()]);
                    }
                    if wf {
                        let ident = format!("{name}({})", args.join(","));
                        if let Some((prev, preq)) = ctx.ctor_texts.get(&text) {
                            if *prev != ident {
                                s.oracle_fail("collide-ctor-wf", &format!("constructor calls {prev} and {ident} with well-formed arguments print the same key text {text:?}"), &[preq.clone(), req.to_string()]);
                            }
                        } else {
                            ctx.ctor_texts.insert(text.clone(), (ident, req.to_string()));
                        }
                    }
                    s.tally(&format!("ctor.{name}.{}", if wf { "wf" } else { "hostile" }));
                    Some(format!("key={} same={}", enc(&text), u8::from(same)))
                }
            }
        }
        ["stale", kind, args @ ..] => {
            let (before, after, fresh, eq) = stale_call(kind, args)?;
            if eq && after != fresh {
                s.oracle_fail("stale-key-text-after-field-write", &format!("{kind} key: after as_cache_key() and an assignment to its public fields the key equals a freshly constructed one (==) but prints {after:?} instead of {fresh:?}: the two are stored in different files, and it shares the file of the key it was before"), &[req.to_string()]);
            }
            s.tally(if after == fresh { "stale.same" } else { "stale.stale" });
            Some(format!("before={} after={} fresh={} eq={}", enc(&before), enc(&after), enc(&fresh), u8::from(eq)))
        }
        ["pkey", p, e] => {
            let (p, e) = (dec_tok(p)?, dec_tok(e)?);
            let t = cascette_protocol::format_cache_key(&p, &e);
            Some(format!("key={}", enc(&t)))
        }
        // cold remove: a DiskCache instance that has not indexed the key deletes get_file_path(key)
        ["rdel", layout, k] => {
            let key = dec_tok(k)?;
            disk_cfg(Path::new("/x"), layout)?;
            if unsafe_args(&[&key], &[]) { return Some("unsafe-skip".into()); }
            let sb = Sandbox::new();
            std::fs::write(sb.parent.join("d1").join("secret"), b"s").unwrap();
            std::fs::write(sb.root.join("inside"), b"i").unwrap();
            let cfg = disk_cfg(&sb.root, layout)?;
            let real = sb.real(&key);
            let before = sb.snap();
            let r = catch(AssertUnwindSafe(|| {
                let cache: DiskCache<RawKey> = DiskCache::new(cfg).expect("disk cache");
                ctx.rt.block_on(cache.remove(&RawKey(real)))
            }));
            let after = sb.snap();
            let d = diff(&sb, &before, &after);
            // hashed layouts create their directories inside the root on the way; only removals count
            let gone_outside: Vec<&String> = d.removed.iter().filter(|p| !(p.as_str() == "/S/d1/d2/cache" || p.starts_with("/S/d1/d2/cache/"))).collect();
            if !gone_outside.is_empty() {
                s.oracle_fail(&format!("delete-escape-disk-{}", shape_fs(&[&key], 0, &gone_outside.iter().map(|x| (*x).clone()).collect::<Vec<_>>())), &format!("DiskCache::remove({key:?}) deleted {gone_outside:?}, outside the cache directory /S/d1/d2/cache"), &[req.to_string()]);
            }
            let created_outside: Vec<&String> = d.new_files.iter().chain(d.new_dirs.iter()).filter(|p| !p.starts_with("/S/d1/d2/cache/")).collect();
            if !created_outside.is_empty() {
                s.oracle_fail(&format!("escape-disk-{}", shape_fs(&[&key], 0, &created_outside.iter().map(|x| (*x).clone()).collect::<Vec<_>>())), &format!("DiskCache::remove({key:?}) created {created_outside:?} outside the cache directory"), &[req.to_string()]);
            }
            match r {
                Err(_) => { s.oracle_fail("panic-disk", &format!("DiskCache::remove panicked for key {key:?}"), &[req.to_string()]); Some("panic".into()) }
                Ok(Err(_)) => Some("err".into()),
                Ok(Ok(b)) => {
                    s.tally(if b { "rdel.removed" } else { "rdel.nothing" });
                    let mut gone = d.removed.clone();
                    gone.sort();
                    Some(format!("{} gone={}", if b { "removed" } else { "nothing" }, if gone.is_empty() { "-".to_string() } else { gone.iter().map(|x| enc(x)).collect::<Vec<_>>().join(",") }))
                }
            }
        }
        ["fmt", "seg", i] => {
            let i: u16 = i.parse().ok()?;
            let p = cascette_client_storage::storage::segment::segment_data_path(Path::new("/S/d1/d2/cache"), i);
            if !p.starts_with("/S/d1/d2/cache") || p.components().count() != 6 { s.oracle_fail("escape-fmt-seg", &format!("{}", p.display()), &[req.to_string()]); }
            note_fmt(s, ctx, "seg", &p.to_string_lossy(), &i.to_string(), req);
            Some(enc(&p.to_string_lossy()))
        }
        // the temporary file of IndexManager::save_index, observed by occupying a name with a
        // directory before the save: the save fails iff that name is the temporary or the final one
        ["fmt", "idxtmp", k, kind] => {
            let key = ek(k)?;
            let run = |block: Option<&str>| -> Option<(bool, Vec<String>, Vec<String>)> {
                let sb = Sandbox::new();
                if let Some(name) = block {
                    std::fs::create_dir(sb.root.join(name)).ok()?;
                    std::fs::write(sb.root.join(name).join("x"), b"x").ok()?;
                }
                let before = sb.snap();
                let r = catch(AssertUnwindSafe(|| {
                    let mut im = cascette_client_storage::index::IndexManager::new(&sb.root);
                    im.add_entry(&key, 0, 0, 10).ok()?;
                    Some(im.save_all().is_ok())
                }));
                let after = sb.snap();
                let d = diff(&sb, &before, &after);
                match r { Ok(Some(ok)) => Some((ok, d.new_files.clone(), d.outside.clone())), _ => None }
            };
            // learn the final name from an unobstructed save
            let (ok0, files0, _) = run(None)?;
            if !ok0 || files0.len() != 1 { return Some("err:setup".into()); }
            let fin = files0[0].rsplit('/').next()?.to_string();
            let stem = fin.rsplit_once('.').map(|x| x.0.to_string()).unwrap_or(fin.clone());
            let blocked = match *kind { "stem.tmp" => format!("{stem}.tmp"), "name.tmp" => format!("{fin}.tmp"), "tmp" => "tmp".to_string(), "name" => fin.clone(), "stem" => stem.clone(), "other.tmp" => format!("{}2.tmp", &stem[..stem.len() - 1]), _ => return None };
            let (ok, files, outside) = run(Some(&blocked))?;
            if !outside.is_empty() { s.oracle_fail("escape-idx-tmp", &format!("{outside:?}"), &[req.to_string()]); }
            let left: Vec<&String> = files.iter().filter(|p| !p.ends_with(&format!("/{fin}"))).collect();
            if !left.is_empty() { s.oracle_fail("idx-tmp-left-behind", &format!("save_all left {left:?}"), &[req.to_string()]); }
            Some(format!("{} blocked={}", if ok { "ok" } else { "err" }, enc(&blocked)))
        }
        ["inst", n, _data, _indices, _std] => {
            let name = dec_tok(n)?;
            if unsafe_args(&[&name], &[]) { return Some("unsafe-skip".into()); }
            let sb = Sandbox::new();
            let real = sb.real(&name);
            let r0 = catch(AssertUnwindSafe(|| {
                cascette_client_storage::Storage::new(cascette_client_storage::StorageConfig { base_path: sb.root.clone(), ..Default::default() })
            }));
            let storage = match r0 { Ok(Ok(st)) => st, _ => return Some("err:setup".into()) };
            let before = sb.snap();
            let r = catch(AssertUnwindSafe(|| storage.open_installation(&real).map(|i| i.path().clone())));
            let after = sb.snap();
            let d = diff(&sb, &before, &after);
            check_confined(s, "inst", &[&name], &d, req);
            // the directory the installation says it lives in, lexically normalised, is below base_path
            if let Ok(Ok(p)) = &r {
                let mut norm = PathBuf::new();
                for c in p.components() {
                    match c {
                        std::path::Component::ParentDir => { norm.pop(); }
                        std::path::Component::CurDir => {}
                        c => norm.push(c),
                    }
                }
                if !norm.starts_with(&sb.root) {
                    s.oracle_fail(&format!("escape-inst-path-{}", shape(&[&name])), &format!("open_installation({name:?}) returned an installation at {}, not below base_path /S/d1/d2/cache", if p.starts_with(&sb.parent) { sb.abs(p) } else { p.to_string_lossy().into_owned() }), &[req.to_string()]);
                }
            }
            let r = r.map(|x| x.map(|_| ()));
            match r {
                Err(_) => { s.oracle_fail("panic-inst", &format!("open_installation panicked for {name:?}"), &[req.to_string()]); Some("panic".into()) }
                Ok(Ok(())) => {
                    s.tally("inst.ok");
                    let mut nd = d.new_dirs.clone();
                    nd.sort();
                    let dirs = if nd.is_empty() { "-".to_string() } else { nd.iter().map(|x| enc(x)).collect::<Vec<_>>().join(",") };
                    Some(format!("ok dirs={dirs}"))
                }
                Ok(Err(e)) => {
                    let c = if matches!(e, cascette_client_storage::StorageError::Config(_)) { "err:config" } else { "err:other" };
                    s.tally(&format!("inst.{c}"));
                    Some(c.into())
                }
            }
        }
        ["fmt", "ckpath", k] => {
            let b: [u8; 9] = unhex(k)?.try_into().ok()?;
            let p = cascette_client_storage::container::hardlink::format_content_key_path(Path::new("/S/d1/d2/cache"), &b);
            if !p.starts_with("/S/d1/d2/cache") { s.oracle_fail("escape-fmt-ckpath", &format!("{}", p.display()), &[req.to_string()]); }
            note_fmt(s, ctx, "ckpath", &p.to_string_lossy(), &hex(&b), req);
            Some(enc(&p.to_string_lossy()))
        }
        ["fmt", "lru", g] => {
            let g: u64 = g.parse().ok()?;
            let p = cascette_client_storage::lru::lru_file::lru_file_path(Path::new("/S/d1/d2/cache"), g);
            if !p.starts_with("/S/d1/d2/cache") { s.oracle_fail("escape-fmt-lru", &format!("{}", p.display()), &[req.to_string()]); }
            if cascette_client_storage::lru::lru_file::filename_to_generation(&p.file_name()?.to_string_lossy()) != Some(g) {
                s.oracle_fail("fmt-lru-roundtrip", &format!("{} does not parse back to generation {g}", p.display()), &[req.to_string()]);
            }
            note_fmt(s, ctx, "lru", &p.to_string_lossy(), &g.to_string(), req);
            Some(enc(&p.to_string_lossy()))
        }
        ["fmt", "idx", k] => {
            let key = ek(k)?;
            let sb = Sandbox::new();
            let before = sb.snap();
            let r = catch(AssertUnwindSafe(|| {
                let mut im = cascette_client_storage::index::IndexManager::new(&sb.root);
                im.add_entry(&key, 0, 0, 10).ok()?;
                im.save_all().ok()
            }));
            let after = sb.snap();
            let d = diff(&sb, &before, &after);
            check_confined(s, "idx", &[], &d, req);
            match r {
                Ok(Some(())) => Some(format!("ok file={}", if d.new_files.is_empty() { "-".to_string() } else { d.new_files.iter().map(|x| enc(x)).collect::<Vec<_>>().join(",") })),
                Ok(None) => Some("err".into()),
                Err(_) => { s.oracle_fail("panic-idx", "IndexManager panicked", &[req.to_string()]); Some("panic".into()) }
            }
        }
        _ => None,
    }
}

fn emit(s: &mut Session, ctx: &mut Ctx, req: String) -> String {
    let r = run_line(s, ctx, &req).unwrap_or_else(|| "bad-op".into());
    s.line(&req, &r);
    let nontrivial = !(r == "bad-op" || r.ends_with("unsafe-skip") || r == "n/a");
    s.case(if nontrivial { Some(&req) } else { None });
    s.tally(&format!("op.{}", req.split(' ').next().unwrap_or("")));
    r
}

// ---------------------------------------------------------------- generators
const SEGS: &[&str] = &["..", ".", "", "a", "b.x", "x.tmp", "data.000", "data.001", "a.b.c", ".hidden", "..a", "a..", "...", "é", "中", "con:fig", " ", "a b", "%2e%2e", "\\", "~", "S", "d1", "d2", "cache", "secret", "inside", "api", "ribbit", "cdn", "a.", ".tmp", "x.TMP",
    // "..", "." and names behind padding (see PADS): Normal components as they stand, hostile once trimmed
    " ..", ".. ", "\t..", "..\n", "\u{a0}..", "..\u{3000}", "\u{feff}..", " .", ". ", " a", "a ", "\"..\"", "..\\..", "\u{ff0e}\u{ff0e}", "%2E%2E"];

/// a hostile core behind / in front of / between padding characters
fn padded_forms(core: &str) -> Vec<String> {
    let mut v = vec![];
    for p in PADS {
        v.push(format!("{p}{core}"));
        v.push(format!("{core}{p}"));
        v.push(format!("{p}{core}{p}"));
    }
    v.push(format!(" \t {core}"));
    v.push(format!("{core}\r\n"));
    v
}
/// other spellings of a relative hostile core that some normalising step folds back into it:
/// foreign separators, padding around every segment, percent-encoding, compatibility characters,
/// trailing dots and blanks
fn respelled_forms(core: &str) -> Vec<String> {
    vec![
        core.replace('/', "\\"),
        core.split('/').map(|g| format!(" {g} ")).collect::<Vec<_>>().join("/"),
        core.split('/').map(|g| format!("{g}\t")).collect::<Vec<_>>().join("/"),
        core.replace("..", "%2e%2e"),
        core.replace("..", "%2E%2E"),
        core.replace('/', "%2f"),
        core.replace('/', "%2F").replace("..", "%2e%2e"),
        core.replace('.', "\u{ff0e}"),
        core.replace('/', "\u{ff0f}"),
        core.replace("..", "\u{2025}"),
        core.replace("..", ".. ."),
        core.replace("..", "..."),
        core.to_uppercase(),
    ]
}
/// relative cores: at most three ".." each, so that no spelling of them leaves the scratch parent
const REL_CORES: &[&str] = &["..", "../escaped", "../../escaped", "../../../escaped", "x/../../escaped"];
/// absolute cores, strictly below the scratch parent and outside the configured root
const ABS_CORES: &[&str] = &["/S/evil", "/S/d1/d2/evil"];
/// the boundary family for one API: every padding / spelling of the cores in `full` (the ones that
/// leave the root as soon as the API's own prefix is used up), a sample of the other relative
/// cores and of `extra`, and - for APIs that join the string directly - the absolute cores
fn disguised(rng: &mut Rng, thorough: bool, with_abs: bool, full: &[&str], extra: &[&str]) -> Vec<String> {
    let mut v = vec![];
    for c in full {
        v.extend(padded_forms(c).into_iter().chain(respelled_forms(c)));
    }
    for c in REL_CORES.iter().chain(extra.iter()).filter(|c| !full.contains(c)) {
        for f in padded_forms(c).into_iter().chain(respelled_forms(c)) {
            if thorough || rng.chance(1, 3) { v.push(f); }
        }
    }
    if with_abs {
        for (i, c) in ABS_CORES.iter().enumerate() {
            for f in padded_forms(c) {
                if thorough || i < 1 || rng.chance(1, 3) { v.push(f); }
            }
        }
    }
    v
}

fn hostile_string(rng: &mut Rng) -> String {
    let n = match rng.below(8) { 0 => 0, 1 | 2 => 1, 3 | 4 => 2, 5 => 3, 6 => 4, _ => rng.range(3, 6) as usize };
    let mut parts: Vec<String> = (0..n).map(|_| {
        match rng.below(40) {
            0 => "a".repeat(255),
            1 => "a".repeat(256),
            2 => format!("{}.{}", "a".repeat(250), "b".repeat(10)),
            3 => "x\0y".to_string(),
            4 | 5 | 6 | 7 | 8 | 9 => "..".to_string(),
            _ => rng.pick(SEGS).to_string(),
        }
    }).collect();
    if rng.chance(1, 8) { parts.push(String::new()); }          // trailing slash
    let mut s = parts.join("/");
    match rng.below(14) {
        0 => s = format!("/S/{s}"),                               // absolute, inside the sandbox
        1 => s = format!("/{s}"),                                 // absolute, elsewhere (guard skips unless harmless)
        2 => s = "/S".to_string(),
        3 => s = format!("{}{s}", rng.pick(PADS)),                // padding in front (guard skips pad + absolute)
        4 => s = format!("{s}{}", rng.pick(PADS)),                // padding behind
        _ => {}
    }
    s
}

fn wf_name(rng: &mut Rng) -> String {
    const N: &[&str] = &["us", "eu", "cn", "wow", "wow_classic", "d3", "buildconfig", "cdnconfig", "patchconfig", "root", "encoding", "install", "download", "summary", "versions", "cdns", "bgdl", "v1", "products", "A-b_9", "0", "tmp"];
    // a third of the names: two or three tokens of a small pool glued with '_' / '-', so that
    // tuples with the same concatenation and different field boundaries meet often
    if rng.chance(1, 3) {
        const T: &[&str] = &["wow", "classic", "era", "versions", "us", "ptr", "cdns", "v1", "US", "WoW"];
        let n = rng.range(2, 3);
        let mut s = (*rng.pick(T)).to_string();
        for _ in 1..n {
            s.push(*rng.pick(&['_', '_', '-']));
            s.push_str(*rng.pick(T));
        }
        return s;
    }
    rng.pick(N).to_string()
}

/// Well-formed typed keys (arguments of op `typed`) that differ in a field and would share a file
/// as soon as the file name stopped telling apart the field separator ':' and a character that
/// is legal INSIDE a field ('_', '-', '.', '/'), two such characters, upper and lower case, or
/// names beyond some length: for every separator-like character c the same concatenation with the
/// field boundary at every position ("separator shift"), the same tokens with every joiner, case
/// pairs, and 64-byte names that differ in the last byte.
fn collision_families() -> Vec<String> {
    let mut v: Vec<String> = vec![];
    let (x, y, z, r) = ("wow", "classic", "versions", "us");
    let h1 = "0123456789abcdef0123456789abcdef";
    let h2 = "fedcba9876543210fedcba9876543210";
    let e = |t: &str| enc(t);
    for c in ['_', '-'] {
        // ribbit:{region}[:{product}]:{endpoint}
        v.push(format!("ribbit {} {} {}", e(z), e(r), e(&format!("{x}{c}{y}"))));
        v.push(format!("ribbit {} {} {}", e(&format!("{y}{c}{z}")), e(r), e(x)));
        v.push(format!("ribbit {} {} ~", e(&format!("{x}{c}{y}{c}{z}")), e(r)));
        v.push(format!("ribbit {} {} ~", e(&format!("{y}{c}{z}")), e(&format!("{r}{c}{x}"))));
        v.push(format!("ribbit {} {} {}", e(z), e(&format!("{r}{c}{x}")), e(y)));
        v.push(format!("ribbit {} {} ~", e(z), e(&format!("{r}{c}{x}{c}{y}"))));
        // config:{type}:{hash}, index:{archive}:{hash}
        for kind in ["config", "index"] {
            v.push(format!("{kind} {} {}", e(&format!("{x}{c}{y}")), e(z)));
            v.push(format!("{kind} {} {}", e(x), e(&format!("{y}{c}{z}"))));
            v.push(format!("{kind} {} {}", e(&format!("{x}{c}{h1}")), e(h2)));
            v.push(format!("{kind} {} {}", e(x), e(&format!("{}{c}{h2}", &h1[..16]))));
            v.push(format!("{kind} {} {}", e(&format!("{x}{c}{}", &h1[..16])), e(h2)));
        }
        // manifest:{type}:{ckey}[:{version}]
        v.push(format!("manifest {} {h2} ~", e(&format!("{x}{c}{h1}"))));
        v.push(format!("manifest {} {h1} {}", e(x), e(h2)));
        v.push(format!("manifest {} {h1} {}", e(&format!("{x}{c}{y}")), e(z)));
        v.push(format!("manifest {} {h1} {}", e(x), e(&format!("{y}{c}{z}"))));
    }
    // the same tokens with every joiner (a name sanitiser that folds two of them collides here)
    for j1 in ["_", "-", "/", "."] {
        for j2 in ["_", "-", "/", "."] {
            let t = format!("{x}{j1}{y}{j2}{z}");
            if !t.contains('.') { v.push(format!("ribbit {} {} ~", e(&t), e(r))); }
            if !t.contains('/') {
                v.push(format!("index {} {}", e(&t), e("00")));
                v.push(format!("archive {} 0 1", e(&t)));
                v.push(format!("manifest {} {h1} {}", e("root"), e(&t)));
            }
            if !t.contains('/') && !t.contains('.') {
                v.push(format!("config {} {}", e(&t), e(h1)));
                v.push(format!("ribbit {} {} {}", e(z), e(r), e(&t)));
            }
        }
    }
    v.push(format!("ribbit {} {} ~", e(&format!("{x}/{y}/{z}")), e(r)));
    v.push(format!("ribbit {} {} {}", e(&format!("{y}/{z}")), e(r), e(x)));
    // upper / lower case
    for (a, b) in [("versions", "Versions"), ("wow", "WOW")] {
        for t in [a, b] {
            v.push(format!("ribbit {} {} ~", e(t), e(r)));
            v.push(format!("ribbit {} {} {}", e("cdns"), e(r), e(t)));
            v.push(format!("config {} {}", e(t), e(h1)));
            v.push(format!("manifest {} {h1} {}", e(t), e("1.0")));
            v.push(format!("archive {} 0 1", e(t)));
        }
    }
    for t in ["us", "US", "Us"] { v.push(format!("ribbit {} {} ~", e("summary"), e(t))); }
    for t in ["abcdef01", "ABCDEF01", "AbCdEf01"] {
        v.push(format!("config {} {}", e("buildconfig"), e(t)));
        v.push(format!("index {} {}", e("data.000"), e(t)));
    }
    // 64-byte names that differ in the last byte only, and in the first byte only
    let long = "n".repeat(63);
    for t in [format!("{long}1"), format!("{long}2"), format!("1{long}"), format!("2{long}")] {
        v.push(format!("config {} {}", e(&t), e(h1)));
        v.push(format!("config {} {}", e("buildconfig"), e(&t)));
        v.push(format!("ribbit {} {} {}", e(&t), e(r), e(&t)));
        v.push(format!("index {} {}", e(&t), e(&t)));
        v.push(format!("archive {} 0 1", e(&t)));
    }
    let mut seen = BTreeSet::new();
    v.retain(|l| seen.insert(l.clone()));
    v
}
// ---------------------------------------------------------------- long names, directed collision search
const ALNUM: &[u8] = b"0123456789ABCDEFGHIJKLMNOPQRSTUVWXYZabcdefghijklmnopqrstuvwxyz";

/// `n` bytes of varied alphanumeric text, the same for every key of a family
fn filler(n: usize) -> String {
    (0..n).map(|i| ALNUM[(i * 7 + 3) % ALNUM.len()] as char).collect()
}
/// `base` with the bytes at `pos..` replaced by `part` (ASCII only)
fn with_at(base: &str, pos: usize, part: &str) -> String {
    format!("{}{part}{}", &base[..pos], &base[pos + part.len()..])
}
/// Two-character alphanumeric tails that collide pairwise under every polynomial string hash
/// `acc * m + byte` with a multiplier m in 1..=74, whatever the word size and whatever stands in
/// front of or behind them: "A" c and "B" (c - m) (m = 31: "Aa"/"BB", m = 33: "Ab"/"BA", m = 1,
/// i.e. byte sums and XOR folds: "A1"/"B0"), plus the anagram pair "ab"/"ba".
fn poly_tails(ms: &[u8]) -> Vec<String> {
    let mut v = BTreeSet::new();
    for &m in ms {
        if let Some(c) = (b'0'..=b'z').find(|&c| c.is_ascii_alphanumeric() && c.checked_sub(m).is_some_and(|d| d.is_ascii_alphanumeric())) {
            v.insert(format!("A{}", c as char));
            v.insert(format!("B{}", (c - m) as char));
        }
    }
    v.insert("ab".into());
    v.insert("ba".into());
    v.into_iter().collect()
}

/// Well-formed typed keys (arguments of op `typed`) with names of 65 .. 241 bytes: the file name
/// crosses every length at which a cache could start to shorten, hash or truncate names (64, 100,
/// 128, 143, 200, 240 bytes; 251 is the longest name whose ".tmp" sibling still fits in NAME_MAX).
/// Per length: one long head shared by all keys and
///  - at the end: the tails of `poly_tails` for every multiplier 1..=74 (a shortened name that
///    keeps a readable head plus a small polynomial hash of the whole key or of the cut-off part),
///  - at the start and in the middle: the tails for the usual multipliers (a kept tail / kept head
///    and tail),
///  - one differing byte at the end, at the start and in the middle (plain truncation),
/// and the same for every text field of every key type at 180 bytes.
fn long_name_families() -> Vec<String> {
    let mut v: Vec<String> = vec![];
    let e = |t: &str| enc(t);
    let us = e("us");
    let all: Vec<u8> = (1..=74).collect();
    let usual = [1u8, 31, 33, 37];
    // ribbit:us:<endpoint>: 10 bytes in front of the endpoint
    for (flen, ms) in [(241usize, &all[..]), (119, &usual[..]), (65, &usual[..])] {
        let base = filler(flen);
        for t in poly_tails(ms) {
            v.push(format!("ribbit {} {us} ~", e(&with_at(&base, flen - 2, &t))));
        }
        for pos in [0, flen / 2] {
            for t in poly_tails(&usual) {
                v.push(format!("ribbit {} {us} ~", e(&with_at(&base, pos, &t))));
            }
        }
        for pos in [flen - 1, 0, flen / 2] {
            for c in ["1", "2"] {
                v.push(format!("ribbit {} {us} ~", e(&with_at(&base, pos, c))));
            }
        }
    }
    // a long last segment behind short ones ("v1/products/<long>": only the file name is long)
    {
        let base = filler(200);
        for t in poly_tails(&usual) {
            v.push(format!("ribbit {} {us} {}", e(&format!("v1/products/{}", with_at(&base, 198, &t))), e("wow")));
        }
    }
    // every text field of every key type
    let h1 = "0123456789abcdef0123456789abcdef";
    let base = filler(180);
    let mut vars: Vec<String> = vec![];
    for t in ["Aa", "BB", "Ab", "BA"] { vars.push(with_at(&base, 178, t)); }
    for t in ["Aa", "BB"] { vars.push(with_at(&base, 0, t)); vars.push(with_at(&base, 90, t)); }
    for (pos, c) in [(179, "1"), (179, "2"), (0, "1"), (0, "2")] { vars.push(with_at(&base, pos, c)); }
    for x in &vars {
        v.push(format!("ribbit {} {} ~", e("versions"), e(x)));
        v.push(format!("ribbit {} {us} {}", e("versions"), e(x)));
        v.push(format!("config {} {}", e(x), e("ab")));
        v.push(format!("config {} {}", e("buildconfig"), e(x)));
        v.push(format!("index {} {}", e(x), e("ab")));
        v.push(format!("index {} {}", e("data.000"), e(x)));
        v.push(format!("manifest {} {h1} ~", e(x)));
        v.push(format!("manifest {} {h1} {}", e("root"), e(x)));
        v.push(format!("archive {} 0 1", e(x)));
    }
    let mut seen = BTreeSet::new();
    v.retain(|l| seen.insert(l.clone()));
    v
}

/// The directed search on the REAL code, outside the request stream: all `texts` (key texts of
/// distinct well-formed keys) are stored through ONE DiskCache in one scratch directory, value =
/// position in the list, and read back. Returns a pair (i, j) of different keys such that key i
/// reads the value stored under key j (they share a file), or two keys with the same text.
fn batch_collision(ctx: &Ctx, layout: &str, texts: &[String]) -> Option<(usize, usize)> {
    let mut seen: HashMap<&str, usize> = HashMap::new();
    for (i, t) in texts.iter().enumerate() {
        if let Some(&j) = seen.get(t.as_str()) { return Some((j, i)); }
        seen.insert(t, i);
    }
    let sb = Sandbox::new_fast();
    let cfg = disk_cfg(&sb.root, layout)?.with_max_files(10_000_000);
    catch(AssertUnwindSafe(|| {
        let cache: DiskCache<RawKey> = DiskCache::new(cfg).ok()?;
        let mut stored = vec![false; texts.len()];
        for (i, t) in texts.iter().enumerate() {
            stored[i] = ctx.rt.block_on(cache.put(RawKey(t.clone()), Bytes::from(i.to_string()))).is_ok();
        }
        for (i, t) in texts.iter().enumerate() {
            if !stored[i] { continue; }
            if let Ok(Some(d)) = ctx.rt.block_on(cache.get(&RawKey(t.clone()))) {
                if let Some(j) = std::str::from_utf8(&d).ok().and_then(|x| x.parse::<usize>().ok()) {
                    if j != i { return Some((i, j)); }
                }
            }
        }
        None
    })).ok().flatten()
}

/// key text of typed arguments (no file system access); None when they are not well-formed
fn typed_text(ctx: &Ctx, sb0: &Sandbox, kind: &str, args: &[String]) -> Option<String> {
    let refs: Vec<&str> = args.iter().map(|x| x.as_str()).collect();
    let (text, _, wf, _) = typed(ctx, sb0, "flat", kind, &refs, false)?;
    if wf { Some(text) } else { None }
}

/// inputs evaluated on the real code under an oracle without a request line of their own
fn add_search_evals(s: &mut Session, n: u64) {
    let prev = s.extra.get("oracle_only_search_evaluations").and_then(|x| x.as_u64()).unwrap_or(0);
    s.extra.insert("oracle_only_search_evaluations".into(), serde_json::json!(prev + n));
}

/// run `batch_collision` over typed keys; a pair that shares a file is emitted as two ordinary
/// `typed` request lines (whose oracle, `collide-wf…`, names both keys and the file)
fn search_typed(s: &mut Session, ctx: &mut Ctx, layout: &str, kind: &str, cands: &[Vec<String>], label: &str) -> bool {
    let mut texts = vec![];
    let mut idx = vec![];
    let sb0 = Sandbox::new(); // not used: the key text is computed without running anything
    for (i, a) in cands.iter().enumerate() {
        if let Some(t) = typed_text(ctx, &sb0, kind, a) { texts.push(t); idx.push(i); }
    }
    s.tally_n(&format!("search.{label}.keys"), texts.len() as u64);
    add_search_evals(s, texts.len() as u64);
    match batch_collision(ctx, layout, &texts) {
        Some((i, j)) => {
            s.tally(&format!("search.{label}.found"));
            for k in [j, i] {
                emit(s, ctx, format!("typed {layout} {kind} {}", cands[idx[k]].join(" ")));
            }
            true
        }
        None => false,
    }
}

/// the search around the first well-formed key that was not stored under its text (none on a tree
/// where names are used as they are, so this draws nothing from the generator's random stream)
fn respelled_search(s: &mut Session, ctx: &mut Ctx, rng: &mut Rng, thorough: bool) {
    let Some((layout, kind, args)) = ctx.respelled.clone() else { return };
    if ctx.collisions > 0 { return; }
    ctx.respelled = None;
    let mut srng = Rng(rng.next() | 1);
    let cands = neighbours(&mut srng, &args, if thorough { 150_000 } else { 40_000 });
    search_typed(s, ctx, &layout, &kind, &cands, "respelled");
}

/// candidates around one well-formed key whose file name is not its text: the same key with one
/// text field varied (same length, alphanumerics only): single bytes at the ends and inside, every
/// two-character tail and head, random four-character tails
fn neighbours(rng: &mut Rng, args: &[String], n_random: usize) -> Vec<Vec<String>> {
    // the longest text field
    let Some((fi, field)) = args.iter().enumerate().filter_map(|(i, a)| dec_tok(a).map(|x| (i, x))).filter(|(_, x)| x.is_ascii() && !x.is_empty()).max_by_key(|(_, x)| x.len()) else { return vec![] };
    let b = field.as_bytes();
    let l = b.len();
    let ok = |p: usize| p < l && b[p].is_ascii_alphanumeric();
    let mut out: Vec<String> = vec![field.clone()];
    let mut pos: Vec<usize> = (0..l.min(6)).chain(l.saturating_sub(6)..l).chain((1..7).map(|k| k * l / 7)).collect();
    pos.sort();
    pos.dedup();
    for p in pos {
        if !ok(p) { continue; }
        for &c in ALNUM { out.push(with_at(&field, p, &(c as char).to_string())); }
    }
    for p in [l.saturating_sub(2), 0] {
        if l >= 2 && ok(p) && ok(p + 1) {
            for &c in ALNUM { for &d in ALNUM { out.push(with_at(&field, p, &format!("{}{}", c as char, d as char))); } }
        }
    }
    if l >= 4 && (l - 4..l).all(ok) {
        for _ in 0..n_random {
            let t: String = (0..4).map(|_| *rng.pick(ALNUM) as char).collect();
            out.push(with_at(&field, l - 4, &t));
        }
    }
    let mut seen = BTreeSet::new();
    out.retain(|x| seen.insert(x.clone()));
    out.into_iter().map(|x| { let mut a = args.to_vec(); a[fi] = enc(&x); a }).collect()
}

/// exhaustive two-adjacent-byte families of the fixed-width formatters (pure functions): every
/// value of bytes i, i+1 over fixed other bytes, i = 0..; any two inputs with one path are emitted
/// as two ordinary `fmt` request lines (oracle `collide-fmt-…`). Covers dropped padding (nibble
/// re-splits such as 01 23 / 12 03), dropped or merged bytes, narrowed integer formats.
fn fmt_searches(s: &mut Session, ctx: &mut Ctx, thorough: bool) {
    use cascette_client_storage::container::hardlink::format_content_key_path;
    use cascette_client_storage::lru::lru_file::lru_file_path;
    use cascette_client_storage::storage::segment::segment_data_path;
    let base = Path::new("/S/d1/d2/cache");
    let mut evals = 0u64;
    let mut found: Vec<(String, String)> = vec![];
    // format_content_key_path
    let mut bases: Vec<[u8; 9]> = vec![[0; 9], [0xab, 0xcd, 0x12, 0x34, 0x56, 0x78, 0x9a, 0xbc, 0xde]];
    if thorough { bases.push([0xff; 9]); bases.push([0x01, 0x10, 0x02, 0x20, 0x0a, 0xa0, 0x0f, 0xf0, 0x00]); }
    'ck: for b in &bases {
        for i in 0..8 {
            let mut map: HashMap<PathBuf, [u8; 9]> = HashMap::with_capacity(1 << 16);
            for v in 0..=0xffffu32 {
                let mut k = *b;
                k[i] = (v >> 8) as u8;
                k[i + 1] = v as u8;
                let Ok(p) = catch(AssertUnwindSafe(|| format_content_key_path(base, &k))) else { found.push((format!("fmt ckpath {}", hex(&k)), String::new())); break 'ck };
                evals += 1;
                if let Some(prev) = map.insert(p, k) {
                    found.push((format!("fmt ckpath {}", hex(&prev)), format!("fmt ckpath {}", hex(&k))));
                    break 'ck;
                }
            }
        }
    }
    // segment_data_path: every u16
    {
        let mut map: HashMap<PathBuf, u16> = HashMap::with_capacity(1 << 16);
        for i in 0..=u16::MAX {
            evals += 1;
            if let Some(prev) = map.insert(segment_data_path(base, i), i) {
                found.push((format!("fmt seg {prev}"), format!("fmt seg {i}")));
                break;
            }
        }
    }
    // lru_file_path
    'lru: for b in if thorough { vec![0u64, 0x0123_4567_89ab_cdef] } else { vec![0u64] } {
        for i in 0..7 {
            let mut map: HashMap<PathBuf, u64> = HashMap::with_capacity(1 << 16);
            for v in 0..=0xffffu64 {
                let sh = 8 * (6 - i);
                let g = (b & !(0xffff << sh)) | (v << sh);
                evals += 1;
                if let Some(prev) = map.insert(lru_file_path(base, g), g) {
                    found.push((format!("fmt lru {prev}"), format!("fmt lru {g}")));
                    break 'lru;
                }
            }
        }
    }
    s.tally_n("search.fmt.evaluations", evals);
    add_search_evals(s, evals);
    for (a, b) in found {
        s.tally("search.fmt.found");
        emit(s, ctx, a);
        if !b.is_empty() { emit(s, ctx, b); }
    }
}

// ---------------------------------------------------------------- validators that look at a subset
/// Strings that satisfy a character-class validator (`v` = a long text it accepts, e.g. 32 hex
/// digits) on a PREFIX of k characters, on a SUFFIX, on both ends or on every other position, and
/// carry traversal / separator / NUL / absolute-path / non-ASCII material in the rest. `ups` = how
/// many ".." segments the traversal tails hold (the text may stand several fixed directory levels
/// below the root: the family must reach beyond them, see `Sandbox::deep`).
fn partial_valid_forms(v: &str, ks: &[usize], ups: &[usize]) -> Vec<String> {
    let mut out: Vec<String> = vec![];
    for &k in ks {
        let (head, tail) = (&v[..k], &v[v.len() - k..]);
        for &n in ups {
            let up = "../".repeat(n);
            out.push(format!("{head}/{up}escaped"));
            out.push(format!("{up}escaped/{tail}"));
            out.push(format!("{up}{tail}"));
            out.push(format!("{}/{up}escaped/{}", &head[..k.div_ceil(2)], &tail[k / 2..]));
        }
        for junk in ["\0", "/", "/.", "/..", "\\..\\..\\x", "/S/evil", "//S/evil", "%2f..%2f..%2fx", " ", "\n", ".index", "é", "\u{ff0e}\u{ff0e}\u{ff0f}x", ":", "?x=1", "#"] {
            out.push(format!("{head}{junk}"));
            out.push(format!("{junk}{tail}"));
        }
        out.push(format!("{head}/{tail}"));
    }
    // every other position
    let c: Vec<char> = v.chars().take(6).collect();
    for sep in ['/', '.', '\\', '\0'] {
        let alt: String = c.iter().flat_map(|x| [*x, sep]).collect();
        out.push(alt.clone());
        out.push(format!("{sep}{alt}"));
    }
    out.sort();
    out.dedup();
    out
}

// ---------------------------------------------------------------- integer fields of the typed keys
/// Typed-key argument lists that differ in ONE integer field (block index, page, version, start
/// offset, length) by one bit: v and v ^ 2^k around several bases, so that a field that is
/// narrowed (`as u32`, `as u16`, `as u8`), sign-converted, masked, or printed through a float
/// (2^53 / 2^53 + 1, MAX / MAX - 1) on its way into the key text puts two keys into one file.
/// `all`: every bit of every field (the text-level search); otherwise the stream subset
/// 2^8, 2^16, 2^31, 2^32, 2^63.
fn numeric_families(all: bool) -> Vec<(&'static str, Vec<String>)> {
    fn values(width: u32, all: bool) -> Vec<u64> {
        let max = if width == 64 { u64::MAX } else { (1u64 << width) - 1 };
        let mut bases: Vec<u64> = vec![0, 4096 & max];
        let ks: Vec<u32> = if all {
            bases.extend([1, 0x0123_4567_89ab_cdef & max, max, (1u64 << 53) & max]);
            (0..width).collect()
        } else {
            [4u32, 7, 8, 16, 31, 32, 63].into_iter().filter(|k| *k < width && (width > 8 || *k < 8) && (width == 8 || *k >= 8)).collect()
        };
        let mut v: Vec<u64> = vec![max, max - 1];
        for b in bases {
            v.push(b);
            for k in &ks { v.push(b ^ (1u64 << k)); }
        }
        v.sort_unstable();
        v.dedup();
        v
    }
    let h = "0017a402f556fbece46c38dc431a2c9b";
    let id = enc("data.001");
    let s = |x: &str| x.to_string();
    let mut out: Vec<(&'static str, Vec<String>)> = vec![];
    for v in values(32, all) {
        out.push(("blte", vec![s(h), v.to_string()]));
        out.push(("encoding", vec![s(h), v.to_string(), s("0")]));
        out.push(("encoding", vec![s(h), v.to_string(), s("1")]));
        out.push(("blteblock", vec![s(h), v.to_string(), s("0")]));
        out.push(("blteblock", vec![s(h), v.to_string(), s("1")]));
        out.push(("archive", vec![id.clone(), s("4096"), v.to_string()]));
    }
    out.push(("blte", vec![s(h), s("~")]));
    out.push(("encoding", vec![s(h), s("~"), s("0")]));
    out.push(("encoding", vec![s(h), s("~"), s("1")]));
    for v in values(8, all) {
        out.push(("root", vec![s(h), s("0"), v.to_string()]));
        out.push(("root", vec![s(h), s("1"), v.to_string()]));
    }
    out.push(("root", vec![s(h), s("0"), s("~")]));
    out.push(("root", vec![s(h), s("1"), s("~")]));
    for v in values(64, all) {
        out.push(("archive", vec![id.clone(), v.to_string(), s("16")]));
    }
    // the two numbers of one key: same digits, the '+' at every position
    for (a, b) in [(1u64, 234u64), (12, 34), (123, 4), (0, 1234), (1, 0), (10, 0), (0, 10)] {
        out.push(("archive", vec![id.clone(), a.to_string(), b.to_string()]));
    }
    out.sort();
    out.dedup();
    out
}

/// text-level search over `numeric_families(true)`: two different argument lists of one key type
/// with the same `as_cache_key` text are emitted as two ordinary `typed` lines (they share a file:
/// `collide-wf` names both keys)
fn numeric_search(s: &mut Session, ctx: &mut Ctx) {
    let sb0 = Sandbox::new(); // not used: the key text is computed without running anything
    let fam = numeric_families(true);
    let mut seen: HashMap<String, usize> = HashMap::new();
    let mut found: Vec<(usize, usize)> = vec![];
    let mut kinds: BTreeSet<&str> = BTreeSet::new();
    for (i, (kind, args)) in fam.iter().enumerate() {
        let Some(t) = typed_text(ctx, &sb0, kind, args) else { continue };
        if let Some(j) = seen.insert(t, i) {
            // one pair per key type
            if kinds.insert(kind) { found.push((j, i)); }
        }
    }
    s.tally_n("search.numeric.keys", fam.len() as u64);
    add_search_evals(s, fam.len() as u64);
    for (j, i) in found {
        s.tally("search.numeric.found");
        for k in [j, i] {
            emit(s, ctx, format!("typed flat {} {}", fam[k].0, fam[k].1.join(" ")));
        }
    }
}

fn wf_dotted(rng: &mut Rng) -> String {
    const N: &[&str] = &["data.000", "data.001", "data.tmp", "1.15.7", "1.15.8", "v2", "1", "1.tmp", "1.0", "a.b.c", "archive-01", "x.", ".x", "..", "."];
    rng.pick(N).to_string()
}
fn wf_endpoint(rng: &mut Rng) -> String {
    let n = rng.range(1, 4);
    (0..n).map(|_| wf_name(rng)).collect::<Vec<_>>().join("/")
}
fn hexkey(rng: &mut Rng) -> String {
    match rng.below(6) { 0 => "00".repeat(16), 1 => "ff".repeat(16), 2 => format!("{}01", "00".repeat(15)), _ => hex(&rng.bytes(16)) }
}
fn optnum(rng: &mut Rng, max: u64) -> String {
    match rng.below(4) { 0 => "~".into(), 1 => "0".into(), 2 => max.to_string(), _ => rng.below(max.min(100_000)).to_string() }
}
fn num(rng: &mut Rng, max: u64) -> String {
    match rng.below(4) { 0 => "0".into(), 1 => max.to_string(), 2 => "10".into(), _ => rng.below(max.min(1_000_000)).to_string() }
}

fn typed_line(rng: &mut Rng, layout: &str, hostile: bool) -> String {
    let st = |rng: &mut Rng, wf: fn(&mut Rng) -> String| if hostile && rng.chance(1, 2) { hostile_string(rng) } else { wf(rng) };
    let opt = |rng: &mut Rng, wf: fn(&mut Rng) -> String| if rng.chance(1, 3) { "~".to_string() } else { enc(&(if hostile && rng.chance(1, 2) { hostile_string(rng) } else { wf(rng) })) };
    match rng.below(10) {
        0 => format!("typed {layout} ribbit {} {} {}", enc(&st(rng, wf_endpoint)), enc(&st(rng, wf_name)), opt(rng, wf_name)),
        1 => format!("typed {layout} config {} {}", enc(&st(rng, wf_name)), enc(&st(rng, |r| hexkey(r)))),
        2 => format!("typed {layout} blte {} {}", hexkey(rng), optnum(rng, u32::MAX as u64)),
        3 => format!("typed {layout} content {}", hexkey(rng)),
        4 => format!("typed {layout} index {} {}", enc(&st(rng, wf_dotted)), enc(&st(rng, |r| hexkey(r)))),
        5 => format!("typed {layout} manifest {} {} {}", enc(&st(rng, wf_name)), hexkey(rng), opt(rng, wf_dotted)),
        6 => format!("typed {layout} root {} {} {}", hexkey(rng), rng.below(2), optnum(rng, 255)),
        7 => format!("typed {layout} encoding {} {} {}", hexkey(rng), optnum(rng, u32::MAX as u64), rng.below(2)),
        8 => format!("typed {layout} archive {} {} {}", enc(&st(rng, wf_dotted)), num(rng, u64::MAX), num(rng, u32::MAX as u64)),
        _ => format!("typed {layout} blteblock {} {} {}", hexkey(rng), num(rng, u32::MAX as u64), rng.below(2)),
    }
}

fn layouts(rng: &mut Rng) -> &'static str {
    *rng.pick(&["flat", "flat", "h1", "h2", "h3"])
}

fn cu_ok(path: &str) -> bool {
    !path.is_empty() && path.split('/').all(|g| !g.is_empty() && g.chars().all(|c| c.is_ascii_lowercase() || c.is_ascii_digit()))
}

fn main() {
    let args = Args::parse();
    quiet_panics();
    let mut s = Session::new(&args.out);
    s.rule = "every request runs the real API in a fresh scratch parent /S with root /S/d1/d2/cache; inputs: exhaustive raw keys over the segment alphabet {'..','.','','a','b.x'} up to 4 segments (relative, trailing '/', absolute under /S), seeded hostile strings (.., ., empty, absolute, 255/256-byte names, NUL, non-ASCII, ':' , '.tmp' endings), all ten typed keys with well-formed and hostile fields on flat and hashed layouts, each of the 18 public key constructors by name, assignments to public key fields after the text was read, format_cache_key, cold DiskCache::remove with planted files inside and outside, RangeDownloader::download_archive_content with archive names of every shape, segment file names, the index temporary name, ProtocolCache keys, query endpoints, CDN paths/hosts with content keys of every length 0..=32 through every CdnClient entry point, installation names, fixed-width formatters; for every string-taking API the hostile cores ('..', '../x' up to three levels, '/S/evil') behind / in front of / between 13 padding characters (blank, tab, NL, CR, VT, FF, NBSP, U+3000, U+2028, U+FEFF, U+200B, quotes) and re-spelled (back-slashes, padded segments, percent-encoding, full-width and two-dot-leader characters, trailing dots, upper case); well-formed typed keys in separator-shift families for '_' and '-' (same concatenation, every field boundary), joiner families over '_','-','/','.', case pairs and 64-byte names differing in one byte, plus random names glued from a small token pool; long names (65 / 119 / 241-byte endpoints, 180-byte values in every text field of every key type; well-formed = name characters and every component of the key text at most 251 bytes): one shared head with, at the end, the two-character tails that collide under acc*m+b for every multiplier m in 1..=74 (Aa/BB, Ab/BA, …) and the anagram pair, the usual ones also at the start and in the middle, and one differing byte at the end / start / middle, on flat and hashed layouts, through ProtocolCache and query as well (collide-wf-long-name); outside the request stream (O only, counted in extra.oracle_only_search_evaluations): all 3844 two-character alphanumeric tails and heads around a 239-byte head stored through one DiskCache and read back, the exhaustive two-adjacent-byte families of format_content_key_path (8 positions x 65536 x 2 bases) and lru_file_path, every u16 of segment_data_path, and - only when a well-formed key was stored under a file name that is not its text - about 48 000 same-length neighbours of that key (single bytes, two-character ends, random four-character tails); a pair found there is emitted as two ordinary request lines; fixed-width formatters also get the nibble re-split family (bytes below 0x10 next to each other at every position) under collide-fmt-ckpath / -lru / -seg; op cdnx = call sequences for one hash on one CDN path through one CdnClient (all ordered pairs of download config/data/patch, archive index, range, resume, progress; A;B;A; disk and memory cache; random sequences of 2..5) against a mock CDN that serves different bytes per URL; non-trivial = the call reached the file system or the URL/key builder (not unsafe-skip / n/a / bad-op); distinct = canonical request text".into();
    let rt = tokio::runtime::Builder::new_multi_thread().worker_threads(2).enable_all().build().expect("rt");
    let mut ctx = Ctx { rt, srv: start_server(), finals: HashMap::new(), temps: HashMap::new(), all_finals: HashMap::new(), ctor_texts: HashMap::new(), fmt_paths: HashMap::new(), respelled: None, respelled_count: 0, collisions: 0 };
    let mut rng = Rng::new(args.seed);

    if let Some(p) = &args.replay {
        for l in read_case(p) {
            let r = emit(&mut s, &mut ctx, l.clone());
            println!("impl  {l} -> {r}");
        }
        s.finish();
        return;
    }
    let thorough = args.thorough();

    // 1. exhaustive small raw keys
    let alpha = ["..", ".", "", "a", "b.x"];
    let mut keys: BTreeSet<String> = BTreeSet::new();
    let maxn = 4;
    let mut stack: Vec<Vec<&str>> = vec![vec![]];
    while let Some(v) = stack.pop() {
        let k = v.join("/");
        keys.insert(k.clone());
        if !v.is_empty() {
            keys.insert(format!("/S/{k}"));
        }
        if v.len() < maxn {
            for a in alpha {
                let mut w = v.clone();
                w.push(a);
                stack.push(w);
            }
        }
    }
    for k in &keys {
        emit(&mut s, &mut ctx, format!("raw flat {}", enc(k)));
        if thorough || rng.chance(1, 4) {
            emit(&mut s, &mut ctx, format!("raw {} {}", *rng.pick(&["h1", "h2", "h3"]), enc(k)));
        }
        if thorough || rng.chance(1, 3) {
            emit(&mut s, &mut ctx, format!("rget flat {}", enc(k)));
        }
        if thorough || rng.chance(1, 4) {
            emit(&mut s, &mut ctx, format!("tmp flat {}", enc(k)));
        }
    }
    // planted-file reads: the interesting targets
    for k in ["inside", "../../secret", "../../../d1/secret", "/S/d1/secret", "x/../../../secret", "./inside", "inside/", "../cache/inside", "..//..//secret", "a/../inside"] {
        for l in ["flat", "h2"] {
            emit(&mut s, &mut ctx, format!("rget {l} {}", enc(k)));
        }
    }
    // hostile cores behind padding and in other spellings (flat layout: the padded "/S/…" forms
    // are substituted textually, see Sandbox::real): put, ProtocolCache, cold get, cold remove
    {
        let forms = disguised(&mut rng, thorough, true, &["..", "../escaped"], &["../../secret", "../../../d1/secret"]);
        for (i, f) in forms.iter().enumerate() {
            if !thorough && i % 2 != (args.seed % 2) as usize { continue; }
            let op = match i % 5 { 0 | 1 => "raw flat", 2 => "rget flat", 3 => "rdel flat", _ => "pcache" };
            emit(&mut s, &mut ctx, format!("{op} {}", enc(f)));
        }
        for f in padded_forms("/S/d1/secret").iter().chain(padded_forms("../../secret").iter()) {
            emit(&mut s, &mut ctx, format!("rget flat {}", enc(f)));
            emit(&mut s, &mut ctx, format!("rdel flat {}", enc(f)));
        }
    }
    // 2. seeded hostile raw keys
    let n_raw = if thorough { 6000 } else { 700 };
    for _ in 0..n_raw {
        let k = hostile_string(&mut rng);
        let l = layouts(&mut rng);
        match rng.below(10) {
            0 | 1 => emit(&mut s, &mut ctx, format!("rget {l} {}", enc(&k))),
            2 | 3 => emit(&mut s, &mut ctx, format!("tmp {l} {}", enc(&k))),
            4 => emit(&mut s, &mut ctx, format!("pcache {}", enc(&k))),
            _ => emit(&mut s, &mut ctx, format!("raw {l} {}", enc(&k))),
        };
    }
    // 3. temp names of keys that differ after the last '.'
    let dotted = ["data.000", "data.001", "data.tmp", "data", "a.b.c", "a.b.d", "a.b", ".x", ".y", "x.", "x", "..x", "..y", "a.tmp", "a.x", "a", "a.tmp.tmp", "dir/a.1", "dir/a.2", "dir.1/a", "dir.2/a", "index:data.000:h", "index:data.001:h"];
    // the final file of "x.tmp" is on record before the temporary file of "x" is observed
    emit(&mut s, &mut ctx, format!("raw flat {}", enc("x.tmp")));
    emit(&mut s, &mut ctx, format!("raw h1 {}", enc("x.tmp")));
    for k in dotted {
        for l in ["flat", "h1"] {
            emit(&mut s, &mut ctx, format!("tmp {l} {}", enc(k)));
        }
    }
    for (a, b) in [("a.x", "a.tmp"), ("a.x", "a.y"), ("a", "a.tmp"), ("a", "b"), ("a.tmp", "a.x"), ("x.1", "x.2"), ("a", "a"), ("..", "a"), ("a.", "a.tmp"), (".x", ".tmp")] {
        emit(&mut s, &mut ctx, format!("seq {} {}", enc(a), enc(b)));
    }
    let n_seq = if thorough { 400 } else { 60 };
    for _ in 0..n_seq {
        let pool = ["a", "a.x", "a.y", "a.tmp", "b", "b.tmp", "b.1", "a.b.tmp", "a.b.c", "a.b", ".tmp", "x.", "..", ".", "é.tmp", "é.x", ""];
        let (a, b) = (*rng.pick(&pool), *rng.pick(&pool));
        emit(&mut s, &mut ctx, format!("seq {} {}", enc(a), enc(b)));
    }
    // 4. typed keys
    let n_typed = if thorough { 6000 } else { 900 };
    for i in 0..n_typed {
        let l = layouts(&mut rng);
        let line = typed_line(&mut rng, l, i % 3 == 0);
        emit(&mut s, &mut ctx, line);
    }
    // separator boundaries: well-formed field tuples that would print the same text if a
    // separator were dropped or misplaced
    {
        let z = "00".repeat(16);
        let fam: Vec<String> = vec![
            format!("config {} {}", enc("ab"), enc("c")), format!("config {} {}", enc("a"), enc("bc")),
            format!("ribbit {} {} {}", enc("x"), enc("us"), enc("wow")), format!("ribbit {} {} {}", enc("wx"), enc("us"), enc("wo")),
            format!("ribbit {} {} ~", enc("wow/x"), enc("us")), format!("ribbit {} {} ~", enc("x"), enc("uswow")),
            format!("ribbit {} {} ~", enc("wow"), enc("us")), format!("ribbit {} {} {}", enc("w"), enc("us"), enc("wo")),
            format!("index {} {}", enc("data.0"), enc("00")), format!("index {} {}", enc("data."), enc("000")),
            format!("archive {} 2 3", enc("a1")), format!("archive {} 12 3", enc("a")), format!("archive {} 1 23", enc("a")), format!("archive {} 12 3", enc("a.")),
            format!("manifest {} {z} {}", enc("root"), enc("v2")), format!("manifest {} {z} ~", enc("root")), format!("manifest {} {z} {}", enc("rootv"), enc("2")),
            format!("blte {z} 1"), format!("blte {z} 11"), format!("blte {z} ~"), format!("blteblock {z} 1 0"), format!("blteblock {z} 1 1"), format!("blteblock {z} 11 0"),
            format!("root {z} 0 1"), format!("root {z} 1 1"), format!("root {z} 0 11"), format!("root {z} 0 ~"), format!("root {z} 1 ~"),
            format!("encoding {z} 1 0"), format!("encoding {z} 1 1"), format!("encoding {z} 11 0"), format!("encoding {z} ~ 0"), format!("encoding {z} ~ 1"),
            format!("content {z}"),
        ];
        for f in fam {
            for l in ["flat", "h2"] {
                emit(&mut s, &mut ctx, format!("typed {l} {f}"));
            }
        }
    }
    // separator shift / joiner / case / length families (see collision_families)
    for f in collision_families() {
        for l in ["flat", "h2"] {
            emit(&mut s, &mut ctx, format!("typed {l} {f}"));
        }
    }
    // names of 65 .. 241 bytes (see long_name_families), also through ProtocolCache and query
    for f in long_name_families() {
        for l in ["flat", "h2"] {
            emit(&mut s, &mut ctx, format!("typed {l} {f}"));
        }
    }
    {
        let base = filler(200);
        for t in poly_tails(&[1, 31, 33, 37]) {
            let name = with_at(&base, 198, &t);
            emit(&mut s, &mut ctx, format!("pcache {}", enc(&format!("api/ribbit/v1/products/{name}"))));
            emit(&mut s, &mut ctx, format!("query {}", enc(&format!("v1/products/{name}"))));
        }
        for c in ["1", "2"] {
            for pos in [0, 199] {
                emit(&mut s, &mut ctx, format!("pcache {}", enc(&with_at(&base, pos, c))));
                emit(&mut s, &mut ctx, format!("query {}", enc(&with_at(&base, pos, c))));
            }
        }
    }
    // directed search on the real code (O only, no request lines unless a pair is found): behind
    // and in front of one long head every two-character alphanumeric tail / head (3844 keys each)
    // through one DiskCache; two keys that read each other's value are then emitted as `typed` lines
    {
        let base = filler(241);
        let two = |pos: usize| -> Vec<Vec<String>> {
            let mut v = vec![];
            for &c in ALNUM { for &d in ALNUM { v.push(vec![enc(&with_at(&base, pos, &format!("{}{}", c as char, d as char))), enc("us"), "~".to_string()]); } }
            v
        };
        if ctx.collisions == 0 { search_typed(&mut s, &mut ctx, "flat", "ribbit", &two(239), "tails2"); }
        if ctx.collisions == 0 { search_typed(&mut s, &mut ctx, "h2", "ribbit", &two(0), "heads2"); }
        if thorough && ctx.collisions == 0 { search_typed(&mut s, &mut ctx, "h2", "ribbit", &two(239), "tails2h"); }
        if thorough && ctx.collisions == 0 { search_typed(&mut s, &mut ctx, "flat", "ribbit", &two(120), "mid2"); }
    }
    // a well-formed key was stored under something else than its text and no fixed family found
    // two keys in one file: search around that key
    respelled_search(&mut s, &mut ctx, &mut rng, thorough);
    // hostile cores behind padding and in other spellings, in every text field
    {
        let forms = disguised(&mut rng, thorough, false, &["..", "../escaped"], &["/x"]);
        let z = "00".repeat(16);
        for (i, f) in forms.iter().enumerate() {
            if !thorough && i % 3 != (args.seed % 3) as usize { continue; }
            let l = layouts(&mut rng);
            let line = match i % 7 {
                0 => format!("typed {l} ribbit {} {} ~", enc(f), enc("us")),
                1 => format!("typed {l} ribbit {} {} {}", enc("versions"), enc(f), enc("wow")),
                2 => format!("typed {l} ribbit {} {} {}", enc("versions"), enc("us"), enc(f)),
                3 => format!("typed {l} config {} {}", enc(f), enc("ab")),
                4 => format!("typed {l} index {} {}", enc(f), enc("ab")),
                5 => format!("typed {l} manifest {} {z} {}", enc("root"), enc(f)),
                _ => format!("typed {l} archive {} 0 1", enc(f)),
            };
            emit(&mut s, &mut ctx, line);
        }
    }
    // the documented witnesses
    emit(&mut s, &mut ctx, format!("typed flat ribbit {} {} ~", enc("/../../../escaped"), enc("us")));
    emit(&mut s, &mut ctx, format!("typed flat manifest {} {} {}", enc("root"), "00".repeat(16), enc("1")));
    emit(&mut s, &mut ctx, format!("typed flat manifest {} {} {}", enc("root"), "00".repeat(16), enc("1.tmp")));
    // 5. query endpoints
    let mut eps: Vec<String> = vec!["v1/products/wow/versions", "v1/products/wow/cdns", "v1/summary", "wow/versions", "a", "a/b", "a//b", "a/./b", "a/../b", "../x", "../../../x", "v1/../../../x", "/x", "/../../../escaped", "a/", "a/.", "a/..", ".", "..", "...", "a..b", "..a", "a../b", ".hidden/x", "a b", "a?b", "a%2e%2e", "é", "中/x", "€", "a:b", "a\\..\\b", "", "x.tmp", "x.y"].into_iter().map(String::from).collect();
    eps.push("a".repeat(1000));
    eps.push("a".repeat(1001));
    eps.push(format!("{}/{}", "a".repeat(255), "b".repeat(255)));
    eps.push(format!("{}/x", "a".repeat(256)));
    eps.push("é".repeat(500));
    eps.push("é".repeat(501));
    eps.extend(disguised(&mut rng, thorough, false, &["../../../escaped"], &["v1/../../../x", "/x", "v1/products/../../x"]));
    let n_q = if thorough { 800 } else { 120 };
    for _ in 0..n_q {
        let e = if rng.chance(1, 3) { wf_endpoint(&mut rng) } else { hostile_string(&mut rng) };
        eps.push(e);
    }
    for e in eps {
        emit(&mut s, &mut ctx, format!("query {}", enc(&e)));
    }
    // 6a. (draws nothing from the random stream; in front of 6 so that an escape is the first
    // failure reported) validators that stand in front of a path-building site, satisfied on a subset of the
    // positions only (prefix / suffix / both ends / every other character) with traversal material
    // in the rest: the archive key of download_archive_index / get_index_size stands seven levels
    // below the cache directory, so these run in the deep sandbox with up to 11 ".." segments
    {
        let hex32 = "abcd0123456789ef0123456789abcdef";
        let ups: &[usize] = if thorough { &[1, 2, 3, 4, 5, 6, 7, 8, 9, 10, 11] } else { &[3, 6, 7, 8, 9, 10] };
        let ks: &[usize] = if thorough { &[1, 2, 3, 4, 5, 6, 8, 16, 32] } else { &[2, 4, 5, 8, 32] };
        let mut forms = partial_valid_forms(hex32, ks, ups);
        // the traversal tails first (an escape is reported before a merely accepted key)
        forms.sort_by_key(|f| !f.contains("../"));
        s.tally_n("gen.partial-valid.archive-key", forms.len() as u64);
        for (i, ak) in forms.iter().enumerate() {
            for (j, api) in ["indexd", "isized"].into_iter().enumerate() {
                // the CDN path: mostly the usual two levels, sometimes none / one / three
                let path = ["tpr/wow", "tpr/wow", "", "tpr", "tpr/configs/data"][(i + 2 * j) % 5];
                emit(&mut s, &mut ctx, format!("cdn {api} ~ @ {} {} cu=0", enc(path), enc(ak)));
            }
        }
        // the deep variants agree with the ordinary ones on well-formed keys
        for ak in ["abcd", hex32, "ABCDEF01"] {
            emit(&mut s, &mut ctx, format!("cdn indexd ~ @ {} {} cu=1", enc("tpr/wow"), enc(ak)));
            emit(&mut s, &mut ctx, format!("cdn isized ~ @ {} {} cu=1", enc("tpr/wow"), enc(ak)));
        }
        emit(&mut s, &mut ctx, format!("cdn indexd ~ @ {} {} cu=0", enc("tpr/wow"), enc(&format!("abcd/{}x", "../".repeat(13)))));
    }
    // 6. CDN: every key length 0..=32 through every entry point
    for len in 0..=32usize {
        let key = rng.bytes(len);
        for api in ["download", "resume", "progress", "size"] {
            if !thorough && len > 4 && len != 16 && len != 32 && api != "download" { continue; }
            let ct = *rng.pick(&["config", "data", "patch"]);
            emit(&mut s, &mut ctx, format!("cdn {api} ~ @ {} {ct} {} cu=1", enc("tpr/wow"), hex(&key)));
        }
        emit(&mut s, &mut ctx, format!("cdn range ~ @ {} data {} {} {}", enc("tpr/wow"), hex(&key), rng.below(1000), 1 + rng.below(1000)));
    }
    for (off, len) in [(0u64, 1u64), (0, 0), (5, 0), (u64::MAX, 1), (u64::MAX, 2), (u64::MAX - 1, 1), (1 << 63, 1 << 63), (10, u64::MAX), (100, 50)] {
        emit(&mut s, &mut ctx, format!("cdn range ~ @ {} data {} {off} {len}", enc("tpr/wow"), hex(&rng.bytes(16))));
    }
    let mut aks: Vec<String> = vec!["", "a", "ab", "abc", "abcd", "0123456789abcdef0123456789abcdef", "ABCDEF01", "../..", "....", "ab/../../x", "aé", "éé", "aéb", "abcé", "ab cd", "abcg", "/abc", "0000", "zzzz"].into_iter().map(String::from).collect();
    for _ in 0..(if thorough { 200 } else { 30 }) {
        let n = rng.range(0, 17) as usize;
        aks.push(if rng.chance(1, 2) { hex(&rng.bytes(n)).replace('-', "") } else { hostile_string(&mut rng) });
    }
    for c in ["abcd", "0123456789abcdef0123456789abcdef", "../..", "ab/../../x", "abcd/../../../x"] {
        for f in padded_forms(c).into_iter().chain(respelled_forms(c)) {
            if thorough || rng.chance(1, 4) { aks.push(f); }
        }
    }
    for ak in &aks {
        for api in ["index", "isize"] {
            emit(&mut s, &mut ctx, format!("cdn {api} ~ @ {} {} cu=1", enc("tpr/wow"), enc(ak)));
        }
    }
    let mut paths: Vec<String> = vec!["tpr/wow", "tpr/wow/", "tpr/wow///", "", "/", "/tpr/wow", "..", "../..", "../../..", "tpr/../../../x", "tpr//wow", "tpr/./wow", "a b", "tpr/wow?x=1", "tpr/wow#f", "é"].into_iter().map(String::from).collect();
    for _ in 0..(if thorough { 300 } else { 40 }) {
        paths.push(hostile_string(&mut rng));
    }
    // "cdn/" stands in front of the path: two levels leave the root
    paths.extend(disguised(&mut rng, thorough, false, &["../..", "../../escaped"], &["tpr/../../../x", "/x"]));
    for p in &paths {
        let key = rng.bytes(16);
        let cu = if cu_ok(p) { 1 } else { 0 };
        emit(&mut s, &mut ctx, format!("cdn download ~ @ {} data {} cu={cu}", enc(p), hex(&key)));
        if rng.chance(1, 2) {
            emit(&mut s, &mut ctx, format!("cdn index ~ @ {} {} cu={cu}", enc(p), enc(&hex(&key))));
        }
    }
    for h in ["", "a b", "[::1", "127.0.0.1:1", "127.0.0.1:1/../x", "x@127.0.0.1:1"] {
        emit(&mut s, &mut ctx, format!("cdn download {} {} {} data {} cu=0", enc("http"), enc(h), enc("tpr/wow"), hex(&rng.bytes(16))));
    }
    // 6b. one hash, one CDN path, one client: every ordered pair of entry points / content types
    // (the second call must fetch and return its own object), A;B;A for the caching ones, both
    // cache backings, random longer sequences
    {
        let calls = ["dl.config", "dl.data", "dl.patch", "index", "range.data.3.7", "range.patch.0.4", "resume.data.5", "progress.data", "progress.config"];
        let caching = ["dl.config", "dl.data", "dl.patch", "index"];
        let k16 = hex(&rng.bytes(16));
        let keys = [k16.clone(), "abcd".to_string(), hex(&rng.bytes(32)), "0000".to_string()];
        let tpr = enc("tpr/wow");
        for a in calls {
            for b in calls {
                emit(&mut s, &mut ctx, format!("cdnx disk {tpr} {k16} {a} {b}"));
            }
        }
        for a in caching {
            for b in caching {
                emit(&mut s, &mut ctx, format!("cdnx mem {tpr} {k16} {a} {b}"));
                emit(&mut s, &mut ctx, format!("cdnx disk {} {} {a} {b} {a}", enc(*rng.pick(&["tpr/configs/data", "a", "tpr/wow/data", "data"])), rng.pick(&keys)));
            }
        }
        for _ in 0..(if thorough { 300 } else { 30 }) {
            let n = rng.range(2, 5);
            let seq: Vec<&str> = (0..n).map(|_| if rng.chance(2, 3) { *rng.pick(&caching) } else { *rng.pick(&calls) }).collect();
            let path = *rng.pick(&["tpr/wow", "tpr/configs/data", "data", "tpr/wow/", "tpr//wow", "../x"]);
            let key = match rng.below(8) { 0 => "ab".to_string(), 1 => "-".to_string(), _ => rng.pick(&keys).clone() };
            emit(&mut s, &mut ctx, format!("cdnx {} {} {key} {}", *rng.pick(&["disk", "disk", "mem"]), enc(path), seq.join(" ")));
        }
    }
    // 7. installation names
    let mut names: Vec<String> = vec!["wow", "wow_classic", "a/b", "a/b/", "a//b", "a/./b", "./a", ".", "..", "../evil", "a/../b", "a/../../evil", "/S/evil", "/S", "", "data", "indices", "a/..", "...", "é", "x\0y", "-"].into_iter().map(String::from).collect();
    names.push("a".repeat(255));
    names.push("a".repeat(256));
    // names whose raw form has Normal components only and whose trimmed / re-spelled form is "..",
    // starts with "..", or is absolute
    names.extend(disguised(&mut rng, thorough, true, &["..", "../escaped"], &["a/../../evil", "."]));
    for _ in 0..(if thorough { 500 } else { 80 }) {
        names.push(hostile_string(&mut rng));
    }
    for n in names {
        use cascette_client_storage::{DATA_DIR, ECACHE_DIR, HARDLINK_DIR, INDICES_DIR, RESIDENCY_DIR};
        emit(&mut s, &mut ctx, format!("inst {} {DATA_DIR} {INDICES_DIR} {DATA_DIR},{INDICES_DIR},{RESIDENCY_DIR},{ECACHE_DIR},{HARDLINK_DIR}", enc(&n)));
    }
    // 8. fixed-width formatters
    for _ in 0..(if thorough { 600 } else { 100 }) {
        let k9 = match rng.below(4) { 0 => vec![0u8; 9], 1 => vec![0xff; 9], 2 => vec![0x2e; 9], _ => rng.bytes(9) };
        emit(&mut s, &mut ctx, format!("fmt ckpath {}", hex(&k9)));
        let g = match rng.below(5) { 0 => 0, 1 => u64::MAX, 2 => 1, 3 => 0x2e2e_2e2e_2f2f_2f2f, _ => rng.next() };
        emit(&mut s, &mut ctx, format!("fmt lru {g}"));
    }
    // nibble re-splits and zero-padding boundaries: bytes below 0x10 next to each other at every
    // position (01 23 / 12 03, 01 10 / 11 00, 0a bc / ab 0c, 00 01 / 00 10 / 01 00 / 10 00)
    {
        let pairs: [(u8, u8); 12] = [(0x01, 0x23), (0x12, 0x03), (0x01, 0x10), (0x11, 0x00), (0x0a, 0xbc), (0xab, 0x0c), (0x00, 0x01), (0x00, 0x10), (0x01, 0x00), (0x10, 0x00), (0x00, 0x00), (0x0f, 0xff)];
        for i in 0..8 {
            for (a, b) in pairs {
                let mut k = [0xabu8, 0xcd, 0x45, 0x67, 0x89, 0xab, 0xcd, 0xef, 0x76];
                k[i] = a;
                k[i + 1] = b;
                emit(&mut s, &mut ctx, format!("fmt ckpath {}", hex(&k)));
                if i < 7 {
                    let g = u64::from_be_bytes([k[0], k[1], k[2], k[3], k[4], k[5], k[6], k[7]]);
                    emit(&mut s, &mut ctx, format!("fmt lru {g}"));
                }
            }
        }
        for n in 0..18 {
            for v in [1u8, 0xf] {
                let mut k = [0u8; 9];
                k[n / 2] = if n % 2 == 0 { v << 4 } else { v };
                emit(&mut s, &mut ctx, format!("fmt ckpath {}", hex(&k)));
            }
        }
    }
    // exhaustive adjacent-byte families, O only (see fmt_searches)
    fmt_searches(&mut s, &mut ctx, thorough);
    for _ in 0..(if thorough { 64 } else { 24 }) {
        emit(&mut s, &mut ctx, format!("fmt idx {}", hexkey(&mut rng)));
    }
    // 9. every public constructor of key.rs by name (K: Model/KeysExt.Ctor; O: the readings of the
    // key text agree, well-formed calls never share a text)
    {
        let z = "00".repeat(16);
        let n_ctor = if thorough { 6000 } else { 1200 };
        for i in 0..n_ctor {
            let hostile = i % 3 == 0;
            let st = |rng: &mut Rng, wf: fn(&mut Rng) -> String| enc(&(if hostile && rng.chance(1, 2) { hostile_string(rng) } else { wf(rng) }));
            let line = match rng.below(18) {
                0 => format!("ctor RibbitKey::new {} {}", st(&mut rng, wf_endpoint), st(&mut rng, wf_name)),
                1 => format!("ctor RibbitKey::with_product {} {} {}", st(&mut rng, wf_endpoint), st(&mut rng, wf_name), st(&mut rng, wf_name)),
                2 => format!("ctor ConfigKey::new {} {}", st(&mut rng, wf_name), st(&mut rng, |r| hexkey(r))),
                3 => format!("ctor BlteKey::new {}", hexkey(&mut rng)),
                4 => format!("ctor BlteKey::with_block {} {}", hexkey(&mut rng), num(&mut rng, u32::MAX as u64)),
                5 => format!("ctor ContentCacheKey::new {}", hexkey(&mut rng)),
                6 => format!("ctor ArchiveIndexKey::new {} {}", st(&mut rng, wf_dotted), st(&mut rng, |r| hexkey(r))),
                7 => format!("ctor ManifestKey::new {} {}", st(&mut rng, wf_name), hexkey(&mut rng)),
                8 => format!("ctor ManifestKey::with_version {} {} {}", st(&mut rng, wf_name), hexkey(&mut rng), st(&mut rng, wf_dotted)),
                9 => format!("ctor RootFileKey::new_raw {}", hexkey(&mut rng)),
                10 => format!("ctor RootFileKey::new_parsed {}", hexkey(&mut rng)),
                11 => format!("ctor RootFileKey::with_version {} {} {}", hexkey(&mut rng), rng.below(2), num(&mut rng, 255)),
                12 => format!("ctor EncodingFileKey::new_raw {}", hexkey(&mut rng)),
                13 => format!("ctor EncodingFileKey::new_parsed {}", hexkey(&mut rng)),
                14 => format!("ctor EncodingFileKey::with_page {} {} {}", hexkey(&mut rng), num(&mut rng, u32::MAX as u64), rng.below(2)),
                15 => format!("ctor ArchiveRangeKey::new {} {} {}", st(&mut rng, wf_dotted), num(&mut rng, u64::MAX), num(&mut rng, u32::MAX as u64)),
                16 => format!("ctor BlteBlockKey::new_raw {} {}", hexkey(&mut rng), num(&mut rng, u32::MAX as u64)),
                _ => format!("ctor BlteBlockKey::new_decompressed {} {}", hexkey(&mut rng), num(&mut rng, u32::MAX as u64)),
            };
            emit(&mut s, &mut ctx, line);
        }
        // separator boundaries at constructor level (same hash everywhere, so only the constructor
        // and the small fields tell the texts apart) and the ':' witness
        let fam: Vec<String> = vec![
            format!("RibbitKey::new {} {}", enc("wow"), enc("us")), format!("RibbitKey::with_product {} {} {}", enc("w"), enc("us"), enc("wo")),
            format!("RibbitKey::with_product {} {} {}", enc("wow"), enc("us"), enc("wow")), format!("RibbitKey::new {} {}", enc("wow/wow"), enc("us")),
            format!("RibbitKey::new {} {}", enc("b:c"), enc("a")), format!("RibbitKey::with_product {} {} {}", enc("c"), enc("a"), enc("b")),
            format!("ConfigKey::new {} {}", enc("ab"), enc("c")), format!("ConfigKey::new {} {}", enc("a"), enc("bc")),
            format!("BlteKey::new {z}"), format!("BlteKey::with_block {z} 0"), format!("BlteKey::with_block {z} 1"), format!("BlteKey::with_block {z} 10"),
            format!("BlteBlockKey::new_raw {z} 0"), format!("BlteBlockKey::new_decompressed {z} 0"), format!("BlteBlockKey::new_raw {z} 10"),
            format!("ContentCacheKey::new {z}"),
            format!("ManifestKey::new {} {z}", enc("root")), format!("ManifestKey::with_version {} {z} {}", enc("root"), enc("1")), format!("ManifestKey::with_version {} {z} {}", enc("root"), enc("v1")),
            format!("RootFileKey::new_raw {z}"), format!("RootFileKey::new_parsed {z}"), format!("RootFileKey::with_version {z} 0 0"), format!("RootFileKey::with_version {z} 1 0"), format!("RootFileKey::with_version {z} 0 255"),
            format!("EncodingFileKey::new_raw {z}"), format!("EncodingFileKey::new_parsed {z}"), format!("EncodingFileKey::with_page {z} 0 0"), format!("EncodingFileKey::with_page {z} 0 1"), format!("EncodingFileKey::with_page {z} 4294967295 1"),
            format!("ArchiveIndexKey::new {} {}", enc("data.0"), enc("00")), format!("ArchiveIndexKey::new {} {}", enc("data."), enc("000")),
            format!("ArchiveRangeKey::new {} 1 23", enc("a")), format!("ArchiveRangeKey::new {} 12 3", enc("a")), format!("ArchiveRangeKey::new {} 18446744073709551615 4294967295", enc("a")),
        ];
        for f in fam {
            emit(&mut s, &mut ctx, format!("ctor {f}"));
        }
        // the memo behind as_cache_key vs assignments to the public fields
        for (a, b) in [(("a", "us"), ("a", "eu")), (("a", "us"), ("a", "us")), (("v1/x", "us"), ("v1/y", "us")), (("../x", "us"), ("x", "us"))] {
            emit(&mut s, &mut ctx, format!("stale ribbit {} {} {} {}", enc(a.0), enc(a.1), enc(b.0), enc(b.1)));
        }
        emit(&mut s, &mut ctx, format!("stale config {} {} {} {}", enc("buildconfig"), enc("aa"), enc("cdnconfig"), enc("aa")));
        emit(&mut s, &mut ctx, format!("stale config {} {} {} {}", enc("buildconfig"), enc("aa"), enc("buildconfig"), enc("aa")));
        emit(&mut s, &mut ctx, format!("stale blte {z} {} ~", "ff".repeat(16)));
        emit(&mut s, &mut ctx, format!("stale blte {z} {z} 3"));
        emit(&mut s, &mut ctx, format!("stale blte {z} {z} ~"));
        emit(&mut s, &mut ctx, format!("stale archive {} 0 1 {} 0 2", enc("data.000"), enc("data.000")));
        emit(&mut s, &mut ctx, format!("stale archive {} 5 1 {} 5 1", enc("data.000"), enc("data.000")));
        for _ in 0..(if thorough { 300 } else { 40 }) {
            let l = match rng.below(3) {
                0 => format!("stale ribbit {} {} {} {}", enc(&wf_endpoint(&mut rng)), enc(&wf_name(&mut rng)), enc(&wf_endpoint(&mut rng)), enc(&wf_name(&mut rng))),
                1 => format!("stale config {} {} {} {}", enc(&wf_name(&mut rng)), enc(&hexkey(&mut rng)), enc(&wf_name(&mut rng)), enc(&hexkey(&mut rng))),
                _ => format!("stale archive {} {} {} {} {} {}", enc(&wf_dotted(&mut rng)), num(&mut rng, u64::MAX), num(&mut rng, u32::MAX as u64), enc(&wf_dotted(&mut rng)), num(&mut rng, u64::MAX), num(&mut rng, u32::MAX as u64)),
            };
            emit(&mut s, &mut ctx, l);
        }
        // cascette_protocol::format_cache_key
        for (p, e) in [("ribbit", "v1/summary"), ("a:b", "c"), ("a", "b:c"), ("", ""), ("", ":"), ("é", "中"), ("..", ".."), ("/", "/")] {
            emit(&mut s, &mut ctx, format!("pkey {} {}", enc(p), enc(e)));
        }
        for _ in 0..(if thorough { 400 } else { 60 }) {
            let (p, e) = (hostile_string(&mut rng), hostile_string(&mut rng));
            emit(&mut s, &mut ctx, format!("pkey {} {}", enc(&p), enc(&e)));
        }
    }
    // 10. cold remove
    for k in ["inside", "../../secret", "../../../d1/secret", "/S/d1/secret", "x/../../../secret", "./inside", "inside/", "../cache/inside", "a/../inside", "", ".", "nothing", "/S/d1/d2/cache/inside"] {
        for l in ["flat", "h2"] {
            emit(&mut s, &mut ctx, format!("rdel {l} {}", enc(k)));
        }
    }
    for _ in 0..(if thorough { 1500 } else { 200 }) {
        let k = if rng.chance(1, 3) { (*rng.pick(&["inside", "../../secret", "secret", "../inside", "d1/secret", "..", "cache/inside"])).to_string() } else { hostile_string(&mut rng) };
        let k = if rng.chance(1, 4) { format!("{}/{k}", *rng.pick(&["..", ".", "a", "../..", "/S/d1", "/S/d1/d2/cache"])) } else { k };
        let l = layouts(&mut rng);
        emit(&mut s, &mut ctx, format!("rdel {l} {}", enc(&k)));
    }
    // 11. RangeDownloader::download_archive_content: archive names of every length 0..=8 and shape
    {
        let dead = enc("127.0.0.1:1");
        let mut names: Vec<String> = vec!["", "a", "ab", "abc", "abcd", "abcde", "0123456789abcdef0123456789abcdef", "ABCDEF01", "../..", "....", "ab/../../x", "aé", "éé", "aéb", "abcé", "ab cd", "abcg", "/abc", "0000", "zzzz", "ab/d", "abc/", "中中", "a中b"].into_iter().map(String::from).collect();
        for _ in 0..(if thorough { 200 } else { 40 }) {
            let n = rng.range(0, 17) as usize;
            names.push(if rng.chance(1, 2) { hex(&rng.bytes(n)).replace('-', "") } else { hostile_string(&mut rng) });
        }
        for c in ["abcd", "../..", "ab/../../x"] {
            for f in padded_forms(c).into_iter().chain(respelled_forms(c)) {
                if thorough || rng.chance(1, 4) { names.push(f); }
            }
        }
        for (i, n) in names.iter().enumerate() {
            let pp = match i % 3 { 0 => "~".to_string(), 1 => enc("wow"), _ => enc("tpr/configs/data") };
            let path = if i % 7 == 6 { hostile_string(&mut rng) } else { "tpr/wow".to_string() };
            let cu = if cu_ok(&path) { 1 } else { 0 };
            emit(&mut s, &mut ctx, format!("arange {dead} {} {pp} {} {} {} cu={cu}", enc(&path), enc(n), rng.below(1000), 1 + rng.below(1000)));
        }
    }
    // 12. segment file names, the index temporary file
    for i in [0u32, 1, 9, 10, 99, 100, 999, 1000, 1023, 9999, 10000, 65535] {
        emit(&mut s, &mut ctx, format!("fmt seg {i}"));
    }
    for _ in 0..(if thorough { 300 } else { 40 }) {
        emit(&mut s, &mut ctx, format!("fmt seg {}", rng.below(65536)));
    }
    for i in 0..(if thorough { 48 } else { 12 }) {
        let kind = ["stem.tmp", "name.tmp", "tmp", "name", "stem", "other.tmp"][i % 6];
        emit(&mut s, &mut ctx, format!("fmt idxtmp {} {kind}", hexkey(&mut rng)));
    }
    // 13. the endpoint of RibbitTactClient::query stands behind "api/ribbit/": segments that pass
    // validate_endpoint in front of (or behind) a ".." chain long enough to leave the root
    {
        let segs = ["v1", "products", "wow", "versions", "x"];
        let mut n_forms = 0u64;
        for j in 1..=segs.len() {
            let head = segs[..j].join("/");
            for n in [j + 2, j + 3, j + 5] {
                let up = "../".repeat(n);
                for ep in [format!("{head}/{up}escaped"), format!("{up}escaped/{head}"), format!("{head}/{up}escaped/{head}")] {
                    if !thorough && n == j + 5 && j % 2 == 0 { continue; }
                    emit(&mut s, &mut ctx, format!("queryd {}", enc(&ep)));
                    n_forms += 1;
                }
            }
        }
        s.tally_n("gen.partial-valid.endpoint", n_forms);
        for ep in ["v1/products/wow/versions", "v1/summary", "a/../b"] {
            emit(&mut s, &mut ctx, format!("queryd {}", enc(ep)));
        }
        emit(&mut s, &mut ctx, format!("queryd {}", enc(&format!("v1/{}x", "../".repeat(13)))));
    }
    // 14. integer fields of the typed keys: one-bit neighbours (2^8, 2^16, 2^31, 2^32, 2^63 in the
    // stream; every bit of every field in the text-level search)
    for (kind, args) in numeric_families(false) {
        emit(&mut s, &mut ctx, format!("typed flat {kind} {}", args.join(" ")));
    }
    numeric_search(&mut s, &mut ctx);
    // a few malformed requests
    for l in ["raw flat zz", "raw deep 61", "typed flat nokind 61", "cdn nope ~ @ 61 data 00 cu=1", "cdnx disk 61 0000", "cdnx tape 61 0000 index", "cdnx disk 61 0000 dl.nope", "cdnx disk 61 0000 range.data.1.0", "cdnx disk 61 0000 range.data.18446744073709551615.1", "cdnx disk 61 zz index", "hello", "fmt lru x", "ctor RibbitKey::nope 61", "ctor BlteKey::new zz", "stale nokind 61", "fmt seg 65536", "rdel deep 61", "arange 61 61 ~ 61 0 x cu=0"] {
        emit(&mut s, &mut ctx, l.to_string());
    }
    respelled_search(&mut s, &mut ctx, &mut rng, thorough);
    s.extra.insert("wf_keys_not_stored_under_their_text".into(), serde_json::json!(ctx.respelled_count));
    s.extra.insert("wf_final_files".into(), serde_json::json!(ctx.finals.len()));
    s.extra.insert("temp_names_observed".into(), serde_json::json!(ctx.temps.len()));
    s.finish();
}
