//! C19 — install / download / size manifest builders, tag bit masks and queries.
//! K: every request line is executed on the REAL builders / manifests (in-process) and on the Lean
//!    model (`drv_c19`); responses are diffed.  `read <hex>` feeds the bytes the real code
//!    serialised to the driver's independent MSB-first reader.
//! O: a reference set model (tag name -> BTreeSet of file indices, files as (size, priority))
//!    is advanced by the same lines; after every `build` and on every query the real code's
//!    answers are compared with it, and an independent walker over the serialised bytes checks
//!    the on-disk bit (7 - i%8 of byte i/8) of every file of every tag.
use cascette_crypto::{ContentKey, EncodingKey};
use cascette_formats::download::{
    DownloadError, DownloadManifest, DownloadManifestBuilder, PriorityCategory,
};
use cascette_formats::install::{
    InstallError, InstallHeader, InstallManifest, InstallManifestBuilder, TagType,
};
use cascette_formats::size::{SizeError, SizeManifest, SizeManifestBuilder};
use std::collections::BTreeSet;
use std::panic::AssertUnwindSafe;
use verif_harness::*;

const TAG_TYPES: [u16; 17] = [
    0x0001, 0x0002, 0x0003, 0x0004, 0x0005, 0x0010, 0x0020, 0x0040, 0x0080, 0x0100, 0x0200, 0x0400,
    0x0800, 0x1000, 0x2000, 0x4000, 0x8000,
];

fn ierr(e: &InstallError) -> String {
    match e {
        InstallError::FileIndexOutOfBounds(_) => "err:file-oob".into(),
        InstallError::TagNotFound(s) if s.starts_with("Too many") => "err:too-many".into(),
        InstallError::TagNotFound(_) => "err:tag-not-found".into(),
        InstallError::BitMaskSizeMismatch { .. } => "err:mask-size".into(),
        InstallError::UnsupportedVersion(_) => "err:version".into(),
        _ => "err:other".into(),
    }
}

fn derr(e: &DownloadError) -> String {
    match e {
        DownloadError::FileIndexOutOfBounds(_) => "err:file-oob",
        DownloadError::TagNotFound(_) => "err:tag-not-found",
        DownloadError::FileSizeTooLarge(_) => "err:size",
        DownloadError::ChecksumsNotEnabled => "err:cks-not-enabled",
        DownloadError::MissingChecksum => "err:missing-cks",
        DownloadError::FlagsNotEnabled => "err:flags-not-enabled",
        DownloadError::MissingFlags => "err:missing-flags",
        DownloadError::InvalidFlagSize(..) => "err:flag-size",
        DownloadError::FlagsNotSupportedInVersion(_) => "err:flags-version",
        DownloadError::BasePriorityNotSupportedInVersion(_) => "err:base-version",
        DownloadError::UnsupportedFlagSize(_) => "err:flag-size-unsupported",
        DownloadError::UnsupportedVersion(_) => "err:version",
        DownloadError::BitMaskSizeMismatch => "err:mask-size",
        DownloadError::EntryCountMismatch(..) | DownloadError::TagCountMismatch(..) => "err:too-many",
        _ => "err:other",
    }
    .into()
}

fn idx_list(v: &[usize]) -> String {
    if v.is_empty() { "-".into() } else { v.iter().map(|i| i.to_string()).collect::<Vec<_>>().join(",") }
}

fn join_or(v: Vec<String>) -> String {
    if v.is_empty() { "-".into() } else { v.join(" ") }
}

fn name_of(h: &str) -> Option<String> {
    String::from_utf8(unhex(h)?).ok()
}

fn names_of(h: &str) -> Option<Vec<String>> {
    if h == "none" {
        return Some(vec![]);
    }
    h.split(',').map(name_of).collect()
}


fn serr(e: &SizeError) -> String {
    match e {
        SizeError::UnsupportedVersion(_) => "err:version",
        SizeError::InvalidEKeySize(_) => "err:ekey",
        SizeError::InvalidEsizeWidth(_) => "err:width",
        SizeError::TotalSizeTooLarge(_) => "err:total-too-large",
        SizeError::TagCountMismatch { .. } => "err:tag-count",
        SizeError::EntryCountMismatch { .. } => "err:entry-count",
        SizeError::TruncatedData { .. } => "err:key-len",
        SizeError::EsizeTooLarge { .. } => "err:esize",
        SizeError::TotalSizeMismatch { .. } => "err:total",
        _ => "err:other",
    }
    .into()
}

/// UTF-8 well-formedness BY DEFINITION (decode each sequence from its lead byte, require 10xxxxxx
/// continuations, the shortest form, a scalar value: no surrogate, <= U+10FFFF). Shares nothing
/// with `core::str::from_utf8` nor with the model's table 3-7 automaton.
fn utf8_by_definition(b: &[u8]) -> bool {
    let mut i = 0;
    while i < b.len() {
        let l = b[i];
        let (len, min, init) = if l < 0x80 { (1, 0u32, u32::from(l)) }
            else if l & 0xE0 == 0xC0 { (2, 0x80, u32::from(l & 0x1F)) }
            else if l & 0xF0 == 0xE0 { (3, 0x800, u32::from(l & 0x0F)) }
            else if l & 0xF8 == 0xF0 { (4, 0x1_0000, u32::from(l & 0x07)) }
            else { return false };
        if i + len > b.len() { return false; }
        let mut cp = init;
        for k in 1..len {
            let c = b[i + k];
            if c & 0xC0 != 0x80 { return false; }
            cp = (cp << 6) | u32::from(c & 0x3F);
        }
        if cp < min || cp > 0x10_FFFF || (0xD800..=0xDFFF).contains(&cp) { return false; }
        i += len;
    }
    true
}

/// Independent walker: byte spans (start, len) of every NUL-terminated string (tag names, install
/// paths) of a serialised install / download / size manifest. None if the structure is incomplete.
fn raw_name_spans(b: &[u8]) -> Option<Vec<(usize, usize)>> {
    let be = |s: &[u8]| s.iter().fold(0usize, |a, &x| a * 256 + x as usize);
    let mut out = vec![];
    let cstr = |pos: usize| -> Option<usize> { b.get(pos..)?.iter().position(|&x| x == 0) };
    if b.len() >= 10 && &b[0..2] == b"IN" {
        let (tc, n) = (be(&b[4..6]), be(&b[6..10]));
        let v2 = b[2] >= 2;
        let mut pos = if v2 { 16 } else { 10 };
        for _ in 0..tc {
            let z = cstr(pos)?;
            out.push((pos, z));
            pos += z + 1 + 2 + n.div_ceil(8);
        }
        for _ in 0..n {
            let z = cstr(pos)?;
            out.push((pos, z));
            pos += z + 1 + 16 + 4 + usize::from(v2);
        }
        if pos > b.len() { return None; }
    } else if b.len() >= 11 && &b[0..2] == b"DL" {
        let (n, tc) = (be(&b[5..9]), be(&b[9..11]));
        let v = b[2];
        let fs = if v >= 2 { *b.get(11)? as usize } else { 0 };
        let mut pos = match v { 1 => 11, 2 => 12, _ => 16 };
        pos += n * (22 + if b[4] != 0 { 4 } else { 0 } + fs);
        for _ in 0..tc {
            let z = cstr(pos)?;
            out.push((pos, z));
            pos += z + 1 + 2 + n.div_ceil(8);
        }
        if pos > b.len() { return None; }
    } else if b.len() >= 15 && &b[0..2] == b"DS" {
        let (n, tc) = (be(&b[4..8]), be(&b[8..10]));
        let (mut pos, w) = if b[2] == 1 { (19, *b.get(18)? as usize) } else { (15, 4) };
        for _ in 0..tc {
            let z = cstr(pos)?;
            out.push((pos, z));
            pos += z + 1 + 2 + n.div_ceil(8);
        }
        pos += n * (b[3] as usize + w);
        if pos > b.len() { return None; }
    } else {
        return None;
    }
    Some(out)
}

/// result line of the REAL parser for `parse <hex>`
fn real_parse_line(b: &[u8]) -> String {
    let names = |v: Vec<&str>| if v.is_empty() { "-".to_string() } else { v.iter().map(|n| hex(n.as_bytes())).collect::<Vec<_>>().join(",") };
    if b.starts_with(b"IN") {
        match InstallManifest::parse(b) {
            Ok(m) => format!("ok tags={} entries={} names={}", m.tags.len(), m.entries.len(),
                names(m.tags.iter().map(|t| t.name.as_str()).chain(m.entries.iter().map(|e| e.path.as_str())).collect())),
            Err(_) => "err".into(),
        }
    } else if b.starts_with(b"DL") {
        match DownloadManifest::parse(b) {
            Ok(m) => format!("ok tags={} entries={} names={}", m.tags.len(), m.entries.len(), names(m.tags.iter().map(|t| t.name.as_str()).collect())),
            Err(_) => "err".into(),
        }
    } else if b.starts_with(b"DS") {
        match SizeManifest::parse(b) {
            Ok(m) => format!("ok tags={} entries={} names={} total={}", m.tags.len(), m.entries.len(), names(m.tags.iter().map(|t| t.name.as_str()).collect()), m.header.total_size()),
            Err(_) => "err".into(),
        }
    } else {
        "err".into()
    }
}

// ---------------------------------------------------------------- reference set model (oracle)

#[derive(Clone)]
struct RefTag {
    name: String,
    set: BTreeSet<usize>,
}

/// one file of the reference: what the program said about it
#[derive(Clone, Default, PartialEq, Debug)]
struct RefFile {
    size: u64,
    prio: i8,
    key: Vec<u8>,
    path: Vec<u8>,          // install only
    cks: Option<u32>,       // download: set_file_checksum
    flags: Option<Vec<u8>>, // download: zeros of the flag size at add_file, then set_file_flags
    ftype: Option<u8>,      // install V2 file-type byte
}

#[derive(Clone, Default)]
struct RefModel {
    files: Vec<RefFile>,
    tags: Vec<RefTag>,
    dup: bool, // a second add_tag of a live name happened: tag names no longer identify tags
    version: u8,
    base: i8,
    has_cks: bool,               // download: with_checksums
    flag_size: u8,               // download: with_flags (accepted)
    iv2: Option<(u8, u32, u8)>,  // install: V2 extension fields (content_key_size, entry_count_v2, unknown) of the source header
}

impl RefModel {
    fn tag(&self, name: &str) -> Option<&RefTag> {
        self.tags.iter().find(|t| t.name == name)
    }
    fn tag_mut(&mut self, name: &str) -> Option<&mut RefTag> {
        self.tags.iter_mut().find(|t| t.name == name)
    }
    fn add_tag(&mut self, name: &str) {
        if self.tag(name).is_some() {
            self.dup = true;
        } else {
            self.tags.push(RefTag { name: name.into(), set: BTreeSet::new() });
        }
    }
    /// expected result class of associate / dissociate
    fn expect_assoc(&self, i: usize, name: &str) -> &'static str {
        if i >= self.files.len() {
            "err:file-oob"
        } else if self.tag(name).is_none() {
            "err:tag-not-found"
        } else {
            "ok"
        }
    }
    fn remove_file(&mut self, k: usize) {
        self.files.remove(k);
        for t in &mut self.tags {
            t.set = t.set.iter().filter(|&&j| j != k).map(|&j| if j > k { j - 1 } else { j }).collect();
        }
    }
    fn all_of(&self, names: &[String]) -> Option<Vec<usize>> {
        let mut sets = vec![];
        for n in names {
            sets.push(&self.tag(n)?.set);
        }
        Some((0..self.files.len()).filter(|i| sets.iter().all(|s| s.contains(i))).collect())
    }
    fn any_of(&self, names: &[String]) -> Vec<usize> {
        let sets: Vec<_> = names.iter().filter_map(|n| self.tag(n)).map(|t| &t.set).collect();
        (0..self.files.len()).filter(|i| sets.iter().any(|s| s.contains(i))).collect()
    }
    /// download: does every entry agree with the configured checksum switch and flag size?
    /// (then `build` must succeed, else it must be refused)
    fn download_build_ok(&self) -> bool {
        let fs = if self.version >= 2 { self.flag_size as usize } else { 0 };
        self.files.iter().all(|f| f.cks.is_some() == self.has_cks && match &f.flags { None => fs == 0, Some(x) => fs > 0 && x.len() == fs })
    }
    fn eff(&self, p: i8) -> i8 {
        if self.version == 3 {
            (i16::from(p) - i16::from(self.base)).clamp(-128, 127) as i8
        } else {
            p
        }
    }
}

/// Independent walker over serialised manifest bytes: (name, type, file indices) per tag, reading
/// file i as bit (7 - i%8) of mask byte i/8. Shares nothing with the crate's parser.
fn raw_tags(b: &[u8]) -> Option<Vec<(Vec<u8>, u16, Vec<usize>)>> {
    let be = |s: &[u8]| s.iter().fold(0usize, |a, &x| a * 256 + x as usize);
    let (n, tag_count, mut pos, tags_first, esz);
    if b.len() >= 10 && &b[0..2] == b"IN" {
        tag_count = be(&b[4..6]);
        n = be(&b[6..10]);
        pos = if b[2] >= 2 { 16 } else { 10 };
        tags_first = true;
        esz = 0;
    } else if b.len() >= 11 && &b[0..2] == b"DL" {
        n = be(&b[5..9]);
        tag_count = be(&b[9..11]);
        let v = b[2];
        let fs = if v >= 2 { *b.get(11)? as usize } else { 0 };
        pos = match v { 1 => 11, 2 => 12, _ => 16 };
        esz = 22 + if b[4] != 0 { 4 } else { 0 } + fs;
        tags_first = false;
    } else {
        return None;
    }
    if !tags_first {
        pos += n * esz;
    }
    let msz = n.div_ceil(8);
    let mut out = vec![];
    for _ in 0..tag_count {
        let z = b.get(pos..)?.iter().position(|&x| x == 0)?;
        let name = b[pos..pos + z].to_vec();
        pos += z + 1;
        let typ = be(b.get(pos..pos + 2)?) as u16;
        pos += 2;
        let mask = b.get(pos..pos + msz)?;
        pos += msz;
        let files = (0..n).filter(|i| (mask[i / 8] >> (7 - i % 8)) & 1 == 1).collect();
        out.push((name, typ, files));
    }
    Some(out)
}

// ---------------------------------------------------------------- execution context

#[derive(Clone)]
enum SizeOp {
    Tag(String, TagType),
    TagFile(usize, usize),
    Entry,
    EntryKv(Vec<u8>, u64),
    Version(u8),
    Ekey(u8),
    TagCount(u16),
    Esize(u8),
}

#[derive(Default)]
struct Ctx {
    mode: u8,
    ib: Option<InstallManifestBuilder>,
    db: Option<DownloadManifestBuilder>,
    /// reference of the manifest VALUE produced by the last successful build (what `frommanifest` loads)
    rf_built: Option<RefModel>,
    /// bytes of the manifest a builder was loaded from, while no editing call was made since
    fm_bytes: Option<Vec<u8>>,
    size_ops: Vec<SizeOp>,
    im: Option<InstallManifest>,
    dm: Option<DownloadManifest>,
    sm: Option<SizeManifest>,
    bytes: Vec<u8>,
    rf: RefModel,
    lines: Vec<String>,
    built_ok: bool,
}


/// reference view of a size-builder program (oracle)
struct SizeRef {
    want: Vec<BTreeSet<usize>>,
    esizes: Vec<u64>,
    key_lens: Vec<usize>,
    version: u8,
    ekey: u8,
    tag_count: u16,
    width: u8,
}

impl SizeRef {
    fn of(ops: &[SizeOp]) -> Self {
        let mut r = SizeRef { want: vec![], esizes: vec![], key_lens: vec![], version: 2, ekey: 9, tag_count: 0, width: 4 };
        for op in ops {
            match op {
                SizeOp::Tag(..) => r.want.push(BTreeSet::new()),
                SizeOp::TagFile(t, f) => { r.want[*t].insert(*f); }
                SizeOp::Entry => { r.key_lens.push(9); r.esizes.push(3 * (r.esizes.len() as u64 + 1)); }
                SizeOp::EntryKv(k, e) => { r.key_lens.push(k.len()); r.esizes.push(*e); }
                SizeOp::Version(v) => r.version = *v,
                SizeOp::Ekey(v) => r.ekey = *v,
                SizeOp::TagCount(v) => r.tag_count = *v,
                SizeOp::Esize(v) => r.width = *v,
            }
        }
        r
    }
    /// does every documented requirement hold? (then build must succeed, else it must fail)
    fn expect_ok(&self) -> bool {
        let w = if self.version == 1 { self.width } else { 4 };
        let total: u128 = self.esizes.iter().map(|&e| u128::from(e)).sum();
        (self.version == 1 || self.version == 2)
            && (1..=16).contains(&self.ekey)
            && (self.version == 2 || (1..=8).contains(&self.width))
            && (if self.want.is_empty() { self.tag_count == 0 } else { self.want.len() < 65536 })
            && self.key_lens.iter().all(|&l| l == self.ekey as usize)
            && self.esizes.iter().all(|&e| w >= 8 || e >> (8 * u32::from(w)) == 0)
            && total <= u128::from(u64::MAX)
            && (self.version == 1 || total <= 0xFF_FFFF_FFFF)
    }
}

fn size_builder(ops: &[SizeOp]) -> SizeManifestBuilder {
    let mut b = SizeManifestBuilder::new();
    let mut k = 0u32;
    for op in ops {
        b = match op {
            SizeOp::Tag(n, t) => b.add_tag(n.clone(), *t),
            SizeOp::TagFile(t, f) => b.tag_file(*t, *f),
            SizeOp::Entry => {
                k += 1;
                let mut key = vec![0u8; 9];
                key[5..9].copy_from_slice(&k.to_be_bytes());
                b.add_entry(key, u64::from(k) * 3)
            }
            SizeOp::EntryKv(key, e) => {
                k += 1;
                b.add_entry(key.clone(), *e)
            }
            SizeOp::Version(v) => b.version(*v),
            SizeOp::Ekey(v) => b.ekey_size(*v),
            SizeOp::TagCount(v) => b.tag_count(*v),
            SizeOp::Esize(v) => b.esize_bytes(*v),
        };
    }
    b
}

fn fail(s: &mut Session, c: &Ctx, sig: &str, msg: String) {
    // once a live tag name was added twice, names no longer identify tags: every check that goes
    // through a name is reported under the one recorded signature; checks that do not depend on
    // tag identity keep their own.
    const KEEP: [&str; 23] = ["mask-len", "reparse", "u40", "prio-roundtrip", "prio-filter", "file-size", "header", "mask-combine", "file-count", "build-fails",
        "size-total", "size-entries", "size-build-fails", "size-build-accepts", "utf8-accept", "utf8-reject", "utf8-def", "size-tag-set", "size-total-u64-wrap",
        "file-attrs", "prio-eff", "frommanifest-identity", "build-accepts"];
    const _: () = ();
    let sig = if c.rf.dup && !KEEP.contains(&sig) { "tag-set-dupname" } else { sig };
    s.oracle_fail(sig, &msg, &c.lines);
}

/// `from_manifest` + `build` with no editing call in between must serialise to the source bytes
fn identity_diff(src: &[u8], got: &[u8]) -> Option<String> {
    if src == got {
        return None;
    }
    let off = src.iter().zip(got).position(|(a, b)| a != b).unwrap_or(src.len().min(got.len()));
    Some(format!("from_manifest + build without any edit does not reproduce the source manifest: {} bytes -> {} bytes, first difference at byte {off} ({} -> {})",
        src.len(), got.len(), src.get(off).map_or("end".to_string(), |b| format!("{b:02x}")), got.get(off).map_or("end".to_string(), |b| format!("{b:02x}"))))
}

fn mask_line(name: &str, typ: u16, mask: &[u8]) -> String {
    format!("{}:{}:{}", hex(name.as_bytes()), typ, hex(mask))
}

fn tag_lines(tags: &[cascette_formats::install::InstallTag], n: usize) -> String {
    join_or(tags.iter().map(|t| format!("{}:{}:{}", hex(t.name.as_bytes()), t.tag_type as u16, idx_list(&t.get_files(n)))).collect())
}

/// whole-manifest oracle after a successful build + re-parse
fn oracle_manifest(s: &mut Session, c: &Ctx, tags: &[cascette_formats::install::InstallTag], n: usize) {
    let rf = &c.rf;
    if n != rf.files.len() {
        fail(s, c, "file-count", format!("manifest has {n} entries, reference {}", rf.files.len()));
        return;
    }
    // mask length
    for t in tags {
        if t.bit_mask.len() != n.div_ceil(8) {
            fail(s, c, "mask-len", format!("tag {:?}: mask {} bytes for {n} files", t.name, t.bit_mask.len()));
        }
    }
    if !rf.dup && tags.len() != rf.tags.len() {
        fail(s, c, "tag-count", format!("manifest has {} tags, reference {}", tags.len(), rf.tags.len()));
        return;
    }
    // per tag name: first tag of that name in the manifest (what every by-name query uses)
    for rt in &rf.tags {
        match tags.iter().find(|t| t.name == rt.name) {
            None => fail(s, c, "tag-set", format!("tag {:?} missing from the manifest", rt.name)),
            Some(t) => {
                let got: Vec<usize> = (0..n).filter(|&i| t.has_file(i)).collect();
                let want: Vec<usize> = rt.set.iter().copied().collect();
                if got != want {
                    fail(s, c, "tag-set", format!("tag {:?} reports files {} but {} were associated (n={n})", rt.name, idx_list(&got), idx_list(&want)));
                }
            }
        }
    }
    // independent reader of the bytes: MSB-first on disk
    match raw_tags(&c.bytes) {
        None => fail(s, c, "msb-bit", "independent reader cannot walk the serialised manifest".into()),
        Some(raw) => {
            if raw.len() != tags.len() {
                fail(s, c, "msb-bit", format!("independent reader sees {} tags, manifest has {}", raw.len(), tags.len()));
            }
            for rt in &rf.tags {
                if let Some((_, _, files)) = raw.iter().find(|(nm, _, _)| nm == rt.name.as_bytes()) {
                    let want: Vec<usize> = rt.set.iter().copied().collect();
                    if *files != want {
                        fail(s, c, "msb-bit", format!("on-disk bits (MSB first) of tag {:?} give files {} but {} were associated (n={n})", rt.name, idx_list(files), idx_list(&want)));
                    }
                }
            }
        }
    }
}

fn exec(s: &mut Session, c: &mut Ctx, line: &str) -> String {
    let toks: Vec<&str> = line.split(' ').filter(|t| !t.is_empty()).collect();
    if toks.first() == Some(&"begin") {
        *c = Ctx::default();
    }
    c.lines.push(line.to_string());
    if matches!(toks.first(), Some(&("tag" | "file" | "dfile" | "assoc" | "dissoc" | "associdx" | "rmfile" | "rmtag" | "cks" | "flags" | "base" | "setcks" | "setflags"))) {
        c.fm_bytes = None;
    }
    s.tally(&format!("op.{}", if toks.first() == Some(&"q") && toks.len() > 1 { format!("q.{}", toks[1]) } else { toks.first().unwrap_or(&"").to_string() }));
    let r = exec_inner(s, c, &toks);
    r.unwrap_or_else(|| "bad-op".into())
}

fn exec_inner(s: &mut Session, c: &mut Ctx, toks: &[&str]) -> Option<String> {
    let r: String = match toks {
        ["begin", "install"] => {
            c.mode = 1;
            c.ib = Some(InstallManifestBuilder::new());
            c.rf.version = 1;
            "ok".into()
        }
        ["begin", "download", v] => {
            let v: u64 = v.parse().ok()?;
            c.mode = 2;
            match u8::try_from(v).map_err(|_| DownloadError::UnsupportedVersion(0)).and_then(DownloadManifestBuilder::new) {
                Ok(b) => {
                    c.db = Some(b);
                    c.rf.version = v as u8;
                    "ok".into()
                }
                Err(e) => derr(&e),
            }
        }
        ["begin", "size"] => {
            c.mode = 3;
            "ok".into()
        }
        ["cks", v] => {
            let v: u64 = v.parse().ok()?;
            match c.db.take() {
                Some(b) => {
                    c.db = Some(b.with_checksums(v != 0));
                    c.rf.has_cks = v != 0;
                    "ok".into()
                }
                None => "no-builder".into(),
            }
        }
        ["flags", v] => {
            let v: u64 = v.parse().ok()?;
            match c.db.clone() {
                Some(b) => match u8::try_from(v).map_err(|_| DownloadError::UnsupportedFlagSize(255)).and_then(|v| b.with_flags(v)) {
                    Ok(b) => {
                        c.db = Some(b);
                        c.rf.flag_size = v as u8;
                        "ok".into()
                    }
                    Err(e) => derr(&e),
                },
                None => "no-builder".into(),
            }
        }
        ["base", v] => {
            let v: i8 = v.parse().ok()?;
            match c.db.clone() {
                Some(b) => match b.with_base_priority(v) {
                    Ok(b) => {
                        c.db = Some(b);
                        c.rf.base = v;
                        "ok".into()
                    }
                    Err(e) => derr(&e),
                },
                None => "no-builder".into(),
            }
        }
        ["tag", name, typ] => {
            let name = name_of(name)?;
            let typ: u16 = typ.parse().ok()?;
            let tt = TagType::from_u16(typ)?;
            match c.mode {
                1 => {
                    let b = c.ib.take()?;
                    c.ib = Some(b.add_tag(name.clone(), tt));
                    c.rf.add_tag(&name);
                    "ok".into()
                }
                2 => match c.db.take() {
                    Some(b) => {
                        c.db = Some(b.add_tag(name.clone(), tt));
                        c.rf.add_tag(&name);
                        "ok".into()
                    }
                    None => "no-builder".into(),
                },
                3 => {
                    c.size_ops.push(SizeOp::Tag(name, tt));
                    "ok".into()
                }
                _ => return None,
            }
        }
        ["file", path, key, size] => {
            let path = name_of(path)?;
            let key: [u8; 16] = unhex(key)?.try_into().ok()?;
            let size: u32 = size.parse().ok()?;
            if c.mode != 1 {
                return None;
            }
            let b = c.ib.take()?;
            c.rf.files.push(RefFile { size: u64::from(size), key: key.to_vec(), path: path.as_bytes().to_vec(), ..RefFile::default() });
            c.ib = Some(b.add_file(path, ContentKey::from_bytes(key), size));
            "ok".into()
        }
        ["dfile", key, size, prio] => {
            let key: [u8; 16] = unhex(key)?.try_into().ok()?;
            let size: u64 = size.parse().ok()?;
            let prio: i8 = prio.parse().ok()?;
            match c.db.clone() {
                Some(b) => match b.add_file(EncodingKey::from_bytes(key), size, prio) {
                    Ok(b) => {
                        c.db = Some(b);
                        if size > 0xFF_FFFF_FFFF {
                            fail(s, c, "u40", format!("size {size} > 2^40-1 accepted"));
                        }
                        let flags = if c.rf.flag_size > 0 { Some(vec![0u8; c.rf.flag_size as usize]) } else { None };
                        c.rf.files.push(RefFile { size, prio, key: key.to_vec(), flags, ..RefFile::default() });
                        "ok".into()
                    }
                    Err(e) => {
                        if size <= 0xFF_FFFF_FFFF {
                            fail(s, c, "u40", format!("size {size} <= 2^40-1 rejected"));
                        }
                        derr(&e)
                    }
                },
                None => "no-builder".into(),
            }
        }
        ["setcks", i, v] => {
            let i: usize = i.parse().ok()?;
            let v: u32 = v.parse().ok()?;
            match c.db.clone() {
                Some(b) => match b.set_file_checksum(i, v) {
                    Ok(b) => {
                        c.db = Some(b);
                        if let Some(f) = c.rf.files.get_mut(i) { f.cks = Some(v); }
                        "ok".into()
                    }
                    Err(e) => derr(&e),
                },
                None => "no-builder".into(),
            }
        }
        ["setflags", i, f] => {
            let i: usize = i.parse().ok()?;
            let f = unhex(f)?;
            match c.db.clone() {
                Some(b) => match b.set_file_flags(i, f.clone()) {
                    Ok(b) => {
                        c.db = Some(b);
                        if let Some(rfile) = c.rf.files.get_mut(i) { rfile.flags = Some(f); }
                        "ok".into()
                    }
                    Err(e) => derr(&e),
                },
                None => "no-builder".into(),
            }
        }
        [op @ ("assoc" | "dissoc"), i, name] => {
            let i: usize = i.parse().ok()?;
            let name = name_of(name)?;
            let add = *op == "assoc";
            let r = match c.mode {
                1 => {
                    let b = c.ib.as_ref()?.snapshot();
                    let r = catch(AssertUnwindSafe(|| if add { b.associate_file_with_tag(i, &name) } else { b.remove_file_from_tag(i, &name) }));
                    match r {
                        Ok(Ok(b)) => {
                            c.ib = Some(b);
                            "ok".to_string()
                        }
                        Ok(Err(e)) => ierr(&e),
                        Err(_) => "panic".into(),
                    }
                }
                _ => match c.db.clone() {
                    Some(b) => {
                        let r = catch(AssertUnwindSafe(|| if add { b.associate_file_with_tag(i, &name) } else { b.disassociate_file_from_tag(i, &name) }));
                        match r {
                            Ok(Ok(b)) => {
                                c.db = Some(b);
                                "ok".to_string()
                            }
                            Ok(Err(e)) => derr(&e),
                            Err(_) => "panic".into(),
                        }
                    }
                    None => return Some("no-builder".into()),
                },
            };
            let want = c.rf.expect_assoc(i, &name);
            if r != want {
                fail(s, c, "op-result", format!("{op} {i} {name:?}: builder answered {r}, expected {want}"));
            }
            if want == "ok" {
                if let Some(t) = c.rf.tag_mut(&name) {
                    if add { t.set.insert(i); } else { t.set.remove(&i); }
                }
            }
            r
        }
        ["associdx", i, ti] => {
            let i: usize = i.parse().ok()?;
            let ti: usize = ti.parse().ok()?;
            if c.mode != 1 {
                return None;
            }
            let b = c.ib.as_ref()?.snapshot();
            match b.associate_file_with_tag_by_index(i, ti) {
                Ok(b) => {
                    c.ib = Some(b);
                    // by-index association: the reference is keyed by position while names are unique
                    if !c.rf.dup {
                        if let Some(t) = c.rf.tags.get_mut(ti) { t.set.insert(i); }
                    }
                    "ok".into()
                }
                Err(e) => ierr(&e),
            }
        }
        ["rmfile", k] => {
            let k: usize = k.parse().ok()?;
            let n = c.rf.files.len();
            let r = match c.mode {
                1 => {
                    let b = c.ib.as_ref()?.snapshot();
                    match catch(AssertUnwindSafe(|| b.remove_file(k))) {
                        Ok(Ok(b)) => {
                            c.ib = Some(b);
                            "ok".to_string()
                        }
                        Ok(Err(e)) => ierr(&e),
                        Err(_) => "panic".into(),
                    }
                }
                _ => match c.db.clone() {
                    Some(mut b) => match catch(AssertUnwindSafe(|| { let r = b.remove_file(k); (b, r) })) {
                        Ok((b, r)) => {
                            c.db = Some(b);
                            if r { "ok".to_string() } else { "no".into() }
                        }
                        Err(_) => "panic".into(),
                    },
                    None => return Some("no-builder".into()),
                },
            };
            let want_ok = k < n;
            if (r == "ok") != want_ok {
                fail(s, c, "op-result", format!("rmfile {k} with {n} files answered {r}"));
            }
            if want_ok {
                c.rf.remove_file(k);
            }
            r
        }
        ["rmtag", name] => {
            let name = name_of(name)?;
            let r = match c.mode {
                1 => {
                    let b = c.ib.as_ref()?.snapshot();
                    match catch(AssertUnwindSafe(|| b.remove_tag(&name))) {
                        Ok(Ok(b)) => {
                            c.ib = Some(b);
                            "ok".to_string()
                        }
                        Ok(Err(e)) => ierr(&e),
                        Err(_) => "panic".into(),
                    }
                }
                _ => match c.db.clone() {
                    Some(mut b) => match catch(AssertUnwindSafe(|| { let r = b.remove_tag(&name); (b, r) })) {
                        Ok((b, r)) => {
                            c.db = Some(b);
                            if r { "ok".to_string() } else { "no".into() }
                        }
                        Err(_) => "panic".into(),
                    },
                    None => return Some("no-builder".into()),
                },
            };
            let want_ok = c.rf.tag(&name).is_some();
            if (r == "ok") != want_ok {
                fail(s, c, "op-result", format!("rmtag {name:?} answered {r}, tag present in reference: {want_ok}"));
            }
            if r == "ok" {
                if let Some(p) = c.rf.tags.iter().position(|t| t.name == name) {
                    c.rf.tags.remove(p);
                }
            }
            r
        }
        ["masks"] => {
            let (n, tags) = match c.mode {
                1 => match c.ib.as_ref()?.snapshot().build() {
                    Ok(m) => (m.entries.len(), m.tags),
                    Err(e) => {
                        let r = ierr(&e);
                        if r == "err:mask-size" {
                            fail(s, c, "mask-len", "builder state fails validate(): a tag mask is not ceil(n/8) bytes".into());
                        }
                        return Some(r);
                    }
                },
                2 => match c.db.clone() {
                    Some(b) => match b.build() {
                        Ok(m) => (m.entries.len(), m.tags),
                        Err(e) => {
                            let r = derr(&e);
                            if r == "err:mask-size" {
                                fail(s, c, "mask-len", "builder state fails validate(): a tag mask is not ceil(n/8) bytes".into());
                            }
                            return Some(r);
                        }
                    },
                    None => return Some("no-builder".into()),
                },
                _ => return None,
            };
            for t in &tags {
                if t.bit_mask.len() != n.div_ceil(8) {
                    fail(s, c, "mask-len", format!("tag {:?}: mask {} bytes for {n} files", t.name, t.bit_mask.len()));
                }
            }
            format!("{n} {}", join_or(tags.iter().map(|t| mask_line(&t.name, t.tag_type as u16, &t.bit_mask)).collect()))
        }
        ["build", rest @ ..] => match c.mode {
            1 => {
                let built = c.ib.as_ref()?.snapshot().build();
                match built {
                    Err(e) => {
                        let r = ierr(&e);
                        fail(s, c, if r == "err:mask-size" { "mask-len" } else { "build-fails" }, format!("install build failed: {e}"));
                        r
                    }
                    Ok(mut m) => {
                        // reference of the VALUE this build must produce: a builder loaded from a V2
                        // manifest keeps the V2 header fields and gives every entry a file-type byte
                        // (its own, 0 for an entry added since)
                        let mut rb = c.rf.clone();
                        if rb.iv2.is_some() {
                            for f in &mut rb.files { f.ftype = Some(f.ftype.unwrap_or(0)); }
                        }
                        match rest {
                            [] => {}
                            ["v2", cks, ec2, ft] => {
                                let (cks, ec2, ft): (u8, u32, u8) = (cks.parse().ok()?, ec2.parse().ok()?, ft.parse().ok()?);
                                m.header = InstallHeader::new_v2(m.header.tag_count, m.header.entry_count, cks, ec2);
                                for e in &mut m.entries {
                                    e.file_type = Some(ft);
                                }
                                rb.iv2 = Some((cks, ec2, 0));
                                for f in &mut rb.files { f.ftype = Some(ft); }
                            }
                            ["v2x", cks, ec2, ft, unk] => {
                                let (cks, ec2, ft, unk): (u8, u32, u8, u8) = (cks.parse().ok()?, ec2.parse().ok()?, ft.parse().ok()?, unk.parse().ok()?);
                                m.header = InstallHeader::new_v2(m.header.tag_count, m.header.entry_count, cks, ec2);
                                m.header.v2_unknown = Some(unk);
                                for (i, e) in m.entries.iter_mut().enumerate() {
                                    e.file_type = Some(((usize::from(ft) + 7 * i) % 256) as u8);
                                }
                                rb.iv2 = Some((cks, ec2, unk));
                                for (i, f) in rb.files.iter_mut().enumerate() { f.ftype = Some(((usize::from(ft) + 7 * i) % 256) as u8); }
                            }
                            _ => return None,
                        }
                        let bytes = m.build().ok()?;
                        let ident = if rest.is_empty() { c.fm_bytes.as_ref().and_then(|src| identity_diff(src, &bytes)) } else { None };
                        c.bytes = bytes.clone();
                        c.dm = None;
                        c.im = InstallManifest::parse(&bytes).ok();
                        match &c.im {
                            None => fail(s, c, "reparse", "built install manifest does not parse".into()),
                            Some(p) => {
                                if *p != m {
                                    fail(s, c, "reparse", "parse(build(m)) != m".into());
                                }
                                for (i, e) in p.entries.iter().enumerate() {
                                    if c.rf.files.get(i).map(|f| f.size) != Some(u64::from(e.file_size)) {
                                        fail(s, c, "file-size", format!("entry {i} size {} differs from the reference", e.file_size));
                                    }
                                }
                                // header fields of every version: V1 has none of the extension fields, V2 all three
                                let got = (p.header.version, p.header.content_key_size, p.header.entry_count_v2, p.header.v2_unknown);
                                let want = match rb.iv2 { None => (1, None, None, None), Some((k, e, u)) => (2, Some(k), Some(e), Some(u)) };
                                if got != want {
                                    fail(s, c, "header", format!("install header (version, content_key_size, entry_count_v2, unknown) = {got:?}, the program configured {want:?}"));
                                }
                                for (i, (e, f)) in p.entries.iter().zip(&rb.files).enumerate() {
                                    if e.path.as_bytes() != &f.path[..] || e.content_key.as_bytes()[..] != f.key[..] || e.file_type != f.ftype {
                                        fail(s, c, "file-attrs", format!("install entry {i}: path {:?} key {} file type {:?}; the program gave path {:?} key {} file type {:?}",
                                            e.path, hex(e.content_key.as_bytes()), e.file_type, String::from_utf8_lossy(&f.path), hex(&f.key), f.ftype));
                                        break;
                                    }
                                }
                                let (tags, n) = (p.tags.clone(), p.entries.len());
                                oracle_manifest(s, c, &tags, n);
                                c.built_ok = true;
                                c.rf_built = Some(rb);
                            }
                        }
                        if let Some(msg) = ident {
                            fail(s, c, "frommanifest-identity", msg);
                        }
                        hex(&bytes)
                    }
                }
            }
            2 => match c.db.clone() {
                None => "no-builder".into(),
                Some(b) => match b.build() {
                    Err(e) => {
                        let r = derr(&e);
                        if r == "err:mask-size" {
                            fail(s, c, "mask-len", format!("download build failed: {e}"));
                        } else if c.rf.download_build_ok() {
                            fail(s, c, "build-fails", format!("download build failed ({e}) although every entry agrees with the configured checksum switch {} and flag size {} (version {})", c.rf.has_cks, c.rf.flag_size, c.rf.version));
                        }
                        r
                    }
                    Ok(_) if !c.rf.download_build_ok() => {
                        fail(s, c, "build-accepts", format!("download build accepted entries that disagree with the configured checksum switch {} / flag size {}", c.rf.has_cks, c.rf.flag_size));
                        "ok-unexpected".into()
                    }
                    Ok(m) => match m.build() {
                        Err(e) => {
                            fail(s, c, "build-fails", format!("DownloadManifest::build failed after builder.build(): {e}"));
                            derr(&e)
                        }
                        Ok(bytes) => {
                            let ident = c.fm_bytes.as_ref().and_then(|src| identity_diff(src, &bytes));
                            c.bytes = bytes.clone();
                            c.im = None;
                            c.dm = DownloadManifest::parse(&bytes).ok();
                            match &c.dm {
                                None => fail(s, c, "reparse", "built download manifest does not parse".into()),
                                Some(p) => {
                                    if *p != m {
                                        fail(s, c, "reparse", "parse(build(m)) != m".into());
                                    }
                                    for (i, e) in p.entries.iter().enumerate() {
                                        let want = c.rf.files.get(i).map(|f| (f.size, f.prio));
                                        if want.map(|f| f.0) != Some(e.file_size.as_u64()) {
                                            fail(s, c, "u40", format!("entry {i}: 40-bit size {} after round trip, added {:?}", e.file_size.as_u64(), want));
                                        }
                                        if want.map(|f| f.1) != Some(e.priority) {
                                            fail(s, c, "prio-roundtrip", format!("entry {i}: priority {} after round trip, added {:?}", e.priority, want));
                                        }
                                    }
                                    if p.header.version() != c.rf.version || p.header.base_priority() != c.rf.base {
                                        fail(s, c, "header", format!("version/base priority {}/{} differ from configuration {}/{}", p.header.version(), p.header.base_priority(), c.rf.version, c.rf.base));
                                    }
                                    // the other header fields of every version: checksum switch (V1+), flag size (V2+)
                                    let want_fs = if c.rf.version >= 2 { c.rf.flag_size } else { 0 };
                                    if p.header.has_checksum() != c.rf.has_cks || p.header.flag_size() != want_fs {
                                        fail(s, c, "header", format!("checksum switch/flag size {}/{} differ from configuration {}/{}", p.header.has_checksum(), p.header.flag_size(), c.rf.has_cks, want_fs));
                                    }
                                    for (i, (e, f)) in p.entries.iter().zip(&c.rf.files).enumerate() {
                                        if e.encoding_key.as_bytes()[..] != f.key[..] || e.checksum != f.cks || e.flags != f.flags {
                                            fail(s, c, "file-attrs", format!("download entry {i}: key {} checksum {:?} flags {:?}; the program gave key {} checksum {:?} flags {:?}",
                                                hex(e.encoding_key.as_bytes()), e.checksum, e.flags, hex(&f.key), f.cks, f.flags));
                                            break;
                                        }
                                    }
                                    let (tags, n) = (p.tags.clone(), p.entries.len());
                                    oracle_manifest(s, c, &tags, n);
                                    c.built_ok = true;
                                    c.rf_built = Some(c.rf.clone());
                                }
                            }
                            if let Some(msg) = ident {
                                fail(s, c, "frommanifest-identity", msg);
                            }
                            hex(&bytes)
                        }
                    },
                },
            },
            _ => return None,
        },
        ["frommanifest"] => {
            // builder-as-mutator: load a builder from the manifest parsed back after the last build.
            // The reference of the loaded builder is the reference of the value that was built.
            let r = match c.mode {
                1 => match &c.im {
                    Some(m) => { c.ib = Some(InstallManifestBuilder::from_manifest(m)); "ok" }
                    None => "no-manifest",
                },
                2 => match &c.dm {
                    Some(m) => { c.db = Some(DownloadManifestBuilder::from_manifest(m)); "ok" }
                    None => "no-manifest",
                },
                _ => return None,
            };
            if r == "ok" {
                if let Some(rb) = c.rf_built.clone() {
                    c.rf = rb;
                }
                c.fm_bytes = Some(c.bytes.clone());
                s.tally(&format!("frommanifest.{}", match c.mode {
                    1 => format!("install.v{}", if c.rf.iv2.is_some() { 2 } else { 1 }),
                    _ => format!("download.v{}.fs{}.cks{}.base-{}", c.rf.version, c.rf.flag_size, u8::from(c.rf.has_cks), match c.rf.base { i8::MIN..=-1 => "neg", 0 => "zero", _ => "pos" }),
                }));
            }
            r.into()
        }
        ["q", "hdr"] => match (&c.im, &c.dm) {
            (Some(m), _) => {
                let ft: Vec<String> = m.entries.iter().map(|e| e.file_type.map_or("n".to_string(), |f| f.to_string())).collect();
                let ext = match (m.header.content_key_size, m.header.entry_count_v2, m.header.v2_unknown) {
                    (Some(k), Some(e), Some(u)) => format!(" cks={k} ec2={e} unk={u}"),
                    (None, None, None) => String::new(),
                    _ => " ext=partial".into(),
                };
                format!("v={}{ext} ft={}", m.header.version, if ft.is_empty() { "-".into() } else { ft.join(",") })
            }
            (None, Some(m)) => format!("v={} cks={} fs={} base={}", m.header.version(), u8::from(m.header.has_checksum()), m.header.flag_size(), m.header.base_priority()),
            _ => "no-manifest".into(),
        },
        ["q", "eff"] => {
            let m = match &c.dm { Some(m) => m, None => return Some("no-manifest".into()) };
            let got: Vec<i8> = m.entries.iter().map(|e| e.effective_priority(&m.header)).collect();
            let want: Vec<i8> = c.rf.files.iter().map(|f| c.rf.eff(f.prio)).collect();
            if got != want {
                fail(s, c, "prio-eff", format!("effective priorities {got:?}, expected {want:?} (priority - base {} saturating, version {})", c.rf.base, c.rf.version));
            }
            if got.is_empty() { "-".into() } else { got.iter().map(|p| p.to_string()).collect::<Vec<_>>().join(",") }
        }
        ["reparse"] => match c.mode {
            1 => match &c.im {
                Some(m) => format!("ok tags={} entries={} same={}", m.tags.len(), m.entries.len(), u8::from(m.build().ok().as_deref() == Some(&c.bytes[..]))),
                None => "err".into(),
            },
            2 => match &c.dm {
                Some(m) => format!("ok tags={} entries={} same={}", m.tags.len(), m.entries.len(), u8::from(m.build().ok().as_deref() == Some(&c.bytes[..]))),
                None => "err".into(),
            },
            _ => return None,
        },
        ["trunc", n] => {
            let n: usize = n.parse().ok()?;
            let cut = &c.bytes[..n.min(c.bytes.len())];
            match c.mode {
                1 => if InstallManifest::parse(cut).is_ok() { "ok".into() } else { "err".into() },
                2 => if DownloadManifest::parse(cut).is_ok() { "ok".into() } else { "err".into() },
                _ => return None,
            }
        }
        ["read", h] => {
            let b = unhex(h)?;
            if b.starts_with(b"IN") {
                match InstallManifest::parse(&b) {
                    Ok(m) => tag_lines(&m.tags, m.entries.len()),
                    Err(_) => "err".into(),
                }
            } else if b.starts_with(b"DL") {
                match DownloadManifest::parse(&b) {
                    Ok(m) => tag_lines(&m.tags, m.entries.len()),
                    Err(_) => "err".into(),
                }
            } else {
                "err".into()
            }
        }
        ["q", "tags"] => match (&c.im, &c.dm) {
            (Some(m), _) => tag_lines(&m.tags, m.entries.len()),
            (None, Some(m)) => tag_lines(&m.tags, m.entries.len()),
            _ => "no-manifest".into(),
        },
        ["q", "tag", name] => {
            let name = name_of(name)?;
            let got: Vec<usize> = match (&c.im, &c.dm) {
                (Some(m), _) => m.get_files_for_tag(&name).iter().map(|p| p.0).collect(),
                (None, Some(m)) => m.entries_by_tag(&name).iter().map(|p| p.0).collect(),
                _ => return Some("no-manifest".into()),
            };
            let want: Vec<usize> = c.rf.tag(&name).map(|t| t.set.iter().copied().collect()).unwrap_or_default();
            if got != want {
                fail(s, c, "tag-set", format!("query tag {name:?}: got {}, associated {}", idx_list(&got), idx_list(&want)));
            }
            idx_list(&got)
        }
        ["q", "all", names] => {
            let names = names_of(names)?;
            let refs: Vec<&str> = names.iter().map(String::as_str).collect();
            let got: Vec<usize> = match (&c.im, &c.dm) {
                (Some(m), _) => m.get_files_for_tags(&refs).iter().map(|p| p.0).collect(),
                (None, Some(m)) => m.entries_by_tags(&refs).iter().map(|p| p.0).collect(),
                _ => return Some("no-manifest".into()),
            };
            if !names.is_empty() {
                // every name known: the intersection; some name unknown: nothing
                let want = c.rf.all_of(&names).unwrap_or_default();
                if got != want {
                    fail(s, c, "all-of", format!("all-of {names:?}: got {}, intersection of associated sets {}", idx_list(&got), idx_list(&want)));
                }
            }
            idx_list(&got)
        }
        ["q", "any", names] => {
            let names = names_of(names)?;
            let refs: Vec<&str> = names.iter().map(String::as_str).collect();
            let m = match &c.im { Some(m) => m, None => return Some("no-manifest".into()) };
            let got: Vec<usize> = m.get_files_for_any_tag(&refs).iter().map(|p| p.0).collect();
            let want = c.rf.any_of(&names);
            if got != want {
                fail(s, c, "any-of", format!("any-of {names:?}: got {}, union of associated sets {}", idx_list(&got), idx_list(&want)));
            }
            idx_list(&got)
        }
        ["q", "size", names] => {
            let names = names_of(names)?;
            let refs: Vec<&str> = names.iter().map(String::as_str).collect();
            let got: u64 = match (&c.im, &c.dm) {
                (Some(m), _) => m.calculate_install_size(&refs),
                (None, Some(m)) => m.calculate_size_for_tags(&refs),
                _ => return Some("no-manifest".into()),
            };
            if !names.is_empty() {
                let want: u64 = c.rf.all_of(&names).unwrap_or_default().iter().map(|&i| c.rf.files[i].size).sum();
                if got != want {
                    fail(s, c, "size-by-tags", format!("size for {names:?}: got {got}, sum over the associated intersection {want}"));
                }
            }
            got.to_string()
        }
        ["q", "total"] => {
            let got: u64 = match (&c.im, &c.dm) {
                (Some(m), _) => m.total_install_size(),
                (None, Some(m)) => m.total_download_size(),
                _ => return Some("no-manifest".into()),
            };
            let want: u64 = c.rf.files.iter().map(|f| f.size).sum();
            if got != want {
                fail(s, c, "size-sum", format!("total size {got}, sum of added sizes {want}"));
            }
            got.to_string()
        }
        ["q", "prio", cat] => {
            let cat: usize = cat.parse().ok()?;
            let pc = *[PriorityCategory::Critical, PriorityCategory::Essential, PriorityCategory::High, PriorityCategory::Normal, PriorityCategory::Low].get(cat)?;
            let m = match &c.dm { Some(m) => m, None => return Some("no-manifest".into()) };
            let got: Vec<usize> = m.entries_by_priority(pc).iter().map(|p| p.0).collect();
            let class = |p: i8| match p { i8::MIN..=-1 => 0, 0 => 1, 1..=2 => 2, 3..=5 => 3, _ => 4 };
            let want: Vec<usize> = (0..c.rf.files.len()).filter(|&i| class(c.rf.eff(c.rf.files[i].prio)) == cat).collect();
            if got != want {
                fail(s, c, "prio-filter", format!("priority category {cat}: got {}, expected {}", idx_list(&got), idx_list(&want)));
            }
            idx_list(&got)
        }
        ["q", "prange", lo, hi] => {
            let (lo, hi): (i8, i8) = (lo.parse().ok()?, hi.parse().ok()?);
            let m = match &c.dm { Some(m) => m, None => return Some("no-manifest".into()) };
            let got: Vec<usize> = m.entries_by_priority_range(lo, hi).iter().map(|p| p.0).collect();
            let want: Vec<usize> = (0..c.rf.files.len()).filter(|&i| { let e = c.rf.eff(c.rf.files[i].prio); lo <= e && e <= hi }).collect();
            if got != want {
                fail(s, c, "prio-filter", format!("priority range {lo}..={hi}: got {}, expected {}", idx_list(&got), idx_list(&want)));
            }
            idx_list(&got)
        }
        ["q", "ess"] => {
            let m = match &c.dm { Some(m) => m, None => return Some("no-manifest".into()) };
            let got = m.essential_download_size();
            let want: u64 = c.rf.files.iter().filter(|f| c.rf.eff(f.prio) <= 0).map(|f| f.size).sum();
            if got != want {
                fail(s, c, "size-sum", format!("essential size {got}, sum over effective priority <= 0: {want}"));
            }
            got.to_string()
        }
        ["q", op @ ("inter" | "union"), a, b] => {
            let (a, b) = (name_of(a)?, name_of(b)?);
            let m = match &c.im { Some(m) => m, None => return Some("no-manifest".into()) };
            match (m.find_tag(&a), m.find_tag(&b)) {
                (Some(ta), Some(tb)) => {
                    let out = if *op == "inter" { ta.intersect(tb) } else { ta.union(tb) };
                    // O: the combined mask selects the intersection / union of the two file sets
                    let n = m.entries.len();
                    let t = cascette_formats::install::InstallTag { name: String::new(), tag_type: TagType::Category, bit_mask: out.clone() };
                    for i in 0..n {
                        let want = if *op == "inter" { ta.has_file(i) && tb.has_file(i) } else { ta.has_file(i) || tb.has_file(i) };
                        if t.has_file(i) != want {
                            fail(s, c, "mask-combine", format!("{op} of {a:?},{b:?}: file {i} wrong"));
                            break;
                        }
                    }
                    hex(&out)
                }
                _ => "no-tag".into(),
            }
        }
        ["stagfile", ti, fi] => {
            let (ti, fi): (usize, usize) = (ti.parse().ok()?, fi.parse().ok()?);
            if c.mode != 3 {
                return None;
            }
            let mut ops = c.size_ops.clone();
            ops.push(SizeOp::TagFile(ti, fi));
            match catch(AssertUnwindSafe(|| { let _ = size_builder(&ops); })) {
                Ok(()) => {
                    c.size_ops = ops;
                    "ok".into()
                }
                Err(_) => "panic".into(),
            }
        }
        ["sentry"] => {
            if c.mode != 3 {
                return None;
            }
            c.size_ops.push(SizeOp::Entry);
            "ok".into()
        }
        ["sentry", key, esize] => {
            let key = unhex(key)?;
            let e: u64 = esize.parse().ok()?;
            if c.mode != 3 {
                return None;
            }
            c.size_ops.push(SizeOp::EntryKv(key, e));
            "ok".into()
        }
        [op @ ("sver" | "sekey" | "stagcount" | "sesize"), v] => {
            if c.mode != 3 {
                return None;
            }
            c.size_ops.push(match *op {
                "sver" => SizeOp::Version(v.parse().ok()?),
                "sekey" => SizeOp::Ekey(v.parse().ok()?),
                "stagcount" => SizeOp::TagCount(v.parse().ok()?),
                _ => SizeOp::Esize(v.parse().ok()?),
            });
            "ok".into()
        }
        [op @ ("sbuild" | "sser")] => {
            if c.mode != 3 {
                return None;
            }
            let sr = SizeRef::of(&c.size_ops);
            let built = catch(AssertUnwindSafe(|| size_builder(&c.size_ops).build()));
            let wraps = sr.esizes.iter().map(|&e| u128::from(e)).sum::<u128>() > u128::from(u64::MAX);
            s.tally(&format!("size.{op}.v{}.{}", sr.version, match &built { Err(_) => "panic".to_string(), Ok(Err(e)) => serr(e), Ok(Ok(_)) => if wraps { "ok-wrapped".into() } else { "ok".to_string() } }));
            if wraps {
                // the sum of the esizes does not fit a u64: the release build wraps it (recorded finding)
                return Some(match built {
                    Err(_) => "panic".into(),
                    Ok(Err(e)) => serr(&e),
                    Ok(Ok(m)) => {
                        fail(s, c, "size-total-u64-wrap", format!("size build accepted entries whose esizes sum to more than u64::MAX; header total_size {} is the wrapped sum", m.header.total_size()));
                        if *op == "sbuild" {
                            format!("{} {}", m.entries.len(), join_or(m.tags.iter().map(|t| mask_line(&t.name, t.tag_type as u16, &t.bit_mask)).collect()))
                        } else {
                            match m.build() {
                                Ok(b) => {
                                    c.sm = SizeManifest::parse(&b).ok();
                                    c.bytes = b.clone();
                                    hex(&b)
                                }
                                Err(_) => "err:validate".into(),
                            }
                        }
                    }
                });
            }
            match built {
                Err(_) => "panic".into(),
                Ok(Err(e)) => {
                    if sr.expect_ok() {
                        fail(s, c, "size-build-fails", format!("size build failed ({e}) on a configuration every check of which holds in the reference"));
                    }
                    serr(&e)
                }
                Ok(Ok(m)) => {
                    let n = m.entries.len();
                    if !sr.expect_ok() {
                        fail(s, c, "size-build-accepts", "size build accepted a configuration the reference rejects (version / key size / esize width / tag count / key length / esize wider than its field / 40-bit total)".into());
                    }
                    let ser = m.build();
                    let parsed = ser.as_ref().ok().and_then(|b| SizeManifest::parse(b).ok());
                    match &parsed {
                        None => fail(s, c, "reparse", "built size manifest does not serialise/parse".into()),
                        Some(p) => {
                            if *p != m {
                                fail(s, c, "reparse", "size: parse(build(m)) != m".into());
                            }
                            // O: every tagged file below the entry count survives build + serialise + parse
                            for (t, w) in p.tags.iter().zip(&sr.want) {
                                let got: Vec<usize> = (0..n).filter(|&i| t.has_file(i)).collect();
                                let w: Vec<usize> = w.iter().copied().filter(|&i| i < n).collect();
                                if got != w || t.bit_mask.len() != n.div_ceil(8) {
                                    fail(s, c, "size-tag-set", format!("size manifest tag {:?}: files {} (mask {} bytes), tagged {}", t.name, idx_list(&got), t.bit_mask.len(), idx_list(&w)));
                                }
                            }
                            if p.tags.len() != sr.want.len() {
                                fail(s, c, "size-tag-set", format!("size manifest has {} tags, {} were added", p.tags.len(), sr.want.len()));
                            }
                            // O: size totals = sums over the added entries
                            let got: Vec<u64> = p.entries.iter().map(|e| e.esize).collect();
                            if got != sr.esizes {
                                fail(s, c, "size-entries", format!("re-parsed esizes {got:?} differ from the added {:?}", sr.esizes));
                            }
                            let want: u128 = sr.esizes.iter().map(|&e| u128::from(e)).sum();
                            if u128::from(p.header.total_size()) != want {
                                fail(s, c, "size-total", format!("header total_size {} != sum of the added esizes {want}", p.header.total_size()));
                            }
                            c.built_ok = true;
                        }
                    }
                    if *op == "sbuild" {
                        format!("{n} {}", join_or(m.tags.iter().map(|t| mask_line(&t.name, t.tag_type as u16, &t.bit_mask)).collect()))
                    } else {
                        match ser {
                            Ok(b) => {
                                c.bytes = b.clone();
                                c.sm = parsed;
                                hex(&b)
                            }
                            Err(_) => "err:validate".into(),
                        }
                    }
                }
            }
        }
        ["sreparse"] => {
            if c.mode != 3 {
                return None;
            }
            match &c.sm {
                Some(m) => format!("ok v={} tags={} entries={} total={} width={} same={}", m.header.version(), m.tags.len(), m.entries.len(), m.header.total_size(), m.header.esize_bytes(), u8::from(m.build().ok().as_deref() == Some(&c.bytes[..]))),
                None => "err".into(),
            }
        }
        ["sq", "tags"] => match &c.sm {
            Some(m) => tag_lines(&m.tags, m.entries.len()),
            None => "no-manifest".into(),
        },
        ["sq", "sizes"] => match &c.sm {
            Some(m) => if m.entries.is_empty() { "-".into() } else { m.entries.iter().map(|e| e.esize.to_string()).collect::<Vec<_>>().join(",") },
            None => "no-manifest".into(),
        },
        ["utf8", h] => {
            let b = unhex(h)?;
            let real = std::str::from_utf8(&b).is_ok();
            if real != utf8_by_definition(&b) {
                fail(s, c, "utf8-def", format!("from_utf8({}) = {real}, by-definition decoder disagrees", hex(&b)));
            }
            u8::from(real).to_string()
        }
        ["parse", h] => {
            let b = unhex(h)?;
            let r = real_parse_line(&b);
            {
                let f = String::from_utf8_lossy(&b[..b.len().min(2)]).to_string();
                let cls = match raw_name_spans(&b) {
                    None => "incomplete",
                    Some(sp) => if sp.iter().all(|&(p, l)| utf8_by_definition(&b[p..p + l])) { if sp.iter().any(|&(p, l)| b[p..p + l].iter().any(|&x| x >= 0x80)) { "wellformed-nonascii" } else { "ascii" } } else { "malformed-name" },
                };
                s.tally(&format!("parse.{f}.{cls}.{}", if r.starts_with("ok") { "accepted" } else { "rejected" }));
            }
            // O: accepted => every string of the input is NUL-free (by construction of the walker) well-formed UTF-8;
            //    rejected although every string is well-formed => the same bytes with the strings
            //    replaced by ASCII of the same length must be rejected too (else the rejection was
            //    about a well-formed name).
            if let Some(spans) = raw_name_spans(&b) {
                let all_ok = spans.iter().all(|&(p, l)| utf8_by_definition(&b[p..p + l]));
                if r.starts_with("ok") && !all_ok {
                    let bad = spans.iter().find(|&&(p, l)| !utf8_by_definition(&b[p..p + l])).map(|&(p, l)| hex(&b[p..p + l])).unwrap_or_default();
                    fail(s, c, "utf8-accept", format!("parser accepted a manifest whose name/path {bad} is not well-formed UTF-8"));
                }
                if !r.starts_with("ok") && all_ok {
                    let mut v = b.clone();
                    for &(p, l) in &spans {
                        for x in &mut v[p..p + l] { *x = b'x'; }
                    }
                    if real_parse_line(&v).starts_with("ok") && spans.iter().any(|&(p, l)| b[p..p + l].iter().any(|&x| x >= 0x80)) {
                        fail(s, c, "utf8-reject", "parser rejected a manifest whose names are all well-formed UTF-8 (the same bytes with ASCII names are accepted)".into());
                    }
                }
                if r.starts_with("ok") { c.built_ok = true; }
            }
            r
        }
        _ => return None,
    };
    Some(r)
}

// ---------------------------------------------------------------- generators

struct Gen<'a> {
    s: &'a mut Session,
    c: Ctx,
    rng: &'a mut Rng,
    key_ctr: u64,
}

impl Gen<'_> {
    fn send(&mut self, line: String) -> String {
        let r = exec(self.s, &mut self.c, &line);
        self.s.line(&line, &r);
        r
    }
    fn end_case(&mut self) {
        let nontrivial = self.c.built_ok && !self.c.rf.tags.is_empty() && (!self.c.rf.files.is_empty() || self.c.mode == 3);
        let key = self.c.lines.join("\n");
        self.s.case(if nontrivial { Some(&key) } else { None });
    }
    fn key(&mut self) -> String {
        self.key_ctr += 1;
        let mut k = self.rng.bytes(16);
        k[..8].copy_from_slice(&self.key_ctr.to_be_bytes());
        hex(&k)
    }
    fn add_file(&mut self, download: bool, cks: bool, flags: u8) {
        if download {
            let size = match self.rng.below(12) {
                0 => 0,
                1 => 0xFFFF_FFFF,
                2 => 0x1_0000_0000,
                3 => 0xFF_FFFF_FFFF,
                4 => 0x100_0000_0000, // rejected
                5 => self.rng.next() & 0xFF_FFFF_FFFF,
                _ => self.rng.below(1 << 20),
            };
            let prio: i64 = match self.rng.below(10) {
                0 => -128,
                1 => 127,
                2 => -1,
                3 => 0,
                4 => self.rng.range(1, 6) as i64,
                _ => self.rng.below(256) as i64 - 128,
            };
            let k = self.key();
            let r = self.send(format!("dfile {k} {size} {prio}"));
            if r == "ok" {
                let i = self.c.rf.files.len() - 1;
                if cks {
                    let v = self.rng.next() & 0xFFFF_FFFF;
                    self.send(format!("setcks {i} {v}"));
                }
                if flags > 0 && self.rng.chance(1, 2) {
                    let f = self.rng.bytes(flags as usize);
                    self.send(format!("setflags {i} {}", hex(&f)));
                }
            }
        } else {
            let size = match self.rng.below(8) { 0 => 0, 1 => 0xFFFF_FFFFu64, _ => self.rng.below(1 << 24) };
            let plen = self.rng.range(1, 6) as usize;
            let path: Vec<u8> = (0..plen).map(|_| b"abcdefghijklmnopqrstuvwxyz0123456789/._\\"[self.rng.below(40) as usize]).collect();
            let k = self.key();
            self.send(format!("file {} {k} {size}", hex(&path)));
        }
    }
    fn begin(&mut self, download: bool) -> (bool, u8) {
        if !download {
            self.send("begin install".into());
            return (false, 0);
        }
        let v = self.rng.range(1, 3);
        self.send(format!("begin download {v}"));
        let cks = self.rng.chance(1, 3);
        if cks {
            self.send("cks 1".into());
        }
        let mut flags = 0u8;
        if self.rng.chance(1, 3) {
            let f = self.rng.range(0, 5) as u8;
            if self.send(format!("flags {f}")) == "ok" {
                flags = f;
            }
        }
        if self.rng.chance(1, 2) {
            let b: i64 = match self.rng.below(6) { 0 => -128, 1 => 127, 2 => 0, _ => self.rng.below(256) as i64 - 128 };
            self.send(format!("base {b}"));
        }
        (cks, flags)
    }
    fn queries(&mut self, download: bool, names: &[String], thorough_q: bool) {
        let r = self.send("reparse".into());
        let _ = r;
        let bytes_hex = hex(&self.c.bytes);
        self.send(format!("read {bytes_hex}"));
        self.send("q tags".into());
        self.send("q total".into());
        let live: Vec<String> = self.c.rf.tags.iter().map(|t| hex(t.name.as_bytes())).collect();
        let pick = |g: &mut Self| -> String {
            if !live.is_empty() && g.rng.chance(9, 10) { g.rng.pick(&live).clone() }
            else if !names.is_empty() && g.rng.chance(1, 2) { g.rng.pick(names).clone() }
            else { hex(b"nosuchtag") }
        };
        let nq = if thorough_q { 6 } else { 3 };
        for _ in 0..nq {
            let n = pick(self);
            self.send(format!("q tag {n}"));
            let k = self.rng.range(1, 4);
            let combo: Vec<String> = (0..k).map(|_| pick(self)).collect();
            let combo = combo.join(",");
            self.send(format!("q all {combo}"));
            self.send(format!("q size {combo}"));
            if !download {
                self.send(format!("q any {combo}"));
                let (a, b) = (pick(self), pick(self));
                self.send(format!("q inter {a} {b}"));
                self.send(format!("q union {a} {b}"));
            }
        }
        self.send("q all none".into());
        self.send("q size none".into());
        if download {
            for cat in 0..5 {
                self.send(format!("q prio {cat}"));
            }
            for _ in 0..2 {
                let a = self.rng.below(256) as i64 - 128;
                let b = self.rng.below(256) as i64 - 128;
                self.send(format!("q prange {} {}", a.min(b), a.max(b)));
            }
            self.send("q prange -128 127".into());
            self.send("q ess".into());
        } else {
            self.send("q any none".into());
        }
        // truncations of the serialised manifest must be rejected (counts are trusted otherwise)
        let len = self.c.bytes.len();
        if len > 0 {
            for cut in [len - 1, self.rng.below(len as u64) as usize, len] {
                self.send(format!("trunc {cut}"));
            }
        }
    }

    /// boundary family: n files, three tags added before / in the middle of / after the files,
    /// membership patterns that hit the last file and the byte boundaries, one removal at k.
    fn boundary_case(&mut self, download: bool, n: usize, k: Option<usize>, v2: bool) {
        let (cks, flags) = self.begin(download);
        let names = [hex(b"A"), hex(b"Bb"), hex(b"Ccc")];
        let pat = self.rng.below(4);
        let line_ = format!("tag {} {}", names[0], TAG_TYPES[self.rng.below(17) as usize]);
        self.send(line_);
        let mid = n / 2;
        for i in 0..n {
            if i == mid {
                let line_ = format!("tag {} {}", names[1], TAG_TYPES[self.rng.below(17) as usize]);
                self.send(line_);
            }
            self.add_file(download, cks, flags);
        }
        if n == 0 || mid >= n {
            self.send(format!("tag {} {}", names[1], 2));
        }
        self.send(format!("tag {} {}", names[2], 1));
        let nf = self.c.rf.files.len();
        for i in 0..nf {
            let in_a = match pat { 0 => i % 3 == 0, 1 => i % 8 == 7 || i % 8 == 0, 2 => self.rng.chance(1, 2), _ => true };
            if in_a {
                self.send(format!("assoc {i} {}", names[0]));
            }
            if i + 1 == nf || i + 9 >= nf && self.rng.chance(1, 2) {
                self.send(format!("assoc {i} {}", names[1]));
            }
            if self.rng.chance(2, 3) {
                self.send(format!("assoc {i} {}", names[2]));
            }
        }
        self.send("masks".into());
        if let Some(k) = k {
            self.send(format!("rmfile {k}"));
            self.send("masks".into());
        }
        if !download && v2 {
            let ft = self.rng.below(256);
            let line_ = format!("build v2 {} {} {ft}", self.rng.below(256), self.rng.next() & 0xFFFF_FFFF);
            self.send(line_);
        } else {
            self.send("build".into());
        }
        let nm: Vec<String> = names.to_vec();
        self.queries(download, &nm, false);
        self.end_case();
    }

    /// random builder program over all operations, in any order
    fn random_case(&mut self, download: bool, max_files: usize, max_tags: usize, allow_dup: bool) {
        let (cks, flags) = self.begin(download);
        let pool: Vec<String> = (0..max_tags.max(1)).map(|i| {
            let base = ["Windows", "OSX", "x86_64", "enUS", "deDE", "t", "é", "Alt", "", "HighRes"];
            let s = if i < base.len() { base[i].to_string() } else { format!("tag{i}") };
            hex(s.as_bytes())
        }).collect();
        let mut live: Vec<String> = vec![];
        let steps = self.rng.range(0, (max_files * 3 + max_tags * 2) as u64) as usize;
        let target_files = self.rng.range(0, max_files as u64) as usize;
        let target_tags = self.rng.range(0, max_tags as u64) as usize;
        self.random_steps(download, cks, flags, &pool, &mut live, steps, target_files, target_tags, allow_dup);
        self.send("masks".into());
        if !download && self.rng.chance(1, 4) {
            let line_ = format!("build v2 {} {} {}", self.rng.below(256), self.rng.next() & 0xFFFF_FFFF, self.rng.below(256));
            self.send(line_);
        } else {
            self.send("build".into());
        }
        self.queries(download, &pool, true);
        self.end_case();
    }

    /// `steps` random builder calls (the body of `random_case`)
    #[allow(clippy::too_many_arguments)]
    fn random_steps(&mut self, download: bool, cks: bool, flags: u8, pool: &[String], live: &mut Vec<String>, steps: usize, target_files: usize, target_tags: usize, allow_dup: bool) {
        for step in 0..steps {
            let n = self.c.rf.files.len();
            let roll = self.rng.below(100);
            if roll < 28 && n < target_files.max(1) + 3 {
                self.add_file(download, cks, flags);
            } else if roll < 40 {
                if live.len() < target_tags || self.rng.chance(1, 10) {
                    let cand: Vec<&String> = pool.iter().filter(|p| allow_dup && self.c.rf.dup || !live.contains(p)).collect();
                    let name = if allow_dup && !live.is_empty() && self.rng.chance(1, 4) { self.rng.pick(live).clone() }
                               else if cand.is_empty() { continue } else { (*self.rng.pick(&cand)).clone() };
                    let line_ = format!("tag {name} {}", TAG_TYPES[self.rng.below(17) as usize]);
                    self.send(line_);
                    if !live.contains(&name) { live.push(name); }
                }
            } else if roll < 75 {
                // associate: mostly valid, sometimes out of range / unknown tag
                let i = if n > 0 && self.rng.chance(19, 20) { self.rng.below(n as u64) as usize } else { n + self.rng.below(3) as usize };
                let name = if !live.is_empty() && self.rng.chance(19, 20) { self.rng.pick(live).clone() } else { self.rng.pick(pool).clone() };
                if !download && self.rng.chance(1, 12) && !self.c.rf.dup {
                    let ti = self.rng.below(self.c.rf.tags.len() as u64 + 2);
                    self.send(format!("associdx {i} {ti}"));
                } else {
                    self.send(format!("assoc {i} {name}"));
                }
            } else if roll < 83 {
                let i = if n > 0 && self.rng.chance(9, 10) { self.rng.below(n as u64) as usize } else { n + self.rng.below(20) as usize };
                let name = if !live.is_empty() && self.rng.chance(9, 10) { self.rng.pick(live).clone() } else { self.rng.pick(pool).clone() };
                self.send(format!("dissoc {i} {name}"));
            } else if roll < 93 {
                let k = if n > 0 && self.rng.chance(9, 10) {
                    match self.rng.below(4) { 0 => 0, 1 => n - 1, 2 => (n - 1).min(7 + self.rng.below(2) as usize), _ => self.rng.below(n as u64) as usize }
                } else { n + self.rng.below(2) as usize };
                self.send(format!("rmfile {k}"));
            } else if roll < 97 {
                let name = if !live.is_empty() && self.rng.chance(4, 5) { self.rng.pick(live).clone() } else { self.rng.pick(pool).clone() };
                let r = self.send(format!("rmtag {name}"));
                if r == "ok" && self.c.rf.tag(&name_of(&name).unwrap_or_default()).is_none() {
                    live.retain(|x| *x != name);
                }
            } else {
                self.send("masks".into());
            }
            if step % 40 == 39 {
                self.send("masks".into());
            }
        }
    }


    // ------------------------------------------------------------ builder as mutator (from_manifest)

    /// priority selections of the re-parsed download manifest around the category boundaries of the
    /// EFFECTIVE priority (priority - base): every entry point by priority + the header
    fn prio_queries(&mut self, base: i64) {
        self.send("q hdr".into());
        self.send("q eff".into());
        for cat in 0..5 {
            self.send(format!("q prio {cat}"));
        }
        let cl = |x: i64| x.clamp(-128, 127);
        for (lo, hi) in [(-128i64, -1i64), (0, 0), (1, 2), (3, 5), (6, 127), (-128, 127), (-128, 0)] {
            self.send(format!("q prange {lo} {hi}"));
            // the same window in raw priorities (what a base-less reading of the header would select)
            if base != 0 {
                self.send(format!("q prange {} {}", cl(lo + base), cl(hi + base)));
            }
        }
        self.send("q ess".into());
        self.send("q total".into());
    }

    /// one edit program on a loaded builder: 0 add file + associate, 1 remove a file, 2 remove a tag /
    /// add a tag / associate with it, 3 dissociate / associate, 4 all of them
    fn mut_edits(&mut self, download: bool, variant: usize, cks: bool, flags: u8, names: &[String]) {
        let n = self.c.rf.files.len();
        if variant == 0 || variant == 4 {
            if download {
                let k = self.key();
                let prio = self.c.rf.base as i64 + [0i64, 1, 3, 6, -1][self.rng.below(5) as usize];
                if self.send(format!("dfile {k} {} {}", 5000 + n, prio.clamp(-128, 127))) == "ok" {
                    let i = self.c.rf.files.len() - 1;
                    if cks { let v = self.rng.next() & 0xFFFF_FFFF; self.send(format!("setcks {i} {v}")); }
                    if flags > 0 { let f = self.rng.bytes(flags as usize); self.send(format!("setflags {i} {}", hex(&f))); }
                }
            } else {
                let k = self.key();
                self.send(format!("file {} {k} {}", hex(format!("new/{n}.bin").as_bytes()), 5000 + n));
            }
            let i = self.c.rf.files.len() - 1;
            self.send(format!("assoc {i} {}", names[0]));
        }
        if (variant == 1 || variant == 4) && n > 0 {
            let k = match self.rng.below(3) { 0 => 0, 1 => n - 1, _ => (n - 1).min(7) };
            self.send(format!("rmfile {k}"));
        }
        if variant == 2 || variant == 4 {
            self.send(format!("rmtag {}", names[1]));
            let line_ = format!("tag {} {}", names[2], TAG_TYPES[self.rng.below(17) as usize]);
            self.send(line_);
            if !self.c.rf.files.is_empty() {
                self.send(format!("assoc 0 {}", names[2]));
                let last = self.c.rf.files.len() - 1;
                self.send(format!("assoc {last} {}", names[2]));
            }
        }
        if (variant == 3 || variant == 4) && !self.c.rf.files.is_empty() {
            self.send(format!("dissoc 0 {}", names[0]));
            let j = self.c.rf.files.len() / 2;
            self.send(format!("assoc {j} {}", names[0]));
        }
        self.send("masks".into());
    }

    /// download builder as mutator: version x checksum switch x flag size x base priority, every
    /// header field non-default; build, load with from_manifest, rebuild without an edit (the
    /// bytes must not change), load again, edit, rebuild; all selections after every generation
    fn mutator_download(&mut self, v: u64, cks: bool, fs: u8, base: i64, n: usize, variant: usize) {
        self.send(format!("begin download {v}"));
        if cks { self.send("cks 1".into()); }
        if v >= 2 { self.send(format!("flags {fs}")); }
        if v >= 3 { self.send(format!("base {base}")); }
        self.s.tally(&format!("mut.download.v{v}.fs{fs}.base-{}", if base < 0 { "neg" } else if base == 0 { "zero" } else { "pos" }));
        let names = [hex(b"Windows"), hex(b"enUS"), hex(b"Extra")];
        let line_ = format!("tag {} 1", names[0]);
        self.send(line_);
        // priorities on both sides of every category boundary of the effective priority
        let around = [-128i64, base - 2, base - 1, base, base + 1, base + 2, base + 3, base + 5, base + 6, 127, -1, 0, 1, 3, 6];
        for i in 0..n {
            let prio = if i < around.len() { around[i] } else { self.rng.below(256) as i64 - 128 }.clamp(-128, 127);
            let size = match self.rng.below(10) { 0 => 0, 1 => 0x1_0000_0000, 2 => 0xFF_FFFF_FFFF, _ => 1000 + i as u64 };
            let k = self.key();
            if self.send(format!("dfile {k} {size} {prio}")) == "ok" {
                if cks { let c_ = self.rng.next() & 0xFFFF_FFFF; self.send(format!("setcks {i} {c_}")); }
                if fs > 0 && i % 3 != 2 { let f = self.rng.bytes(fs as usize); self.send(format!("setflags {i} {}", hex(&f))); }
            }
            if i == n / 2 {
                let line_ = format!("tag {} 2", names[1]);
                self.send(line_);
            }
        }
        if n == 0 { let line_ = format!("tag {} 2", names[1]); self.send(line_); }
        for i in 0..self.c.rf.files.len() {
            if i % 2 == 0 { self.send(format!("assoc {i} {}", names[0])); }
            if i % 3 == 0 || i + 1 == self.c.rf.files.len() { self.send(format!("assoc {i} {}", names[1])); }
        }
        self.send("build".into());
        self.prio_queries(base);
        // generation 2: load, rebuild untouched
        self.send("frommanifest".into());
        self.send("build".into());
        self.prio_queries(base);
        self.send("q tags".into());
        // generation 3: load, edit, rebuild
        self.send("frommanifest".into());
        self.mut_edits(true, variant, cks, fs, &names);
        self.send("build".into());
        self.prio_queries(base);
        let nm: Vec<String> = names.to_vec();
        self.queries(true, &nm, false);
        self.end_case();
    }

    /// install builder as mutator: V1 and V2 sources with every V2 header field and file-type byte
    /// non-default
    #[allow(clippy::too_many_arguments)]
    fn mutator_install(&mut self, n: usize, v2: bool, cks: u8, ec2: u32, ft: u8, unk: u8, variant: usize) {
        self.send("begin install".into());
        self.s.tally(&format!("mut.install.v{}", if v2 { 2 } else { 1 }));
        let names = [hex(b"Windows"), hex(b"enUS"), hex(b"Extra")];
        let line_ = format!("tag {} 1", names[0]);
        self.send(line_);
        for i in 0..n {
            self.add_file(false, false, 0);
            if i == n / 2 { let line_ = format!("tag {} 2", names[1]); self.send(line_); }
        }
        if n == 0 { let line_ = format!("tag {} 2", names[1]); self.send(line_); }
        for i in 0..n {
            if i % 2 == 0 { self.send(format!("assoc {i} {}", names[0])); }
            if i % 3 == 0 || i + 1 == n { self.send(format!("assoc {i} {}", names[1])); }
        }
        if v2 { self.send(format!("build v2x {cks} {ec2} {ft} {unk}")); } else { self.send("build".into()); }
        self.send("q hdr".into());
        self.send("q tags".into());
        // generation 2: load, rebuild untouched
        self.send("frommanifest".into());
        self.send("build".into());
        self.send("q hdr".into());
        self.send("q tags".into());
        self.send("q total".into());
        // generation 3: load, edit, rebuild
        self.send("frommanifest".into());
        self.mut_edits(false, variant, false, 0, &names);
        self.send("build".into());
        self.send("q hdr".into());
        let nm: Vec<String> = names.to_vec();
        self.queries(false, &nm, false);
        self.end_case();
    }

    /// random program, build, from_manifest, random program on the loaded builder, build
    fn mutator_random(&mut self, download: bool, max_files: usize, max_tags: usize) {
        let (cks, flags) = self.begin(download);
        let pool: Vec<String> = (0..max_tags.max(1)).map(|i| {
            let base = ["Windows", "OSX", "x86_64", "enUS", "deDE", "t", "é", "Alt", "", "HighRes"];
            let s = if i < base.len() { base[i].to_string() } else { format!("tag{i}") };
            hex(s.as_bytes())
        }).collect();
        let mut live: Vec<String> = vec![];
        let gens = self.rng.range(2, 3);
        for g in 0..gens {
            let steps = self.rng.range(0, (max_files * 2 + max_tags * 2) as u64) as usize;
            let target_files = self.rng.range(0, max_files as u64) as usize;
            let target_tags = self.rng.range(1, max_tags as u64) as usize;
            self.random_steps(download, cks, flags, &pool, &mut live, steps, target_files, target_tags, false);
            if download && g > 0 && self.c.rf.version == 3 && self.rng.chance(1, 4) {
                // a configuration setter on the loaded builder
                let b = self.rng.below(256) as i64 - 128;
                self.send(format!("base {b}"));
            }
            self.send("masks".into());
            if !download && self.rng.chance(1, 3) {
                let line_ = format!("build v2x {} {} {} {}", self.rng.below(256), self.rng.next() & 0xFFFF_FFFF, self.rng.below(256), self.rng.below(256));
                self.send(line_);
            } else {
                self.send("build".into());
            }
            self.send("q hdr".into());
            if download { let b = i64::from(self.c.rf.base); self.prio_queries(b); }
            if g + 1 < gens {
                if self.send("frommanifest".into()) != "ok" { break; }
                live = self.c.rf.tags.iter().map(|t| hex(t.name.as_bytes())).collect();
                if self.rng.chance(1, 3) {
                    // untouched rebuild first
                    self.send("build".into());
                    self.send("q hdr".into());
                    self.send("frommanifest".into());
                }
            }
        }
        self.queries(download, &pool, false);
        self.end_case();
    }

    fn size_case(&mut self) {
        self.send("begin size".into());
        let nt = self.rng.range(0, 4) as usize;
        let ne = self.rng.range(0, 40) as usize;
        for i in 0..nt {
            let line_ = format!("tag {} {}", hex(format!("s{i}").as_bytes()), TAG_TYPES[self.rng.below(17) as usize]);
            self.send(line_);
        }
        let mut added = 0;
        for _ in 0..(ne + nt * 6) {
            if added < ne && self.rng.chance(1, 2) {
                self.send("sentry".into());
                added += 1;
            } else {
                // tag_file may name files that do not exist (yet); out-of-range tag index panics
                let ti = self.rng.below(nt as u64 + 1) as usize;
                let fi = self.rng.below(ne as u64 + 12) as usize;
                self.send(format!("stagfile {ti} {fi}"));
            }
        }
        self.send("sbuild".into());
        self.end_case();
    }

    /// whole SizeManifestBuilder: configuration setters in any position, explicit keys / esizes
    /// around the esize-width and 40-bit-total boundaries, serialise, re-parse, totals, truncation
    fn size_full_case(&mut self) {
        self.send("begin size".into());
        let version: u64 = match self.rng.below(30) { 0 => 0, 1 => 3, 2..=15 => 1, _ => 2 };
        let ekey: u64 = match self.rng.below(30) { 0 => 0, 1 => 17, 2..=4 => 16, 5..=7 => 1, _ => 9 };
        let width: u64 = match self.rng.below(30) { 0 => 0, 1 => 9, 2..=5 => 8, _ => self.rng.range(1, 8) };
        let mut cfg = vec![format!("sver {version}"), format!("sekey {ekey}"), format!("sesize {width}")];
        if self.rng.chance(1, 4) {
            cfg.push(format!("stagcount {}", if self.rng.chance(2, 3) { 0 } else { self.rng.below(3) }));
        }
        let nt = self.rng.range(0, 4) as usize;
        let ne = self.rng.range(0, 20) as usize;
        let w = if version == 1 { width.clamp(1, 8) } else { 4 };
        let lim: u64 = if w >= 8 { u64::MAX } else { (1u64 << (8 * w)) - 1 };
        let mut prog: Vec<String> = vec![];
        for i in 0..nt {
            let nm = ["Windows", "enUS", "é€", "x86_64"][i % 4];
            prog.push(format!("tag {} {}", hex(nm.as_bytes()), TAG_TYPES[self.rng.below(17) as usize]));
        }
        for _ in 0..ne {
            let klen = if self.rng.chance(1, 150) { ekey as usize + 1 } else { ekey as usize };
            self.key_ctr += 1;
            let mut k = self.rng.bytes(klen.max(1));
            k.truncate(klen);
            let e: u64 = match self.rng.below(14) {
                0 => 0,
                1 => lim,
                2 => if self.rng.chance(1, 12) { lim.wrapping_add(1) } else { lim },
                3 => lim / 2 + 1,
                4 if version == 2 => 0xFFFF_FFFF,
                5 if w >= 8 && self.rng.chance(1, 3) => 1u64 << 63,
                _ => self.rng.below(lim.min(1 << 20) + 1),
            };
            prog.push(format!("sentry {} {e}", hex(&k)));
        }
        for _ in 0..(nt * 5) {
            let ti = self.rng.below(nt as u64 + 1) as usize;
            let fi = self.rng.below(ne as u64 + 10) as usize;
            prog.push(format!("stagfile {ti} {fi}"));
        }
        // setters anywhere in the program; tag_file only after its tag exists is not required by the builder
        for c_ in cfg {
            let at = self.rng.below(prog.len() as u64 + 1) as usize;
            prog.insert(at, c_);
        }
        // keep every `tag` before the `stagfile`s that index it would need a sort; a panic is a valid outcome too
        for l in prog {
            self.send(l);
        }
        self.send("sbuild".into());
        let r = self.send("sser".into());
        if !r.starts_with("err") && r != "panic" {
            self.send("sreparse".into());
            self.send("sq tags".into());
            self.send("sq sizes".into());
            let bytes = self.c.bytes.clone();
            self.send(format!("parse {}", hex(&bytes)));
            let len = bytes.len();
            for cut in [len - 1, self.rng.below(len as u64) as usize] {
                self.send(format!("parse {}", hex(&bytes[..cut])));
            }
            // trailing bytes are ignored
            let mut t = bytes.clone();
            t.extend_from_slice(&[0xAA, 0xBB]);
            self.send(format!("parse {}", hex(&t)));
        }
        self.end_case();
    }

    fn utf8_name(&mut self) -> Vec<u8> {
        const POOL: [&[u8]; 30] = [
            b"A", b"Windows", b"", b"enUS", "é".as_bytes(), "€".as_bytes(), "😀".as_bytes(), "a€b😀c".as_bytes(),
            &[0xED, 0x9F, 0xBF], &[0xEE, 0x80, 0x80], &[0xF4, 0x8F, 0xBF, 0xBF], &[0xEF, 0xBF, 0xBF], &[0xC2, 0x80], &[0xDF, 0xBF],
            &[0xE0, 0xA0, 0x80], &[0xF0, 0x90, 0x80, 0x80],
            // malformed
            &[0xC0, 0x80], &[0xC1, 0xBF], &[0xED, 0xA0, 0x80], &[0xED, 0xBF, 0xBF], &[0xF4, 0x90, 0x80, 0x80], &[0xE2, 0x82], &[0x80], &[0xFF],
            &[0xF8, 0x88, 0x80, 0x80, 0x80], &[0xC3], &[0xE0, 0x80, 0x80], &[0xE0, 0x9F, 0xBF], &[0xF0, 0x8F, 0xBF, 0xBF], &[0x41, 0xC3, 0x28],
        ];
        match self.rng.below(10) {
            0 => { let n = self.rng.range(1, 5) as usize; self.rng.bytes(n).into_iter().map(|b| if b == 0 { 0x80 } else { b }).collect() }
            1..=5 => POOL[self.rng.below(16) as usize].to_vec(),
            6 => { let mut v = POOL[self.rng.below(16) as usize].to_vec(); v.extend_from_slice(POOL[self.rng.below(30) as usize]); v }
            _ => POOL[self.rng.below(30) as usize].to_vec(),
        }
    }

    /// hand-framed install / download / size manifests whose tag names and paths are arbitrary
    /// NUL-free byte strings (well-formed and malformed UTF-8): the parsers AS WRITTEN vs the model
    fn utf8_case(&mut self, fmt: u8) {
        self.send(match fmt { 0 => "begin install".to_string(), 1 => "begin download 1".to_string(), _ => "begin size".to_string() });
        let nt = self.rng.range(0, 3) as usize;
        let n = self.rng.range(0, 10) as usize;
        let all_valid = self.rng.chance(1, 3);
        let mut name = |g: &mut Self| loop {
            let v = g.utf8_name();
            if !all_valid || utf8_by_definition(&v) { return v; }
        };
        let msz = n.div_ceil(8);
        let mut tags: Vec<u8> = vec![];
        let mut names: Vec<Vec<u8>> = vec![];
        for _ in 0..nt {
            let nm = name(self);
            tags.extend_from_slice(&nm);
            tags.push(0);
            tags.extend_from_slice(&TAG_TYPES[self.rng.below(17) as usize].to_be_bytes());
            tags.extend(self.rng.bytes(msz));
            names.push(nm);
        }
        let mut b: Vec<u8> = vec![];
        match fmt {
            0 => {
                let v2 = self.rng.chance(1, 3);
                b.extend_from_slice(&[b'I', b'N', if v2 { 2 } else { 1 }, 16]);
                b.extend_from_slice(&(nt as u16).to_be_bytes());
                b.extend_from_slice(&(n as u32).to_be_bytes());
                if v2 { b.extend_from_slice(&[16, 0, 0, 0, n as u8, 0]); }
                b.extend_from_slice(&tags);
                for _ in 0..n {
                    let p = if self.rng.chance(1, 6) { name(self) } else { b"f/x.dat".to_vec() };
                    b.extend_from_slice(&p);
                    b.push(0);
                    b.extend(self.rng.bytes(16));
                    b.extend_from_slice(&(self.rng.below(1 << 20) as u32).to_be_bytes());
                    if v2 { b.push(1); }
                    names.push(p);
                }
            }
            1 => {
                let v = self.rng.range(1, 3) as u8;
                b.extend_from_slice(&[b'D', b'L', v, 16, 0]);
                b.extend_from_slice(&(n as u32).to_be_bytes());
                b.extend_from_slice(&(nt as u16).to_be_bytes());
                if v >= 2 { b.push(0); }
                if v >= 3 { b.extend_from_slice(&[0, 0, 0, 0]); }
                for _ in 0..n {
                    b.extend(self.rng.bytes(16));
                    b.extend_from_slice(&[0, 0, 0, 1, 0, 0]);
                }
                b.extend_from_slice(&tags);
            }
            _ => {
                b.extend_from_slice(&[b'D', b'S', 2, 9]);
                b.extend_from_slice(&(n as u32).to_be_bytes());
                b.extend_from_slice(&(nt as u16).to_be_bytes());
                b.extend_from_slice(&[0, 0, 0, 0, (n * 2) as u8]);
                b.extend_from_slice(&tags);
                for _ in 0..n {
                    b.extend(self.rng.bytes(9));
                    b.extend_from_slice(&[0, 0, 0, 2]);
                }
            }
        }
        for nm in &names {
            if nm.iter().any(|&x| x >= 0x80) {
                self.send(format!("utf8 {}", hex(nm)));
            }
        }
        self.send(format!("parse {}", hex(&b)));
        // `built_ok` is set by an accepting parse; a rejected manifest with a malformed name is non-trivial too
        let nontrivial = !names.is_empty();
        let key = self.c.lines.join("\n");
        self.s.case(if nontrivial { Some(&key) } else { None });
    }

    /// the UTF-8 validator alone: every 1-byte string, every 2-byte string with a non-ASCII lead,
    /// 3- and 4-byte strings around every boundary of table 3-7
    fn utf8_sweep(&mut self, thorough: bool) {
        self.send("begin install".into());
        for a in 0..=255u8 {
            self.send(format!("utf8 {}", hex(&[a])));
        }
        for a in 0x80..=0xFFu8 {
            for b in 0..=255u8 {
                if thorough || b % 3 == (a % 3) || [0x7F, 0x80, 0x8F, 0x90, 0x9F, 0xA0, 0xBF, 0xC0].contains(&b) {
                    self.send(format!("utf8 {}", hex(&[a, b])));
                }
            }
        }
        let edge = [0x00u8, 0x7F, 0x80, 0x8F, 0x90, 0x9F, 0xA0, 0xBF, 0xC0];
        for a in [0xE0u8, 0xE1, 0xEC, 0xED, 0xEE, 0xEF] {
            for &b in &edge { for &c_ in &edge { self.send(format!("utf8 {}", hex(&[a, b, c_]))); } }
        }
        for a in [0xF0u8, 0xF1, 0xF3, 0xF4, 0xF5] {
            for &b in &edge { for &c_ in &[0x7Fu8, 0x80, 0xBF, 0xC0] { for &d in &[0x7Fu8, 0x80, 0xBF, 0xC0] { self.send(format!("utf8 {}", hex(&[a, b, c_, d]))); } } }
        }
        for _ in 0..(if thorough { 20000 } else { 2000 }) {
            let n = self.rng.range(1, 8) as usize;
            let v = self.rng.bytes(n);
            self.send(format!("utf8 {}", hex(&v)));
        }
        let key = format!("utf8-sweep {}", self.c.lines.len());
        self.s.case(Some(&key));
    }
}

fn main() {
    let args = Args::parse();
    quiet_panics();
    let mut s = Session::new(&args.out);
    s.rule = "builder programs (add tag / add file / associate (by name, by index) / dissociate / remove file / remove tag, valid and rejected arguments) on InstallManifestBuilder, DownloadManifestBuilder (versions 1-3, checksums, flag sizes 0-4, base priority and priorities over -128..=127, sizes 0, 2^32-1, 2^32, 2^40-1, 2^40) and SizeManifestBuilder (mask part; whole builder: version 0-3, key size 0/1/9/16/17, esize width 0-9, tag_count setter, esizes at the width / 40-bit-total / u64 boundaries, serialise + re-parse + totals + truncations); hand-framed install/download/size manifests with well-formed and malformed UTF-8 names and paths, the UTF-8 validator on all 1-byte strings, 2-byte strings with a non-ASCII lead, table 3-7 boundaries and random strings; boundary family: every file count 0..=70 x removal positions {none, 0, 7, 8, 9, n-9, n-8, n-2, n-1} (every position for n <= 18) for install V1/V2 and download; random programs up to 70 files / 20 tags (thorough: also up to 300 files); after each build: re-parse, independent bit reader, per-tag / all-of / any-of / size / priority queries, truncated inputs; builder as mutator (from_manifest on the re-parsed manifest): download V1/V2/V3 x checksum switch x flag size 0-4 x base priority {-128,-127,-10,-5,-1,0,1,4,100,126,127} (V3) with non-zero entry flags/checksums and priorities on both sides of every effective-priority category boundary, install V1 and V2 (content_key_size {0,16,20,255}, entry_count_v2 {0,n,2^32-1}, unknown {0,1,255}, per-entry file-type bytes) x file counts {0,1,7,8,9,16,17}: build, load, rebuild without an edit (bytes must be identical), load, edit (add file + associate / remove file / remove + add tag / dissociate + associate / all), rebuild, and random two- and three-generation programs; after every generation the header fields, per-file attributes, effective priorities and every by-tag and by-priority selection are compared with the reference of the ORIGINAL program; non-trivial = the program reached a successful build with at least one tag and one file; distinct = full program text".into();
    let mut rng = Rng::new(args.seed);

    if let Some(p) = &args.replay {
        let mut c = Ctx::default();
        let mut any = false;
        for l in read_case(p) {
            let r = exec(&mut s, &mut c, &l);
            s.line(&l, &r);
            println!("impl  {l} -> {r}");
            any = true;
        }
        if any {
            let key = c.lines.join("\n");
            s.case(Some(&key));
        }
        s.finish();
        return;
    }

    let thorough = args.thorough();
    let mut g = Gen { s: &mut s, c: Ctx::default(), rng: &mut rng, key_ctr: 0 };
    // 1. boundary family
    for n in 0..=70usize {
        let mut ks: Vec<Option<usize>> = vec![None];
        if n > 0 {
            if n <= 18 || thorough && n <= 34 {
                ks.extend((0..n).map(Some));
            } else {
                for k in [0, 7, 8, 9, n - 9, n - 8, n - 2, n - 1] {
                    if !ks.contains(&Some(k)) { ks.push(Some(k)); }
                }
            }
            ks.push(Some(n)); // out of range
        }
        for k in ks {
            g.boundary_case(false, n, k, false);
            g.boundary_case(true, n, k, false);
            if n % 4 == 1 || thorough {
                g.boundary_case(false, n, k, true);
            }
        }
    }
    // 2. random programs
    let rounds = if thorough { 12000 } else { 260 };
    for r in 0..rounds {
        let download = r % 2 == 1;
        let big = thorough && r % 25 == 0;
        let max_files = if big { 300 } else if r % 3 == 0 { 70 } else { 20 };
        let max_tags = if r % 5 == 0 { 20 } else { 6 };
        let allow_dup = r % 20 == 7 || r % 20 == 12;
        g.random_case(download, max_files, max_tags, allow_dup);
    }
    // 3. size manifest builder (mask part)
    for _ in 0..(if thorough { 200 } else { 40 }) {
        g.size_case();
    }
    // 3b. whole size builder: setters, explicit entries, serialise / re-parse / totals
    for _ in 0..(if thorough { 3000 } else { 150 }) {
        g.size_full_case();
    }
    // V2 total around the 40-bit field: 256 x (2^32-1) fits, 257 x (2^32-1) does not
    for cnt in [256usize, 257] {
        g.send("begin size".into());
        g.send(format!("tag {} 1", hex(b"Windows")));
        for i in 0..cnt {
            let mut k = vec![0u8; 9];
            k[7..9].copy_from_slice(&(i as u16).to_be_bytes());
            g.send(format!("sentry {} 4294967295", hex(&k)));
        }
        g.send(format!("stagfile 0 {}", cnt - 1));
        g.send("sser".into());
        g.send("sreparse".into());
        g.send("sq tags".into());
        g.end_case();
    }
    // 3c. UTF-8 validation of names inside the three parsers, and the validator alone
    for r in 0..(if thorough { 6000 } else { 300 }) {
        g.utf8_case((r % 3) as u8);
    }
    g.utf8_sweep(thorough);
    // 4. configuration guards of the download builder
    for v in [0u64, 1, 2, 3, 4, 255, 256] {
        g.send(format!("begin download {v}"));
        for f in [0u64, 1, 4, 5, 255] {
            g.send(format!("flags {f}"));
        }
        for b in [-128i64, -1, 0, 1, 127] {
            g.send(format!("base {b}"));
        }
        g.send("setcks 0 1".into());
        g.send("setflags 0 00".into());
        g.send("build".into());
        g.end_case();
    }
    // builds that must be refused: checksums / flags switched on after files were added
    for v in [1u64, 2, 3] {
        g.send(format!("begin download {v}"));
        g.send(format!("dfile {} 10 0", hex(&[7u8; 16])));
        g.send("cks 1".into());
        g.send("build".into());
        g.send("setcks 0 5".into());
        g.send("build".into());
        g.send("flags 2".into());
        g.send("build".into());
        g.send("setflags 0 0102".into());
        g.send("setflags 0 01".into());
        g.send("setflags 3 0102".into());
        g.send("build".into());
        g.send("cks 0".into());
        g.send("build".into());
        g.end_case();
    }
    // 5. builder as mutator: from_manifest -> (no edit | edits) -> build -> serialise -> parse, every
    //    version x every version-specific header field off its default (appended after the older
    //    sections so that their random streams are unchanged)
    {
        let bases: [i64; 11] = [-128, -127, -10, -5, -1, 0, 1, 4, 100, 126, 127];
        let ns = [9usize, 1, 7, 8, 15, 16, 17, 0, 12];
        let mut idx = 0usize;
        for v in 1..=3u64 {
            let fss: &[u8] = if v == 1 { &[0] } else { &[0, 1, 2, 3, 4] };
            let bs: &[i64] = if v == 3 { &bases } else { &[0] };
            for &fs in fss {
                for &b in bs {
                    // quick: both checksum settings for V1/V2, alternating for V3; thorough: all
                    let ckss: &[bool] = if thorough || v < 3 { &[false, true] } else if idx % 2 == 0 { &[false] } else { &[true] };
                    for &cks in ckss {
                        let n = if b != 0 && idx % 3 == 0 { 9 } else { ns[idx % ns.len()] };
                        g.mutator_download(v, cks, fs, b, n, idx % 5);
                        idx += 1;
                    }
                }
            }
        }
        // manifests without entries: the header is the only place a switch / size / base lives
        for v in 1..=3u64 {
            for cks in [false, true] {
                for fs in (if v == 1 { vec![0u8] } else { vec![0u8, 2, 4] }) {
                    for b in (if v == 3 { vec![0i64, -10, 7] } else { vec![0i64] }) {
                        g.mutator_download(v, cks, fs, b, 0, idx % 5);
                        idx += 1;
                    }
                }
            }
        }
        // the documented presets: essential_content() = V3 base -10, streaming_optimized() = V3 flags 1 base -5
        g.mutator_download(3, false, 0, -10, 9, 0);
        g.mutator_download(3, true, 1, -5, 9, 4);
        let ckss = [0u8, 16, 20, 255];
        let unks = [0u8, 1, 255];
        let fts = [0u8, 1, 200, 255];
        for i in 0..(if thorough { 252 } else { 42 }) {
            let n = [0usize, 1, 7, 8, 9, 16, 17][i % 7];
            let ec2 = [0u32, n as u32, 0xFFFF_FFFF][(i / 3) % 3];
            g.mutator_install(n, i % 4 != 0, ckss[(i / 2) % 4], ec2, fts[(i / 5) % 4], unks[i % 3], i % 5);
        }
        for r in 0..(if thorough { 3000 } else { 120 }) {
            g.mutator_random(r % 2 == 1, if r % 3 == 0 { 40 } else { 12 }, if r % 5 == 0 { 12 } else { 5 });
        }
    }
    s.finish();
}
