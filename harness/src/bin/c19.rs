//! C19 — install / download / size manifest builders, tag bit masks and queries.
//! K: every request line is executed on the REAL builders / manifests (in-process) and on the Lean
//!    model (`drv_c19`); responses are diffed.  `read <hex>` feeds the bytes the real code
//!    serialised to the driver's independent MSB-first reader.
//! O: a reference set model (tag name -> BTreeSet of file indices, files as (size, priority))
//!    is advanced by the same lines; after every `build` and on every query the real code's
//!    answers are compared with it, and an independent walker over the serialised bytes checks
//!    the on-disk bit (7 - i%8 of byte i/8) of every file of every tag.
use cascette_crypto::{ContentKey, EncodingKey};
use cascette_formats::download::{
    DownloadError, DownloadManifest, DownloadManifestBuilder, PriorityCategory,
};
use cascette_formats::install::{
    InstallError, InstallHeader, InstallManifest, InstallManifestBuilder, TagType,
};
use cascette_formats::size::{SizeManifest, SizeManifestBuilder};
use std::collections::BTreeSet;
use std::panic::AssertUnwindSafe;
use verif_harness::*;

const TAG_TYPES: [u16; 17] = [
    0x0001, 0x0002, 0x0003, 0x0004, 0x0005, 0x0010, 0x0020, 0x0040, 0x0080, 0x0100, 0x0200, 0x0400,
    0x0800, 0x1000, 0x2000, 0x4000, 0x8000,
];

fn ierr(e: &InstallError) -> String {
    match e {
        InstallError::FileIndexOutOfBounds(_) => "err:file-oob".into(),
        InstallError::TagNotFound(s) if s.starts_with("Too many") => "err:too-many".into(),
        InstallError::TagNotFound(_) => "err:tag-not-found".into(),
        InstallError::BitMaskSizeMismatch { .. } => "err:mask-size".into(),
        InstallError::UnsupportedVersion(_) => "err:version".into(),
        _ => "err:other".into(),
    }
}

fn derr(e: &DownloadError) -> String {
    match e {
        DownloadError::FileIndexOutOfBounds(_) => "err:file-oob",
        DownloadError::TagNotFound(_) => "err:tag-not-found",
        DownloadError::FileSizeTooLarge(_) => "err:size",
        DownloadError::ChecksumsNotEnabled => "err:cks-not-enabled",
        DownloadError::MissingChecksum => "err:missing-cks",
        DownloadError::FlagsNotEnabled => "err:flags-not-enabled",
        DownloadError::MissingFlags => "err:missing-flags",
        DownloadError::InvalidFlagSize(..) => "err:flag-size",
        DownloadError::FlagsNotSupportedInVersion(_) => "err:flags-version",
        DownloadError::BasePriorityNotSupportedInVersion(_) => "err:base-version",
        DownloadError::UnsupportedFlagSize(_) => "err:flag-size-unsupported",
        DownloadError::UnsupportedVersion(_) => "err:version",
        DownloadError::BitMaskSizeMismatch => "err:mask-size",
        DownloadError::EntryCountMismatch(..) | DownloadError::TagCountMismatch(..) => "err:too-many",
        _ => "err:other",
    }
    .into()
}

fn idx_list(v: &[usize]) -> String {
    if v.is_empty() { "-".into() } else { v.iter().map(|i| i.to_string()).collect::<Vec<_>>().join(",") }
}

fn join_or(v: Vec<String>) -> String {
    if v.is_empty() { "-".into() } else { v.join(" ") }
}

fn name_of(h: &str) -> Option<String> {
    String::from_utf8(unhex(h)?).ok()
}

fn names_of(h: &str) -> Option<Vec<String>> {
    if h == "none" {
        return Some(vec![]);
    }
    h.split(',').map(name_of).collect()
}

// ---------------------------------------------------------------- reference set model (oracle)

#[derive(Clone)]
struct RefTag {
    name: String,
    set: BTreeSet<usize>,
}

#[derive(Clone, Default)]
struct RefModel {
    files: Vec<(u64, i8)>, // (size, priority)
    tags: Vec<RefTag>,
    dup: bool, // a second add_tag of a live name happened: tag names no longer identify tags
    version: u8,
    base: i8,
}

impl RefModel {
    fn tag(&self, name: &str) -> Option<&RefTag> {
        self.tags.iter().find(|t| t.name == name)
    }
    fn tag_mut(&mut self, name: &str) -> Option<&mut RefTag> {
        self.tags.iter_mut().find(|t| t.name == name)
    }
    fn add_tag(&mut self, name: &str) {
        if self.tag(name).is_some() {
            self.dup = true;
        } else {
            self.tags.push(RefTag { name: name.into(), set: BTreeSet::new() });
        }
    }
    /// expected result class of associate / dissociate
    fn expect_assoc(&self, i: usize, name: &str) -> &'static str {
        if i >= self.files.len() {
            "err:file-oob"
        } else if self.tag(name).is_none() {
            "err:tag-not-found"
        } else {
            "ok"
        }
    }
    fn remove_file(&mut self, k: usize) {
        self.files.remove(k);
        for t in &mut self.tags {
            t.set = t.set.iter().filter(|&&j| j != k).map(|&j| if j > k { j - 1 } else { j }).collect();
        }
    }
    fn all_of(&self, names: &[String]) -> Option<Vec<usize>> {
        let mut sets = vec![];
        for n in names {
            sets.push(&self.tag(n)?.set);
        }
        Some((0..self.files.len()).filter(|i| sets.iter().all(|s| s.contains(i))).collect())
    }
    fn any_of(&self, names: &[String]) -> Vec<usize> {
        let sets: Vec<_> = names.iter().filter_map(|n| self.tag(n)).map(|t| &t.set).collect();
        (0..self.files.len()).filter(|i| sets.iter().any(|s| s.contains(i))).collect()
    }
    fn eff(&self, p: i8) -> i8 {
        if self.version == 3 {
            (i16::from(p) - i16::from(self.base)).clamp(-128, 127) as i8
        } else {
            p
        }
    }
}

/// Independent walker over serialised manifest bytes: (name, type, file indices) per tag, reading
/// file i as bit (7 - i%8) of mask byte i/8. Shares nothing with the crate's parser.
fn raw_tags(b: &[u8]) -> Option<Vec<(Vec<u8>, u16, Vec<usize>)>> {
    let be = |s: &[u8]| s.iter().fold(0usize, |a, &x| a * 256 + x as usize);
    let (n, tag_count, mut pos, tags_first, esz);
    if b.len() >= 10 && &b[0..2] == b"IN" {
        tag_count = be(&b[4..6]);
        n = be(&b[6..10]);
        pos = if b[2] >= 2 { 16 } else { 10 };
        tags_first = true;
        esz = 0;
    } else if b.len() >= 11 && &b[0..2] == b"DL" {
        n = be(&b[5..9]);
        tag_count = be(&b[9..11]);
        let v = b[2];
        let fs = if v >= 2 { *b.get(11)? as usize } else { 0 };
        pos = match v { 1 => 11, 2 => 12, _ => 16 };
        esz = 22 + if b[4] != 0 { 4 } else { 0 } + fs;
        tags_first = false;
    } else {
        return None;
    }
    if !tags_first {
        pos += n * esz;
    }
    let msz = n.div_ceil(8);
    let mut out = vec![];
    for _ in 0..tag_count {
        let z = b.get(pos..)?.iter().position(|&x| x == 0)?;
        let name = b[pos..pos + z].to_vec();
        pos += z + 1;
        let typ = be(b.get(pos..pos + 2)?) as u16;
        pos += 2;
        let mask = b.get(pos..pos + msz)?;
        pos += msz;
        let files = (0..n).filter(|i| (mask[i / 8] >> (7 - i % 8)) & 1 == 1).collect();
        out.push((name, typ, files));
    }
    Some(out)
}

// ---------------------------------------------------------------- execution context

#[derive(Clone)]
enum SizeOp {
    Tag(String, TagType),
    TagFile(usize, usize),
    Entry,
}

#[derive(Default)]
struct Ctx {
    mode: u8,
    ib: Option<InstallManifestBuilder>,
    db: Option<DownloadManifestBuilder>,
    size_ops: Vec<SizeOp>,
    im: Option<InstallManifest>,
    dm: Option<DownloadManifest>,
    bytes: Vec<u8>,
    rf: RefModel,
    lines: Vec<String>,
    built_ok: bool,
}

fn size_builder(ops: &[SizeOp]) -> SizeManifestBuilder {
    let mut b = SizeManifestBuilder::new();
    let mut k = 0u32;
    for op in ops {
        b = match op {
            SizeOp::Tag(n, t) => b.add_tag(n.clone(), *t),
            SizeOp::TagFile(t, f) => b.tag_file(*t, *f),
            SizeOp::Entry => {
                k += 1;
                let mut key = vec![0u8; 9];
                key[5..9].copy_from_slice(&k.to_be_bytes());
                b.add_entry(key, u64::from(k) * 3)
            }
        };
    }
    b
}

fn fail(s: &mut Session, c: &Ctx, sig: &str, msg: String) {
    // once a live tag name was added twice, names no longer identify tags: every check that goes
    // through a name is reported under the one recorded signature; checks that do not depend on
    // tag identity keep their own.
    const KEEP: [&str; 10] = ["mask-len", "reparse", "u40", "prio-roundtrip", "prio-filter", "file-size", "header", "mask-combine", "file-count", "build-fails"];
    let sig = if c.rf.dup && !KEEP.contains(&sig) { "tag-set-dupname" } else { sig };
    s.oracle_fail(sig, &msg, &c.lines);
}

fn mask_line(name: &str, typ: u16, mask: &[u8]) -> String {
    format!("{}:{}:{}", hex(name.as_bytes()), typ, hex(mask))
}

fn tag_lines(tags: &[cascette_formats::install::InstallTag], n: usize) -> String {
    join_or(tags.iter().map(|t| format!("{}:{}:{}", hex(t.name.as_bytes()), t.tag_type as u16, idx_list(&t.get_files(n)))).collect())
}

/// whole-manifest oracle after a successful build + re-parse
fn oracle_manifest(s: &mut Session, c: &Ctx, tags: &[cascette_formats::install::InstallTag], n: usize) {
    let rf = &c.rf;
    if n != rf.files.len() {
        fail(s, c, "file-count", format!("manifest has {n} entries, reference {}", rf.files.len()));
        return;
    }
    // mask length
    for t in tags {
        if t.bit_mask.len() != n.div_ceil(8) {
            fail(s, c, "mask-len", format!("tag {:?}: mask {} bytes for {n} files", t.name, t.bit_mask.len()));
        }
    }
    if !rf.dup && tags.len() != rf.tags.len() {
        fail(s, c, "tag-count", format!("manifest has {} tags, reference {}", tags.len(), rf.tags.len()));
        return;
    }
    // per tag name: first tag of that name in the manifest (what every by-name query uses)
    for rt in &rf.tags {
        match tags.iter().find(|t| t.name == rt.name) {
            None => fail(s, c, "tag-set", format!("tag {:?} missing from the manifest", rt.name)),
            Some(t) => {
                let got: Vec<usize> = (0..n).filter(|&i| t.has_file(i)).collect();
                let want: Vec<usize> = rt.set.iter().copied().collect();
                if got != want {
                    fail(s, c, "tag-set", format!("tag {:?} reports files {} but {} were associated (n={n})", rt.name, idx_list(&got), idx_list(&want)));
                }
            }
        }
    }
    // independent reader of the bytes: MSB-first on disk
    match raw_tags(&c.bytes) {
        None => fail(s, c, "msb-bit", "independent reader cannot walk the serialised manifest".into()),
        Some(raw) => {
            if raw.len() != tags.len() {
                fail(s, c, "msb-bit", format!("independent reader sees {} tags, manifest has {}", raw.len(), tags.len()));
            }
            for rt in &rf.tags {
                if let Some((_, _, files)) = raw.iter().find(|(nm, _, _)| nm == rt.name.as_bytes()) {
                    let want: Vec<usize> = rt.set.iter().copied().collect();
                    if *files != want {
                        fail(s, c, "msb-bit", format!("on-disk bits (MSB first) of tag {:?} give files {} but {} were associated (n={n})", rt.name, idx_list(files), idx_list(&want)));
                    }
                }
            }
        }
    }
}

fn exec(s: &mut Session, c: &mut Ctx, line: &str) -> String {
    let toks: Vec<&str> = line.split(' ').filter(|t| !t.is_empty()).collect();
    if toks.first() == Some(&"begin") {
        *c = Ctx::default();
    }
    c.lines.push(line.to_string());
    s.tally(&format!("op.{}", if toks.first() == Some(&"q") && toks.len() > 1 { format!("q.{}", toks[1]) } else { toks.first().unwrap_or(&"").to_string() }));
    let r = exec_inner(s, c, &toks);
    r.unwrap_or_else(|| "bad-op".into())
}

fn exec_inner(s: &mut Session, c: &mut Ctx, toks: &[&str]) -> Option<String> {
    let r: String = match toks {
        ["begin", "install"] => {
            c.mode = 1;
            c.ib = Some(InstallManifestBuilder::new());
            c.rf.version = 1;
            "ok".into()
        }
        ["begin", "download", v] => {
            let v: u64 = v.parse().ok()?;
            c.mode = 2;
            match u8::try_from(v).map_err(|_| DownloadError::UnsupportedVersion(0)).and_then(DownloadManifestBuilder::new) {
                Ok(b) => {
                    c.db = Some(b);
                    c.rf.version = v as u8;
                    "ok".into()
                }
                Err(e) => derr(&e),
            }
        }
        ["begin", "size"] => {
            c.mode = 3;
            "ok".into()
        }
        ["cks", v] => {
            let v: u64 = v.parse().ok()?;
            match c.db.take() {
                Some(b) => {
                    c.db = Some(b.with_checksums(v != 0));
                    "ok".into()
                }
                None => "no-builder".into(),
            }
        }
        ["flags", v] => {
            let v: u64 = v.parse().ok()?;
            match c.db.clone() {
                Some(b) => match u8::try_from(v).map_err(|_| DownloadError::UnsupportedFlagSize(255)).and_then(|v| b.with_flags(v)) {
                    Ok(b) => {
                        c.db = Some(b);
                        "ok".into()
                    }
                    Err(e) => derr(&e),
                },
                None => "no-builder".into(),
            }
        }
        ["base", v] => {
            let v: i8 = v.parse().ok()?;
            match c.db.clone() {
                Some(b) => match b.with_base_priority(v) {
                    Ok(b) => {
                        c.db = Some(b);
                        c.rf.base = v;
                        "ok".into()
                    }
                    Err(e) => derr(&e),
                },
                None => "no-builder".into(),
            }
        }
        ["tag", name, typ] => {
            let name = name_of(name)?;
            let typ: u16 = typ.parse().ok()?;
            let tt = TagType::from_u16(typ)?;
            match c.mode {
                1 => {
                    let b = c.ib.take()?;
                    c.ib = Some(b.add_tag(name.clone(), tt));
                    c.rf.add_tag(&name);
                    "ok".into()
                }
                2 => match c.db.take() {
                    Some(b) => {
                        c.db = Some(b.add_tag(name.clone(), tt));
                        c.rf.add_tag(&name);
                        "ok".into()
                    }
                    None => "no-builder".into(),
                },
                3 => {
                    c.size_ops.push(SizeOp::Tag(name, tt));
                    "ok".into()
                }
                _ => return None,
            }
        }
        ["file", path, key, size] => {
            let path = name_of(path)?;
            let key: [u8; 16] = unhex(key)?.try_into().ok()?;
            let size: u32 = size.parse().ok()?;
            if c.mode != 1 {
                return None;
            }
            let b = c.ib.take()?;
            c.ib = Some(b.add_file(path, ContentKey::from_bytes(key), size));
            c.rf.files.push((u64::from(size), 0));
            "ok".into()
        }
        ["dfile", key, size, prio] => {
            let key: [u8; 16] = unhex(key)?.try_into().ok()?;
            let size: u64 = size.parse().ok()?;
            let prio: i8 = prio.parse().ok()?;
            match c.db.clone() {
                Some(b) => match b.add_file(EncodingKey::from_bytes(key), size, prio) {
                    Ok(b) => {
                        c.db = Some(b);
                        if size > 0xFF_FFFF_FFFF {
                            fail(s, c, "u40", format!("size {size} > 2^40-1 accepted"));
                        }
                        c.rf.files.push((size, prio));
                        "ok".into()
                    }
                    Err(e) => {
                        if size <= 0xFF_FFFF_FFFF {
                            fail(s, c, "u40", format!("size {size} <= 2^40-1 rejected"));
                        }
                        derr(&e)
                    }
                },
                None => "no-builder".into(),
            }
        }
        ["setcks", i, v] => {
            let i: usize = i.parse().ok()?;
            let v: u32 = v.parse().ok()?;
            match c.db.clone() {
                Some(b) => match b.set_file_checksum(i, v) {
                    Ok(b) => {
                        c.db = Some(b);
                        "ok".into()
                    }
                    Err(e) => derr(&e),
                },
                None => "no-builder".into(),
            }
        }
        ["setflags", i, f] => {
            let i: usize = i.parse().ok()?;
            let f = unhex(f)?;
            match c.db.clone() {
                Some(b) => match b.set_file_flags(i, f) {
                    Ok(b) => {
                        c.db = Some(b);
                        "ok".into()
                    }
                    Err(e) => derr(&e),
                },
                None => "no-builder".into(),
            }
        }
        [op @ ("assoc" | "dissoc"), i, name] => {
            let i: usize = i.parse().ok()?;
            let name = name_of(name)?;
            let add = *op == "assoc";
            let r = match c.mode {
                1 => {
                    let b = c.ib.as_ref()?.snapshot();
                    let r = catch(AssertUnwindSafe(|| if add { b.associate_file_with_tag(i, &name) } else { b.remove_file_from_tag(i, &name) }));
                    match r {
                        Ok(Ok(b)) => {
                            c.ib = Some(b);
                            "ok".to_string()
                        }
                        Ok(Err(e)) => ierr(&e),
                        Err(_) => "panic".into(),
                    }
                }
                _ => match c.db.clone() {
                    Some(b) => {
                        let r = catch(AssertUnwindSafe(|| if add { b.associate_file_with_tag(i, &name) } else { b.disassociate_file_from_tag(i, &name) }));
                        match r {
                            Ok(Ok(b)) => {
                                c.db = Some(b);
                                "ok".to_string()
                            }
                            Ok(Err(e)) => derr(&e),
                            Err(_) => "panic".into(),
                        }
                    }
                    None => return Some("no-builder".into()),
                },
            };
            let want = c.rf.expect_assoc(i, &name);
            if r != want {
                fail(s, c, "op-result", format!("{op} {i} {name:?}: builder answered {r}, expected {want}"));
            }
            if want == "ok" {
                if let Some(t) = c.rf.tag_mut(&name) {
                    if add { t.set.insert(i); } else { t.set.remove(&i); }
                }
            }
            r
        }
        ["associdx", i, ti] => {
            let i: usize = i.parse().ok()?;
            let ti: usize = ti.parse().ok()?;
            if c.mode != 1 {
                return None;
            }
            let b = c.ib.as_ref()?.snapshot();
            match b.associate_file_with_tag_by_index(i, ti) {
                Ok(b) => {
                    c.ib = Some(b);
                    // by-index association: the reference is keyed by position while names are unique
                    if !c.rf.dup {
                        if let Some(t) = c.rf.tags.get_mut(ti) { t.set.insert(i); }
                    }
                    "ok".into()
                }
                Err(e) => ierr(&e),
            }
        }
        ["rmfile", k] => {
            let k: usize = k.parse().ok()?;
            let n = c.rf.files.len();
            let r = match c.mode {
                1 => {
                    let b = c.ib.as_ref()?.snapshot();
                    match catch(AssertUnwindSafe(|| b.remove_file(k))) {
                        Ok(Ok(b)) => {
                            c.ib = Some(b);
                            "ok".to_string()
                        }
                        Ok(Err(e)) => ierr(&e),
                        Err(_) => "panic".into(),
                    }
                }
                _ => match c.db.clone() {
                    Some(mut b) => match catch(AssertUnwindSafe(|| { let r = b.remove_file(k); (b, r) })) {
                        Ok((b, r)) => {
                            c.db = Some(b);
                            if r { "ok".to_string() } else { "no".into() }
                        }
                        Err(_) => "panic".into(),
                    },
                    None => return Some("no-builder".into()),
                },
            };
            let want_ok = k < n;
            if (r == "ok") != want_ok {
                fail(s, c, "op-result", format!("rmfile {k} with {n} files answered {r}"));
            }
            if want_ok {
                c.rf.remove_file(k);
            }
            r
        }
        ["rmtag", name] => {
            let name = name_of(name)?;
            let r = match c.mode {
                1 => {
                    let b = c.ib.as_ref()?.snapshot();
                    match catch(AssertUnwindSafe(|| b.remove_tag(&name))) {
                        Ok(Ok(b)) => {
                            c.ib = Some(b);
                            "ok".to_string()
                        }
                        Ok(Err(e)) => ierr(&e),
                        Err(_) => "panic".into(),
                    }
                }
                _ => match c.db.clone() {
                    Some(mut b) => match catch(AssertUnwindSafe(|| { let r = b.remove_tag(&name); (b, r) })) {
                        Ok((b, r)) => {
                            c.db = Some(b);
                            if r { "ok".to_string() } else { "no".into() }
                        }
                        Err(_) => "panic".into(),
                    },
                    None => return Some("no-builder".into()),
                },
            };
            let want_ok = c.rf.tag(&name).is_some();
            if (r == "ok") != want_ok {
                fail(s, c, "op-result", format!("rmtag {name:?} answered {r}, tag present in reference: {want_ok}"));
            }
            if r == "ok" {
                if let Some(p) = c.rf.tags.iter().position(|t| t.name == name) {
                    c.rf.tags.remove(p);
                }
            }
            r
        }
        ["masks"] => {
            let (n, tags) = match c.mode {
                1 => match c.ib.as_ref()?.snapshot().build() {
                    Ok(m) => (m.entries.len(), m.tags),
                    Err(e) => {
                        let r = ierr(&e);
                        if r == "err:mask-size" {
                            fail(s, c, "mask-len", "builder state fails validate(): a tag mask is not ceil(n/8) bytes".into());
                        }
                        return Some(r);
                    }
                },
                2 => match c.db.clone() {
                    Some(b) => match b.build() {
                        Ok(m) => (m.entries.len(), m.tags),
                        Err(e) => {
                            let r = derr(&e);
                            if r == "err:mask-size" {
                                fail(s, c, "mask-len", "builder state fails validate(): a tag mask is not ceil(n/8) bytes".into());
                            }
                            return Some(r);
                        }
                    },
                    None => return Some("no-builder".into()),
                },
                _ => return None,
            };
            for t in &tags {
                if t.bit_mask.len() != n.div_ceil(8) {
                    fail(s, c, "mask-len", format!("tag {:?}: mask {} bytes for {n} files", t.name, t.bit_mask.len()));
                }
            }
            format!("{n} {}", join_or(tags.iter().map(|t| mask_line(&t.name, t.tag_type as u16, &t.bit_mask)).collect()))
        }
        ["build", rest @ ..] => match c.mode {
            1 => {
                let built = c.ib.as_ref()?.snapshot().build();
                match built {
                    Err(e) => {
                        let r = ierr(&e);
                        fail(s, c, if r == "err:mask-size" { "mask-len" } else { "build-fails" }, format!("install build failed: {e}"));
                        r
                    }
                    Ok(mut m) => {
                        match rest {
                            [] => {}
                            ["v2", cks, ec2, ft] => {
                                let (cks, ec2, ft): (u8, u32, u8) = (cks.parse().ok()?, ec2.parse().ok()?, ft.parse().ok()?);
                                m.header = InstallHeader::new_v2(m.header.tag_count, m.header.entry_count, cks, ec2);
                                for e in &mut m.entries {
                                    e.file_type = Some(ft);
                                }
                            }
                            _ => return None,
                        }
                        let bytes = m.build().ok()?;
                        c.bytes = bytes.clone();
                        c.dm = None;
                        c.im = InstallManifest::parse(&bytes).ok();
                        match &c.im {
                            None => fail(s, c, "reparse", "built install manifest does not parse".into()),
                            Some(p) => {
                                if *p != m {
                                    fail(s, c, "reparse", "parse(build(m)) != m".into());
                                }
                                for (i, e) in p.entries.iter().enumerate() {
                                    if c.rf.files.get(i).map(|f| f.0) != Some(u64::from(e.file_size)) {
                                        fail(s, c, "file-size", format!("entry {i} size {} differs from the reference", e.file_size));
                                    }
                                }
                                let (tags, n) = (p.tags.clone(), p.entries.len());
                                oracle_manifest(s, c, &tags, n);
                                c.built_ok = true;
                            }
                        }
                        hex(&bytes)
                    }
                }
            }
            2 => match c.db.clone() {
                None => "no-builder".into(),
                Some(b) => match b.build() {
                    Err(e) => {
                        let r = derr(&e);
                        if r == "err:mask-size" {
                            fail(s, c, "mask-len", format!("download build failed: {e}"));
                        }
                        r
                    }
                    Ok(m) => match m.build() {
                        Err(e) => {
                            fail(s, c, "build-fails", format!("DownloadManifest::build failed after builder.build(): {e}"));
                            derr(&e)
                        }
                        Ok(bytes) => {
                            c.bytes = bytes.clone();
                            c.im = None;
                            c.dm = DownloadManifest::parse(&bytes).ok();
                            match &c.dm {
                                None => fail(s, c, "reparse", "built download manifest does not parse".into()),
                                Some(p) => {
                                    if *p != m {
                                        fail(s, c, "reparse", "parse(build(m)) != m".into());
                                    }
                                    for (i, e) in p.entries.iter().enumerate() {
                                        let want = c.rf.files.get(i).copied();
                                        if want.map(|f| f.0) != Some(e.file_size.as_u64()) {
                                            fail(s, c, "u40", format!("entry {i}: 40-bit size {} after round trip, added {:?}", e.file_size.as_u64(), want));
                                        }
                                        if want.map(|f| f.1) != Some(e.priority) {
                                            fail(s, c, "prio-roundtrip", format!("entry {i}: priority {} after round trip, added {:?}", e.priority, want));
                                        }
                                    }
                                    if p.header.version() != c.rf.version || p.header.base_priority() != c.rf.base {
                                        fail(s, c, "header", format!("version/base priority {}/{} differ from configuration {}/{}", p.header.version(), p.header.base_priority(), c.rf.version, c.rf.base));
                                    }
                                    let (tags, n) = (p.tags.clone(), p.entries.len());
                                    oracle_manifest(s, c, &tags, n);
                                    c.built_ok = true;
                                }
                            }
                            hex(&bytes)
                        }
                    },
                },
            },
            _ => return None,
        },
        ["reparse"] => match c.mode {
            1 => match &c.im {
                Some(m) => format!("ok tags={} entries={} same={}", m.tags.len(), m.entries.len(), u8::from(m.build().ok().as_deref() == Some(&c.bytes[..]))),
                None => "err".into(),
            },
            2 => match &c.dm {
                Some(m) => format!("ok tags={} entries={} same={}", m.tags.len(), m.entries.len(), u8::from(m.build().ok().as_deref() == Some(&c.bytes[..]))),
                None => "err".into(),
            },
            _ => return None,
        },
        ["trunc", n] => {
            let n: usize = n.parse().ok()?;
            let cut = &c.bytes[..n.min(c.bytes.len())];
            match c.mode {
                1 => if InstallManifest::parse(cut).is_ok() { "ok".into() } else { "err".into() },
                2 => if DownloadManifest::parse(cut).is_ok() { "ok".into() } else { "err".into() },
                _ => return None,
            }
        }
        ["read", h] => {
            let b = unhex(h)?;
            if b.starts_with(b"IN") {
                match InstallManifest::parse(&b) {
                    Ok(m) => tag_lines(&m.tags, m.entries.len()),
                    Err(_) => "err".into(),
                }
            } else if b.starts_with(b"DL") {
                match DownloadManifest::parse(&b) {
                    Ok(m) => tag_lines(&m.tags, m.entries.len()),
                    Err(_) => "err".into(),
                }
            } else {
                "err".into()
            }
        }
        ["q", "tags"] => match (&c.im, &c.dm) {
            (Some(m), _) => tag_lines(&m.tags, m.entries.len()),
            (None, Some(m)) => tag_lines(&m.tags, m.entries.len()),
            _ => "no-manifest".into(),
        },
        ["q", "tag", name] => {
            let name = name_of(name)?;
            let got: Vec<usize> = match (&c.im, &c.dm) {
                (Some(m), _) => m.get_files_for_tag(&name).iter().map(|p| p.0).collect(),
                (None, Some(m)) => m.entries_by_tag(&name).iter().map(|p| p.0).collect(),
                _ => return Some("no-manifest".into()),
            };
            let want: Vec<usize> = c.rf.tag(&name).map(|t| t.set.iter().copied().collect()).unwrap_or_default();
            if got != want {
                fail(s, c, "tag-set", format!("query tag {name:?}: got {}, associated {}", idx_list(&got), idx_list(&want)));
            }
            idx_list(&got)
        }
        ["q", "all", names] => {
            let names = names_of(names)?;
            let refs: Vec<&str> = names.iter().map(String::as_str).collect();
            let got: Vec<usize> = match (&c.im, &c.dm) {
                (Some(m), _) => m.get_files_for_tags(&refs).iter().map(|p| p.0).collect(),
                (None, Some(m)) => m.entries_by_tags(&refs).iter().map(|p| p.0).collect(),
                _ => return Some("no-manifest".into()),
            };
            if !names.is_empty() {
                // every name known: the intersection; some name unknown: nothing
                let want = c.rf.all_of(&names).unwrap_or_default();
                if got != want {
                    fail(s, c, "all-of", format!("all-of {names:?}: got {}, intersection of associated sets {}", idx_list(&got), idx_list(&want)));
                }
            }
            idx_list(&got)
        }
        ["q", "any", names] => {
            let names = names_of(names)?;
            let refs: Vec<&str> = names.iter().map(String::as_str).collect();
            let m = match &c.im { Some(m) => m, None => return Some("no-manifest".into()) };
            let got: Vec<usize> = m.get_files_for_any_tag(&refs).iter().map(|p| p.0).collect();
            let want = c.rf.any_of(&names);
            if got != want {
                fail(s, c, "any-of", format!("any-of {names:?}: got {}, union of associated sets {}", idx_list(&got), idx_list(&want)));
            }
            idx_list(&got)
        }
        ["q", "size", names] => {
            let names = names_of(names)?;
            let refs: Vec<&str> = names.iter().map(String::as_str).collect();
            let got: u64 = match (&c.im, &c.dm) {
                (Some(m), _) => m.calculate_install_size(&refs),
                (None, Some(m)) => m.calculate_size_for_tags(&refs),
                _ => return Some("no-manifest".into()),
            };
            if !names.is_empty() {
                let want: u64 = c.rf.all_of(&names).unwrap_or_default().iter().map(|&i| c.rf.files[i].0).sum();
                if got != want {
                    fail(s, c, "size-by-tags", format!("size for {names:?}: got {got}, sum over the associated intersection {want}"));
                }
            }
            got.to_string()
        }
        ["q", "total"] => {
            let got: u64 = match (&c.im, &c.dm) {
                (Some(m), _) => m.total_install_size(),
                (None, Some(m)) => m.total_download_size(),
                _ => return Some("no-manifest".into()),
            };
            let want: u64 = c.rf.files.iter().map(|f| f.0).sum();
            if got != want {
                fail(s, c, "size-sum", format!("total size {got}, sum of added sizes {want}"));
            }
            got.to_string()
        }
        ["q", "prio", cat] => {
            let cat: usize = cat.parse().ok()?;
            let pc = *[PriorityCategory::Critical, PriorityCategory::Essential, PriorityCategory::High, PriorityCategory::Normal, PriorityCategory::Low].get(cat)?;
            let m = match &c.dm { Some(m) => m, None => return Some("no-manifest".into()) };
            let got: Vec<usize> = m.entries_by_priority(pc).iter().map(|p| p.0).collect();
            let class = |p: i8| match p { i8::MIN..=-1 => 0, 0 => 1, 1..=2 => 2, 3..=5 => 3, _ => 4 };
            let want: Vec<usize> = (0..c.rf.files.len()).filter(|&i| class(c.rf.eff(c.rf.files[i].1)) == cat).collect();
            if got != want {
                fail(s, c, "prio-filter", format!("priority category {cat}: got {}, expected {}", idx_list(&got), idx_list(&want)));
            }
            idx_list(&got)
        }
        ["q", "prange", lo, hi] => {
            let (lo, hi): (i8, i8) = (lo.parse().ok()?, hi.parse().ok()?);
            let m = match &c.dm { Some(m) => m, None => return Some("no-manifest".into()) };
            let got: Vec<usize> = m.entries_by_priority_range(lo, hi).iter().map(|p| p.0).collect();
            let want: Vec<usize> = (0..c.rf.files.len()).filter(|&i| { let e = c.rf.eff(c.rf.files[i].1); lo <= e && e <= hi }).collect();
            if got != want {
                fail(s, c, "prio-filter", format!("priority range {lo}..={hi}: got {}, expected {}", idx_list(&got), idx_list(&want)));
            }
            idx_list(&got)
        }
        ["q", "ess"] => {
            let m = match &c.dm { Some(m) => m, None => return Some("no-manifest".into()) };
            let got = m.essential_download_size();
            let want: u64 = c.rf.files.iter().filter(|f| c.rf.eff(f.1) <= 0).map(|f| f.0).sum();
            if got != want {
                fail(s, c, "size-sum", format!("essential size {got}, sum over effective priority <= 0: {want}"));
            }
            got.to_string()
        }
        ["q", op @ ("inter" | "union"), a, b] => {
            let (a, b) = (name_of(a)?, name_of(b)?);
            let m = match &c.im { Some(m) => m, None => return Some("no-manifest".into()) };
            match (m.find_tag(&a), m.find_tag(&b)) {
                (Some(ta), Some(tb)) => {
                    let out = if *op == "inter" { ta.intersect(tb) } else { ta.union(tb) };
                    // O: the combined mask selects the intersection / union of the two file sets
                    let n = m.entries.len();
                    let t = cascette_formats::install::InstallTag { name: String::new(), tag_type: TagType::Category, bit_mask: out.clone() };
                    for i in 0..n {
                        let want = if *op == "inter" { ta.has_file(i) && tb.has_file(i) } else { ta.has_file(i) || tb.has_file(i) };
                        if t.has_file(i) != want {
                            fail(s, c, "mask-combine", format!("{op} of {a:?},{b:?}: file {i} wrong"));
                            break;
                        }
                    }
                    hex(&out)
                }
                _ => "no-tag".into(),
            }
        }
        ["stagfile", ti, fi] => {
            let (ti, fi): (usize, usize) = (ti.parse().ok()?, fi.parse().ok()?);
            if c.mode != 3 {
                return None;
            }
            let mut ops = c.size_ops.clone();
            ops.push(SizeOp::TagFile(ti, fi));
            match catch(AssertUnwindSafe(|| { let _ = size_builder(&ops); })) {
                Ok(()) => {
                    c.size_ops = ops;
                    "ok".into()
                }
                Err(_) => "panic".into(),
            }
        }
        ["sentry"] => {
            if c.mode != 3 {
                return None;
            }
            c.size_ops.push(SizeOp::Entry);
            "ok".into()
        }
        ["sbuild"] => {
            if c.mode != 3 {
                return None;
            }
            match size_builder(&c.size_ops).build() {
                Ok(m) => {
                    let n = m.entries.len();
                    // O: every tagged file below the entry count survives build + serialise + parse
                    let mut want: Vec<BTreeSet<usize>> = vec![];
                    for op in &c.size_ops {
                        match op {
                            SizeOp::Tag(..) => want.push(BTreeSet::new()),
                            SizeOp::TagFile(t, f) => { want[*t].insert(*f); }
                            SizeOp::Entry => {}
                        }
                    }
                    let parsed = m.build().ok().and_then(|b| SizeManifest::parse(&b).ok());
                    match parsed {
                        None => fail(s, c, "reparse", "built size manifest does not serialise/parse".into()),
                        Some(p) => {
                            for (t, w) in p.tags.iter().zip(&want) {
                                let got: Vec<usize> = (0..n).filter(|&i| t.has_file(i)).collect();
                                let w: Vec<usize> = w.iter().copied().filter(|&i| i < n).collect();
                                if got != w || t.bit_mask.len() != n.div_ceil(8) {
                                    fail(s, c, "size-tag-set", format!("size manifest tag {:?}: files {} (mask {} bytes), tagged {}", t.name, idx_list(&got), t.bit_mask.len(), idx_list(&w)));
                                }
                            }
                            c.built_ok = true;
                        }
                    }
                    format!("{n} {}", join_or(m.tags.iter().map(|t| mask_line(&t.name, t.tag_type as u16, &t.bit_mask)).collect()))
                }
                Err(_) => "err".into(),
            }
        }
        _ => return None,
    };
    Some(r)
}

// ---------------------------------------------------------------- generators

struct Gen<'a> {
    s: &'a mut Session,
    c: Ctx,
    rng: &'a mut Rng,
    key_ctr: u64,
}

impl Gen<'_> {
    fn send(&mut self, line: String) -> String {
        let r = exec(self.s, &mut self.c, &line);
        self.s.line(&line, &r);
        r
    }
    fn end_case(&mut self) {
        let nontrivial = self.c.built_ok && !self.c.rf.tags.is_empty() && (!self.c.rf.files.is_empty() || self.c.mode == 3);
        let key = self.c.lines.join("\n");
        self.s.case(if nontrivial { Some(&key) } else { None });
    }
    fn key(&mut self) -> String {
        self.key_ctr += 1;
        let mut k = self.rng.bytes(16);
        k[..8].copy_from_slice(&self.key_ctr.to_be_bytes());
        hex(&k)
    }
    fn add_file(&mut self, download: bool, cks: bool, flags: u8) {
        if download {
            let size = match self.rng.below(12) {
                0 => 0,
                1 => 0xFFFF_FFFF,
                2 => 0x1_0000_0000,
                3 => 0xFF_FFFF_FFFF,
                4 => 0x100_0000_0000, // rejected
                5 => self.rng.next() & 0xFF_FFFF_FFFF,
                _ => self.rng.below(1 << 20),
            };
            let prio: i64 = match self.rng.below(10) {
                0 => -128,
                1 => 127,
                2 => -1,
                3 => 0,
                4 => self.rng.range(1, 6) as i64,
                _ => self.rng.below(256) as i64 - 128,
            };
            let k = self.key();
            let r = self.send(format!("dfile {k} {size} {prio}"));
            if r == "ok" {
                let i = self.c.rf.files.len() - 1;
                if cks {
                    let v = self.rng.next() & 0xFFFF_FFFF;
                    self.send(format!("setcks {i} {v}"));
                }
                if flags > 0 && self.rng.chance(1, 2) {
                    let f = self.rng.bytes(flags as usize);
                    self.send(format!("setflags {i} {}", hex(&f)));
                }
            }
        } else {
            let size = match self.rng.below(8) { 0 => 0, 1 => 0xFFFF_FFFFu64, _ => self.rng.below(1 << 24) };
            let plen = self.rng.range(1, 6) as usize;
            let path: Vec<u8> = (0..plen).map(|_| b"abcdefghijklmnopqrstuvwxyz0123456789/._\\"[self.rng.below(40) as usize]).collect();
            let k = self.key();
            self.send(format!("file {} {k} {size}", hex(&path)));
        }
    }
    fn begin(&mut self, download: bool) -> (bool, u8) {
        if !download {
            self.send("begin install".into());
            return (false, 0);
        }
        let v = self.rng.range(1, 3);
        self.send(format!("begin download {v}"));
        let cks = self.rng.chance(1, 3);
        if cks {
            self.send("cks 1".into());
        }
        let mut flags = 0u8;
        if self.rng.chance(1, 3) {
            let f = self.rng.range(0, 5) as u8;
            if self.send(format!("flags {f}")) == "ok" {
                flags = f;
            }
        }
        if self.rng.chance(1, 2) {
            let b: i64 = match self.rng.below(6) { 0 => -128, 1 => 127, 2 => 0, _ => self.rng.below(256) as i64 - 128 };
            self.send(format!("base {b}"));
        }
        (cks, flags)
    }
    fn queries(&mut self, download: bool, names: &[String], thorough_q: bool) {
        let r = self.send("reparse".into());
        let _ = r;
        let bytes_hex = hex(&self.c.bytes);
        self.send(format!("read {bytes_hex}"));
        self.send("q tags".into());
        self.send("q total".into());
        let live: Vec<String> = self.c.rf.tags.iter().map(|t| hex(t.name.as_bytes())).collect();
        let pick = |g: &mut Self| -> String {
            if !live.is_empty() && g.rng.chance(9, 10) { g.rng.pick(&live).clone() }
            else if !names.is_empty() && g.rng.chance(1, 2) { g.rng.pick(names).clone() }
            else { hex(b"nosuchtag") }
        };
        let nq = if thorough_q { 6 } else { 3 };
        for _ in 0..nq {
            let n = pick(self);
            self.send(format!("q tag {n}"));
            let k = self.rng.range(1, 4);
            let combo: Vec<String> = (0..k).map(|_| pick(self)).collect();
            let combo = combo.join(",");
            self.send(format!("q all {combo}"));
            self.send(format!("q size {combo}"));
            if !download {
                self.send(format!("q any {combo}"));
                let (a, b) = (pick(self), pick(self));
                self.send(format!("q inter {a} {b}"));
                self.send(format!("q union {a} {b}"));
            }
        }
        self.send("q all none".into());
        self.send("q size none".into());
        if download {
            for cat in 0..5 {
                self.send(format!("q prio {cat}"));
            }
            for _ in 0..2 {
                let a = self.rng.below(256) as i64 - 128;
                let b = self.rng.below(256) as i64 - 128;
                self.send(format!("q prange {} {}", a.min(b), a.max(b)));
            }
            self.send("q prange -128 127".into());
            self.send("q ess".into());
        } else {
            self.send("q any none".into());
        }
        // truncations of the serialised manifest must be rejected (counts are trusted otherwise)
        let len = self.c.bytes.len();
        if len > 0 {
            for cut in [len - 1, self.rng.below(len as u64) as usize, len] {
                self.send(format!("trunc {cut}"));
            }
        }
    }

    /// boundary family: n files, three tags added before / in the middle of / after the files,
    /// membership patterns that hit the last file and the byte boundaries, one removal at k.
    fn boundary_case(&mut self, download: bool, n: usize, k: Option<usize>, v2: bool) {
        let (cks, flags) = self.begin(download);
        let names = [hex(b"A"), hex(b"Bb"), hex(b"Ccc")];
        let pat = self.rng.below(4);
        let line_ = format!("tag {} {}", names[0], TAG_TYPES[self.rng.below(17) as usize]);
        self.send(line_);
        let mid = n / 2;
        for i in 0..n {
            if i == mid {
                let line_ = format!("tag {} {}", names[1], TAG_TYPES[self.rng.below(17) as usize]);
                self.send(line_);
            }
            self.add_file(download, cks, flags);
        }
        if n == 0 || mid >= n {
            self.send(format!("tag {} {}", names[1], 2));
        }
        self.send(format!("tag {} {}", names[2], 1));
        let nf = self.c.rf.files.len();
        for i in 0..nf {
            let in_a = match pat { 0 => i % 3 == 0, 1 => i % 8 == 7 || i % 8 == 0, 2 => self.rng.chance(1, 2), _ => true };
            if in_a {
                self.send(format!("assoc {i} {}", names[0]));
            }
            if i + 1 == nf || i + 9 >= nf && self.rng.chance(1, 2) {
                self.send(format!("assoc {i} {}", names[1]));
            }
            if self.rng.chance(2, 3) {
                self.send(format!("assoc {i} {}", names[2]));
            }
        }
        self.send("masks".into());
        if let Some(k) = k {
            self.send(format!("rmfile {k}"));
            self.send("masks".into());
        }
        if !download && v2 {
            let ft = self.rng.below(256);
            let line_ = format!("build v2 {} {} {ft}", self.rng.below(256), self.rng.next() & 0xFFFF_FFFF);
            self.send(line_);
        } else {
            self.send("build".into());
        }
        let nm: Vec<String> = names.to_vec();
        self.queries(download, &nm, false);
        self.end_case();
    }

    /// random builder program over all operations, in any order
    fn random_case(&mut self, download: bool, max_files: usize, max_tags: usize, allow_dup: bool) {
        let (cks, flags) = self.begin(download);
        let pool: Vec<String> = (0..max_tags.max(1)).map(|i| {
            let base = ["Windows", "OSX", "x86_64", "enUS", "deDE", "t", "é", "Alt", "", "HighRes"];
            let s = if i < base.len() { base[i].to_string() } else { format!("tag{i}") };
            hex(s.as_bytes())
        }).collect();
        let mut live: Vec<String> = vec![];
        let steps = self.rng.range(0, (max_files * 3 + max_tags * 2) as u64) as usize;
        let target_files = self.rng.range(0, max_files as u64) as usize;
        let target_tags = self.rng.range(0, max_tags as u64) as usize;
        for step in 0..steps {
            let n = self.c.rf.files.len();
            let roll = self.rng.below(100);
            if roll < 28 && n < target_files.max(1) + 3 {
                self.add_file(download, cks, flags);
            } else if roll < 40 {
                if live.len() < target_tags || self.rng.chance(1, 10) {
                    let cand: Vec<&String> = pool.iter().filter(|p| allow_dup && self.c.rf.dup || !live.contains(p)).collect();
                    let name = if allow_dup && !live.is_empty() && self.rng.chance(1, 4) { self.rng.pick(&live).clone() }
                               else if cand.is_empty() { continue } else { (*self.rng.pick(&cand)).clone() };
                    let line_ = format!("tag {name} {}", TAG_TYPES[self.rng.below(17) as usize]);
                    self.send(line_);
                    if !live.contains(&name) { live.push(name); }
                }
            } else if roll < 75 {
                // associate: mostly valid, sometimes out of range / unknown tag
                let i = if n > 0 && self.rng.chance(19, 20) { self.rng.below(n as u64) as usize } else { n + self.rng.below(3) as usize };
                let name = if !live.is_empty() && self.rng.chance(19, 20) { self.rng.pick(&live).clone() } else { self.rng.pick(&pool).clone() };
                if !download && self.rng.chance(1, 12) && !self.c.rf.dup {
                    let ti = self.rng.below(self.c.rf.tags.len() as u64 + 2);
                    self.send(format!("associdx {i} {ti}"));
                } else {
                    self.send(format!("assoc {i} {name}"));
                }
            } else if roll < 83 {
                let i = if n > 0 && self.rng.chance(9, 10) { self.rng.below(n as u64) as usize } else { n + self.rng.below(20) as usize };
                let name = if !live.is_empty() && self.rng.chance(9, 10) { self.rng.pick(&live).clone() } else { self.rng.pick(&pool).clone() };
                self.send(format!("dissoc {i} {name}"));
            } else if roll < 93 {
                let k = if n > 0 && self.rng.chance(9, 10) {
                    match self.rng.below(4) { 0 => 0, 1 => n - 1, 2 => (n - 1).min(7 + self.rng.below(2) as usize), _ => self.rng.below(n as u64) as usize }
                } else { n + self.rng.below(2) as usize };
                self.send(format!("rmfile {k}"));
            } else if roll < 97 {
                let name = if !live.is_empty() && self.rng.chance(4, 5) { self.rng.pick(&live).clone() } else { self.rng.pick(&pool).clone() };
                let r = self.send(format!("rmtag {name}"));
                if r == "ok" && self.c.rf.tag(&name_of(&name).unwrap_or_default()).is_none() {
                    live.retain(|x| *x != name);
                }
            } else {
                self.send("masks".into());
            }
            if step % 40 == 39 {
                self.send("masks".into());
            }
        }
        self.send("masks".into());
        if !download && self.rng.chance(1, 4) {
            let line_ = format!("build v2 {} {} {}", self.rng.below(256), self.rng.next() & 0xFFFF_FFFF, self.rng.below(256));
            self.send(line_);
        } else {
            self.send("build".into());
        }
        self.queries(download, &pool, true);
        self.end_case();
    }

    fn size_case(&mut self) {
        self.send("begin size".into());
        let nt = self.rng.range(0, 4) as usize;
        let ne = self.rng.range(0, 40) as usize;
        for i in 0..nt {
            let line_ = format!("tag {} {}", hex(format!("s{i}").as_bytes()), TAG_TYPES[self.rng.below(17) as usize]);
            self.send(line_);
        }
        let mut added = 0;
        for _ in 0..(ne + nt * 6) {
            if added < ne && self.rng.chance(1, 2) {
                self.send("sentry".into());
                added += 1;
            } else {
                // tag_file may name files that do not exist (yet); out-of-range tag index panics
                let ti = self.rng.below(nt as u64 + 1) as usize;
                let fi = self.rng.below(ne as u64 + 12) as usize;
                self.send(format!("stagfile {ti} {fi}"));
            }
        }
        self.send("sbuild".into());
        self.end_case();
    }
}

fn main() {
    let args = Args::parse();
    quiet_panics();
    let mut s = Session::new(&args.out);
    s.rule = "builder programs (add tag / add file / associate (by name, by index) / dissociate / remove file / remove tag, valid and rejected arguments) on InstallManifestBuilder, DownloadManifestBuilder (versions 1-3, checksums, flag sizes 0-4, base priority and priorities over -128..=127, sizes 0, 2^32-1, 2^32, 2^40-1, 2^40) and SizeManifestBuilder; boundary family: every file count 0..=70 x removal positions {none, 0, 7, 8, 9, n-9, n-8, n-2, n-1} (every position for n <= 18) for install V1/V2 and download; random programs up to 70 files / 20 tags (thorough: also up to 300 files); after each build: re-parse, independent bit reader, per-tag / all-of / any-of / size / priority queries, truncated inputs; non-trivial = the program reached a successful build with at least one tag and one file; distinct = full program text".into();
    let mut rng = Rng::new(args.seed);

    if let Some(p) = &args.replay {
        let mut c = Ctx::default();
        let mut any = false;
        for l in read_case(p) {
            let r = exec(&mut s, &mut c, &l);
            s.line(&l, &r);
            println!("impl  {l} -> {r}");
            any = true;
        }
        if any {
            let key = c.lines.join("\n");
            s.case(Some(&key));
        }
        s.finish();
        return;
    }

    let thorough = args.thorough();
    let mut g = Gen { s: &mut s, c: Ctx::default(), rng: &mut rng, key_ctr: 0 };
    // 1. boundary family
    for n in 0..=70usize {
        let mut ks: Vec<Option<usize>> = vec![None];
        if n > 0 {
            if n <= 18 || thorough && n <= 34 {
                ks.extend((0..n).map(Some));
            } else {
                for k in [0, 7, 8, 9, n - 9, n - 8, n - 2, n - 1] {
                    if !ks.contains(&Some(k)) { ks.push(Some(k)); }
                }
            }
            ks.push(Some(n)); // out of range
        }
        for k in ks {
            g.boundary_case(false, n, k, false);
            g.boundary_case(true, n, k, false);
            if n % 4 == 1 || thorough {
                g.boundary_case(false, n, k, true);
            }
        }
    }
    // 2. random programs
    let rounds = if thorough { 12000 } else { 260 };
    for r in 0..rounds {
        let download = r % 2 == 1;
        let big = thorough && r % 25 == 0;
        let max_files = if big { 300 } else if r % 3 == 0 { 70 } else { 20 };
        let max_tags = if r % 5 == 0 { 20 } else { 6 };
        let allow_dup = r % 20 == 7 || r % 20 == 12;
        g.random_case(download, max_files, max_tags, allow_dup);
    }
    // 3. size manifest builder (mask part)
    for _ in 0..(if thorough { 200 } else { 40 }) {
        g.size_case();
    }
    // 4. configuration guards of the download builder
    for v in [0u64, 1, 2, 3, 4, 255, 256] {
        g.send(format!("begin download {v}"));
        for f in [0u64, 1, 4, 5, 255] {
            g.send(format!("flags {f}"));
        }
        for b in [-128i64, -1, 0, 1, 127] {
            g.send(format!("base {b}"));
        }
        g.send("setcks 0 1".into());
        g.send("setflags 0 00".into());
        g.send("build".into());
        g.end_case();
    }
    // builds that must be refused: checksums / flags switched on after files were added
    for v in [1u64, 2, 3] {
        g.send(format!("begin download {v}"));
        g.send(format!("dfile {} 10 0", hex(&[7u8; 16])));
        g.send("cks 1".into());
        g.send("build".into());
        g.send("setcks 0 5".into());
        g.send("build".into());
        g.send("flags 2".into());
        g.send("build".into());
        g.send("setflags 0 0102".into());
        g.send("setflags 0 01".into());
        g.send("setflags 3 0102".into());
        g.send("build".into());
        g.send("cks 0".into());
        g.send("build".into());
        g.end_case();
    }
    s.finish();
}
