//! C04 — local storage returns every stored object byte-for-byte, at any later time.
//! Runs the REAL `DynamicContainer`, `Installation` and `ArchiveManager` on protocol lines (K,
//! compared with the Lean model `drv_c04`) and checks every response against a reference map
//! encoding key -> written bytes (O).
//!
//! Streams (first token of the `begin` line's second word):
//!   begin dyn  cap_pages=.. per_page=.. hdr=30     DynamicContainer (+ ResidencyContainer)
//!   begin inst cap_pages=.. per_page=.. hdr=30     Installation
//!   begin arch hdr=30                              ArchiveManager alone (all three BLTE modes)
//!   begin lim  cap_pages=.. per_page=.. hdr=30     size / offset limits: `lw pos fill n` = an
//!                                                  Installation (K + O) and a DynamicContainer (O)
//!                                                  on a sparse data.000 of `pos` bytes
//! inst also has `open` (drop + Installation::open WITHOUT initialize) and `init` (initialize()),
//! arch has `anew` (a new ArchiveManager WITHOUT open_all).
//! A payload is written `<hex prefix> <fill byte> <n>` = prefix followed by n copies of fill.
//! Besides the random histories: fill cases (one index bucket's update section through its page
//! and capacity boundaries) and sorted-section size cases (one bucket's flushed entries across
//! the 64 KiB / 128 KiB alignment boundary of the update section in its `.idx` file), see below.
use cascette_client_storage::container::{AccessMode, Container, DynamicContainer, ResidencyContainer};
use cascette_client_storage::index::update::{ENTRIES_PER_PAGE, MIN_UPDATE_SECTION_SIZE, UPDATE_PAGE_SIZE, UPDATE_SECTION_ALIGNMENT};
use cascette_client_storage::storage::local_header::LOCAL_HEADER_SIZE;
use cascette_client_storage::storage::{ArchiveManager, LocalHeader};
use cascette_client_storage::{Installation, StorageError};
use cascette_crypto::EncodingKey;
use cascette_formats::CascFormat;
use cascette_formats::blte::{BlteFile, CompressionMode};
use std::collections::HashMap;
use std::panic::AssertUnwindSafe;
use std::sync::Arc;
use verif_harness::*;

type K9 = [u8; 9];

fn k9(k: &[u8; 16]) -> K9 {
    let mut a = [0u8; 9];
    a.copy_from_slice(&k[..9]);
    a
}
fn key16(s: &str) -> Option<[u8; 16]> {
    unhex(s)?.try_into().ok()
}
fn md5_of(b: &[u8]) -> [u8; 16] {
    md5::compute(b).0
}
/// the BLTE image of a single uncompressed chunk, built WITHOUT the crate (independent reference)
fn blte_n(data: &[u8]) -> Vec<u8> {
    let mut v = Vec::with_capacity(9 + data.len());
    v.extend_from_slice(b"BLTE\0\0\0\0N");
    v.extend_from_slice(data);
    v
}
fn build_blte(data: Vec<u8>, mode: CompressionMode) -> Option<Vec<u8>> {
    BlteFile::single_chunk(data, mode).ok()?.build().ok()
}
fn ekey_of(data: &[u8]) -> [u8; 16] {
    md5_of(&blte_n(data))
}
fn fnv64(b: &[u8]) -> u64 {
    let mut h = 0xcbf2_9ce4_8422_2325u64;
    for x in b {
        h ^= *x as u64;
        h = h.wrapping_mul(0x0000_0100_0000_01b3);
    }
    h
}
/// canonical rendering of returned bytes: length, FNV-1a 64, and the bytes themselves when short
fn show_bytes(b: &[u8]) -> String {
    if b.len() <= 40 {
        format!("ok {} {:016x} {}", b.len(), fnv64(b), hex(b))
    } else {
        format!("ok {} {:016x}", b.len(), fnv64(b))
    }
}
fn payload_of(prefix: &str, fill: &str, n: &str) -> Option<Vec<u8>> {
    let mut v = unhex(prefix)?;
    let f: u8 = fill.parse().ok()?;
    let n: usize = n.parse().ok()?;
    if n > 64 << 20 {
        return None;
    }
    v.extend(std::iter::repeat_n(f, n));
    Some(v)
}
fn err_class(e: &StorageError) -> &'static str {
    match e {
        StorageError::NotFound(_) => "err:notfound",
        StorageError::TruncatedRead(_) => "err:truncated",
        StorageError::Archive(m) if m.contains("beyond archive bounds") => "err:bounds",
        StorageError::Archive(m) if m.contains("not found") => "err:noarchive",
        StorageError::Archive(m) if m.contains("BLTE") => "err:blte",
        StorageError::Archive(_) => "err:archive",
        StorageError::Io(_) => "err:io",
        StorageError::AccessDenied(_) => "err:denied",
        _ => "err:other",
    }
}

/// what the reference knows about a written object
#[derive(Clone)]
struct Obj {
    data: Vec<u8>,
    /// number of writes that succeeded after this one
    later_writes: u32,
    /// a reopen happened after the write
    reopened: bool,
    shape: &'static str,
    /// written before a drop + `Installation::open` that has not been followed by `initialize()`
    /// yet: the instance has not loaded this object's index entry
    unloaded: bool,
    /// while this object was `unloaded`, a write of the un-initialized installation saved a bucket
    /// file for the object's own bucket (finding installation-uninitialized-write-replaces-bucket)
    clobbered: bool,
    /// the write was the `nth` index mutation (successful write, or remove of a stored key) of
    /// the key's index bucket in this case (diagnostics only: names the position of a failing
    /// object relative to the update-section capacity of its bucket)
    nth: u32,
}

/// bucket of a key (xor of the first nine bytes, folded to a nibble) — written out here, not
/// taken from the crate
fn bucket_of(k: &K9) -> u8 {
    let x = k.iter().fold(0u8, |a, b| a ^ b);
    (x & 0x0f) ^ (x >> 4)
}

fn payload_shape(d: &[u8]) -> &'static str {
    if d.len() >= 34 && &d[30..34] == b"BLTE" {
        "blte-at-0x1e"
    } else if d.len() >= 4 && &d[..4] == b"BLTE" {
        "blte-at-0"
    } else {
        "plain"
    }
}

struct Dyn {
    dir: tempfile::TempDir,
    c: DynamicContainer,
    res: Arc<ResidencyContainer>,
    refm: HashMap<K9, Obj>,
    /// removed keys: which index mutation of their bucket the remove was (diagnostics only)
    removed: HashMap<K9, u32>,
}
struct Inst {
    dir: tempfile::TempDir,
    inst: Installation,
    refm: HashMap<K9, Obj>,
    /// the current instance came from `Installation::open` alone (no `initialize()` yet)
    uninit: bool,
}
struct AEntry {
    id: u16,
    off: u32,
    total: u32,
    key: [u8; 16],
    data: Vec<u8>,
    blte: Vec<u8>,
}
struct Arch {
    dir: tempfile::TempDir,
    mgr: ArchiveManager,
    entries: Vec<AEntry>,
    /// the manager was built by `anew` and has not opened anything yet
    unopened: bool,
}
enum Mode {
    None,
    Dyn(Box<Dyn>),
    Inst(Box<Inst>),
    Arch(Box<Arch>),
    Lim,
}

struct H {
    mode: Mode,
    rt: tokio::runtime::Runtime,
    trace: Vec<String>,
    failed: bool,
    // per-case statistics
    st_hist_reads: u64,
    st_reopen_reads: u64,
    st_blte_reads: u64,
    st_small_after_large: u64,
    last_total: u64,
    /// index mutations per bucket in the current case (see `Obj::nth`)
    bmut: [u32; 16],
    /// the reference's count of what each bucket's `.idx` file holds (diagnostics only: names
    /// the size class of the file in a failure message): entries merged into the sorted section
    /// by the last flush (explicit, or implicit when a mutation found the update section full)
    /// and mutations pending in the update section since
    bsorted: [u32; 16],
    bpend: [u32; 16],
    /// stored keys per bucket by the reference map
    blive: [u32; 16],
}

/// `.idx` v7 layout (`IndexManager::save_index`): 8 (guarded block) + 16 (header) + 8 (padding) +
/// 8 (guarded block) bytes, then the sorted entries of 9 + 5 + 4 bytes each, then zero padding up
/// to the next multiple of `UPDATE_SECTION_ALIGNMENT`, then the update pages (only when at least
/// one update is pending)
const IDX_SORTED_START: usize = 40;
const IDX_ENTRY_SIZE: usize = 18;

/// the least number of sorted entries whose section ends BEYOND the `k`-th alignment boundary
/// (`k` = 1: 3639 entries, 65542 bytes; one entry less ends at 65524)
fn sorted_crossing(k: usize) -> usize {
    (k * UPDATE_SECTION_ALIGNMENT - IDX_SORTED_START) / IDX_ENTRY_SIZE + 1
}

fn consts() -> String {
    format!("cap_pages={} per_page={} hdr={}", MIN_UPDATE_SECTION_SIZE / UPDATE_PAGE_SIZE, ENTRIES_PER_PAGE, LOCAL_HEADER_SIZE)
}

fn new_dyn(rt: &tokio::runtime::Runtime, dir: &std::path::Path, res: Arc<ResidencyContainer>) -> DynamicContainer {
    let c = DynamicContainer::builder(dir.join("data"))
        .access_mode(AccessMode::ReadWrite)
        .segment_limit(100)
        .max_segment_size(1 << 30)
        .residency(res)
        .build()
        .expect("container");
    rt.block_on(c.open()).expect("open");
    c
}
fn new_inst(rt: &tokio::runtime::Runtime, dir: &std::path::Path) -> Installation {
    let i = Installation::open(dir.join("inst")).expect("installation");
    rt.block_on(i.initialize()).expect("initialize");
    i
}

impl H {
    fn fail(&mut self, s: &mut Session, sig: &str, msg: String) {
        if !self.failed {
            self.failed = true;
            if self.trace.len() > 400 {
                // long (fill) cases: leave the pure observers (`q`, `count`, `marks` change no
                // state on either side) out of the replay, except the failing line itself
                let last = self.trace.len() - 1;
                let t: Vec<String> = self.trace.iter().enumerate()
                    .filter(|(i, l)| *i == last || !matches!(l.split(' ').next(), Some("q" | "count" | "marks")))
                    .map(|(_, l)| l.clone()).collect();
                s.oracle_fail(sig, &msg, &t);
            } else {
                s.oracle_fail(sig, &msg, &self.trace);
            }
        }
    }

    fn exec(&mut self, s: &mut Session, line: &str) -> String {
        let toks: Vec<&str> = line.split(' ').filter(|t| !t.is_empty()).collect();
        if toks.first() == Some(&"begin") {
            self.trace.clear();
            self.failed = false;
            self.st_hist_reads = 0;
            self.st_reopen_reads = 0;
            self.st_blte_reads = 0;
            self.st_small_after_large = 0;
            self.last_total = 0;
            self.bmut = [0; 16];
            self.bsorted = [0; 16];
            self.bpend = [0; 16];
            self.blive = [0; 16];
            self.trace.push(line.to_string());
            let kind = toks.get(1).copied().unwrap_or("");
            let want = match kind {
                "dyn" | "inst" | "lim" => format!("begin {kind} {}", consts()),
                "arch" => format!("begin arch hdr={LOCAL_HEADER_SIZE}"),
                _ => return "bad-op".into(),
            };
            if line != want {
                s.oracle_fail("constants-changed", &format!("case was recorded for `{line}`, the crate now has `{want}`"), &[line.to_string()]);
                self.mode = Mode::None;
                return "ok".into();
            }
            let dir = tempfile::tempdir().expect("tempdir");
            self.mode = match kind {
                "dyn" => {
                    let mut r = ResidencyContainer::new("verif".into(), AccessMode::ReadWrite, dir.path().join("residency"));
                    self.rt.block_on(r.initialize()).expect("residency init");
                    let res = Arc::new(r);
                    let c = new_dyn(&self.rt, dir.path(), res.clone());
                    Mode::Dyn(Box::new(Dyn { dir, c, res, refm: HashMap::new(), removed: HashMap::new() }))
                }
                "inst" => {
                    let inst = new_inst(&self.rt, dir.path());
                    Mode::Inst(Box::new(Inst { dir, inst, refm: HashMap::new(), uninit: false }))
                }
                "lim" => Mode::Lim,
                _ => {
                    let mgr = ArchiveManager::new(dir.path());
                    Mode::Arch(Box::new(Arch { dir, mgr, entries: vec![], unopened: false }))
                }
            };
            return "ok".into();
        }
        self.trace.push(line.to_string());
        let mut mode = std::mem::replace(&mut self.mode, Mode::None);
        let r = catch(AssertUnwindSafe(|| match &mut mode {
            Mode::None => None,
            Mode::Dyn(d) => self.exec_dyn(d, s, &toks),
            Mode::Inst(i) => self.exec_inst(i, s, &toks),
            Mode::Arch(a) => self.exec_arch(a, s, &toks),
            Mode::Lim => self.exec_lim(s, &toks),
        }));
        self.mode = mode;
        match r {
            Ok(Some(r)) => r,
            Ok(None) => {
                self.trace.pop();
                "bad-op".into()
            }
            Err(p) => {
                self.fail(s, "panic", format!("panic in `{}`: {p}", if line.len() > 120 { &line[..120] } else { line }));
                "panic".into()
            }
        }
    }

    fn note_write(&mut self, refm: &mut HashMap<K9, Obj>, data: Vec<u8>) -> [u8; 16] {
        let key = ekey_of(&data);
        for o in refm.values_mut() {
            o.later_writes += 1;
        }
        let total = (LOCAL_HEADER_SIZE + 9 + data.len()) as u64;
        if self.last_total > total {
            self.st_small_after_large += 1;
        }
        self.last_total = total;
        let shape = payload_shape(&data);
        let b = bucket_of(&k9(&key)) as usize;
        self.note_mutation(b);
        if refm.insert(k9(&key), Obj { data, later_writes: 0, reopened: false, shape, unloaded: false, clobbered: false, nth: self.bmut[b] }).is_none() {
            self.blive[b] += 1;
        }
        key
    }

    /// reference bookkeeping for one index mutation (successful write, remove of a stored key)
    /// of bucket `b`, called BEFORE `blive` is adjusted: a mutation that finds the update section
    /// full merges the pending entries into the sorted section first
    fn note_mutation(&mut self, b: usize) {
        let cap = (MIN_UPDATE_SECTION_SIZE / UPDATE_PAGE_SIZE) * ENTRIES_PER_PAGE;
        self.bmut[b] += 1;
        if self.bpend[b] as usize >= cap {
            self.bsorted[b] = self.blive[b];
            self.bpend[b] = 0;
        }
        self.bpend[b] += 1;
    }
    /// explicit flush of bucket `b` (nothing happens when no update is pending)
    fn note_flush(&mut self, b: usize) {
        if b < 16 && self.bpend[b] > 0 {
            self.bsorted[b] = self.blive[b];
            self.bpend[b] = 0;
        }
    }
    /// what the reference expects bucket `b`'s `.idx` file to look like (for failure messages;
    /// not meaningful after an Installation session that skipped initialize())
    fn layout(&self, b: u8) -> String {
        let (n, p) = (self.bsorted[b as usize] as usize, self.bpend[b as usize]);
        let end = IDX_SORTED_START + IDX_ENTRY_SIZE * n;
        let at = end.div_ceil(UPDATE_SECTION_ALIGNMENT) * UPDATE_SECTION_ALIGNMENT;
        format!(".idx of bucket {b} by the reference's count: {n} flushed entries (sorted section ends at byte {end} = {IDX_SORTED_START}+{IDX_ENTRY_SIZE}x{n}, so the update section belongs at byte {at}, the next multiple of {UPDATE_SECTION_ALIGNMENT}) + {p} pending update(s)")
    }

    fn absent(&self, removed: &HashMap<K9, u32>, k: &K9) -> String {
        let cap = (MIN_UPDATE_SECTION_SIZE / UPDATE_PAGE_SIZE) * ENTRIES_PER_PAGE;
        match removed.get(k) {
            Some(n) => format!("was removed ({}; the successful remove was index mutation #{n} of {} of the bucket in this case; an update section holds {cap} entries in pages of {ENTRIES_PER_PAGE})", self.layout(bucket_of(k)), self.bmut[bucket_of(k) as usize]),
            None => "was never written".to_string(),
        }
    }

    /// where a written object sits in the history of its index bucket (for failure messages)
    fn place(&self, k: &K9, o: &Obj) -> String {
        let cap = (MIN_UPDATE_SECTION_SIZE / UPDATE_PAGE_SIZE) * ENTRIES_PER_PAGE;
        format!("{}; the key's write was index mutation #{} of {} of the bucket in this case, {} later write(s) followed, reopened since: {}; an update section holds {} entries in pages of {}",
            self.layout(bucket_of(k)), o.nth, self.bmut[bucket_of(k) as usize], o.later_writes, o.reopened, cap, ENTRIES_PER_PAGE)
    }

    fn when(o: &Obj) -> &'static str {
        if o.reopened { "after-reopen" } else if o.later_writes > 0 { "after-later-write" } else { "immediately" }
    }

    fn note_read(&mut self, o: &Obj) {
        if o.reopened { self.st_reopen_reads += 1; }
        if o.later_writes > 0 { self.st_hist_reads += 1; }
        if o.shape != "plain" { self.st_blte_reads += 1; }
    }

    fn exec_dyn(&mut self, d: &mut Dyn, s: &mut Session, toks: &[&str]) -> Option<String> {
        let resp = match toks {
            ["w", p, f, n] => {
                let data = payload_of(p, f, n)?;
                // the key handed to write() is ignored by the container (the index key is the
                // MD5 of the BLTE image); pass the content MD5 as a caller would
                let ck = md5_of(&data);
                match self.rt.block_on(d.c.write(&ck, &data)) {
                    Ok(()) => {
                        let k = self.note_write(&mut d.refm, data);
                        d.removed.remove(&k9(&k));
                        "ok".to_string()
                    }
                    Err(e) => {
                        let c = err_class(&e);
                        self.fail(s, &format!("dyn-write-{c}"), format!("write of {} bytes failed: {e}", data.len()));
                        c.into()
                    }
                }
            }
            ["r", k, bl] => {
                let key = key16(k)?;
                let bl: usize = bl.parse().ok()?;
                if bl > 80 << 20 { return None; }
                let mut buf = vec![0u8; bl];
                let r = self.rt.block_on(d.c.read(&key, 0, 0, &mut buf));
                let want = d.refm.get(&k9(&key)).cloned();
                match (&r, &want) {
                    (Ok(n), Some(o)) => {
                        self.note_read(o);
                        let exp = &o.data[..o.data.len().min(bl)];
                        if *n > bl || &buf[..*n] != exp {
                            self.fail(s, &format!("dyn-read-written-key-other-bytes-{}-{}", o.shape, Self::when(o)),
                                format!("read({}) returned {} bytes that are not the {} written bytes (buffer {bl})", hex::encode(k9(&key)), n, o.data.len()));
                        }
                    }
                    (Err(e), Some(o)) => {
                        self.note_read(o);
                        let c = err_class(e);
                        self.fail(s, &format!("dyn-read-written-key-{}-{}", &c[4..], Self::when(o)),
                            format!("read({}) of a successfully written {}-byte object failed: {e} ({})", hex::encode(k9(&key)), o.data.len(), self.place(&k9(&key), o)));
                    }
                    (Ok(n), None) => {
                        let how = self.absent(&d.removed, &k9(&key));
                        self.fail(s, "dyn-read-absent-key-ok", format!("read({}) returned {n} bytes for a key that {how}", hex::encode(k9(&key))));
                    }
                    (Err(e), None) => {
                        if !matches!(e, StorageError::NotFound(_)) {
                            self.fail(s, &format!("dyn-read-absent-key-{}", &err_class(e)[4..]), format!("read of an absent key: {e}"));
                        }
                    }
                }
                match r {
                    Ok(n) => show_bytes(&buf[..n.min(bl)]),
                    Err(e) => err_class(&e).into(),
                }
            }
            ["q", k] => {
                let key = key16(k)?;
                let r = self.rt.block_on(d.c.query(&key));
                let want = d.refm.contains_key(&k9(&key));
                match r {
                    Ok(b) => {
                        if b != want {
                            let pl = d.refm.get(&k9(&key)).map(|o| format!(" ({})", self.place(&k9(&key), o))).unwrap_or_else(|| format!(" (the key {})", self.absent(&d.removed, &k9(&key))));
                            self.fail(s, &format!("dyn-query-{}-key-{b}", if want { "written" } else { "absent" }), format!("query({}) = {b}, reference says {want}{pl}", hex::encode(k9(&key))));
                        }
                        b.to_string()
                    }
                    Err(e) => {
                        self.fail(s, "dyn-query-err", format!("query failed: {e}"));
                        err_class(&e).into()
                    }
                }
            }
            ["rm", k] => {
                let key = key16(k)?;
                let r = self.rt.block_on(d.c.remove(&key));
                if d.refm.remove(&k9(&key)).is_some() {
                    let b = bucket_of(&k9(&key)) as usize;
                    self.note_mutation(b);
                    self.blive[b] -= 1;
                    d.removed.insert(k9(&key), self.bmut[b]);
                }
                match r {
                    Ok(()) => "ok".into(),
                    Err(e) => {
                        self.fail(s, "dyn-remove-err", format!("remove failed: {e}"));
                        err_class(&e).into()
                    }
                }
            }
            ["flush", b] => {
                let b: u8 = b.parse().ok()?;
                match d.c.flush_bucket(b) {
                    Ok(()) => { self.note_flush(b as usize); "ok".into() }
                    Err(e) => { self.fail(s, "dyn-flush-err", format!("flush_bucket({b}) failed: {e}")); err_class(&e).into() }
                }
            }
            ["flushall"] => match d.c.flush_all_updates() {
                Ok(()) => { for b in 0..16 { self.note_flush(b); } "ok".into() }
                Err(e) => { self.fail(s, "dyn-flush-err", format!("flush_all_updates failed: {e}")); err_class(&e).into() }
            },
            ["count"] => {
                let c = d.c.entry_count();
                if c != d.refm.len() {
                    self.fail(s, "dyn-count-differs", format!("entry_count() = {c}, {} objects are stored", d.refm.len()));
                }
                c.to_string()
            }
            ["marks"] => {
                let m = d.res.resident_count();
                if m != 0 {
                    self.fail(s, "dyn-written-key-marked-non-resident", format!("{m} key(s) carry a non-resident mark although every write succeeded and no file was cut"));
                }
                m.to_string()
            }
            ["reopen"] => {
                // drop the container, build a new one on the same directory
                let res = d.res.clone();
                let path = d.dir.path().to_path_buf();
                let fresh = new_dyn(&self.rt, &path, res);
                d.c = fresh;
                for o in d.refm.values_mut() { o.reopened = true; }
                self.last_total = 0;
                "ok".into()
            }
            _ => return None,
        };
        Some(resp)
    }

    fn exec_inst(&mut self, i: &mut Inst, s: &mut Session, toks: &[&str]) -> Option<String> {
        let resp = match toks {
            ["w", p, f, n, c] => {
                let data = payload_of(p, f, n)?;
                let compress = match *c { "0" => false, "1" => true, _ => return None };
                match self.rt.block_on(i.inst.write_file(data.clone(), compress)) {
                    Ok(ck) => {
                        if *ck.as_bytes() != md5_of(&data) {
                            self.fail(s, "inst-content-key-differs", format!("write_file returned content key {} for data whose MD5 is {}", hex::encode(ck.as_bytes()), hex::encode(md5_of(&data))));
                        }
                        if i.uninit {
                            // the un-initialized instance saves a bucket file that holds only what
                            // it has written itself
                            let b = bucket_of(&k9(&ekey_of(&data)));
                            for (k, o) in i.refm.iter_mut() {
                                if o.unloaded && bucket_of(k) == b { o.clobbered = true; }
                            }
                        }
                        self.note_write(&mut i.refm, data);
                        format!("ok {}", hex::encode(ck.as_bytes()))
                    }
                    Err(e) => {
                        let c = err_class(&e);
                        self.fail(s, &format!("inst-write-{c}"), format!("write_file of {} bytes failed: {e}", data.len()));
                        c.into()
                    }
                }
            }
            ["r", k] => {
                let key = key16(k)?;
                let r = self.rt.block_on(i.inst.read_file_by_encoding_key(&EncodingKey::from_bytes(key)));
                let want = i.refm.get(&k9(&key)).cloned();
                match (&r, &want) {
                    (Ok(b), Some(o)) => {
                        self.note_read(o);
                        if *b != o.data {
                            self.fail(s, &format!("inst-read-written-key-other-bytes-{}-{}", o.shape, Self::when(o)),
                                format!("read_file_by_encoding_key({}) returned {} bytes, {} bytes were written and they differ", hex::encode(k9(&key)), b.len(), o.data.len()));
                        }
                    }
                    (Err(e), Some(o)) => {
                        self.note_read(o);
                        let c = err_class(e);
                        if c == "err:notfound" && o.unloaded {
                            // drop + Installation::open without initialize(): nothing is loaded
                            // yet, the object must be back after initialize() (K still compares)
                            s.tally("inst.read_before_initialize_notfound");
                        } else if c == "err:notfound" && o.clobbered {
                            self.fail(s, "installation-uninitialized-write-replaces-bucket", format!("read_file_by_encoding_key({}): {e}; the object ({} bytes) was written, then an Installation opened WITHOUT initialize() wrote an object of the same index bucket, which saved a bucket file holding only its own entry", hex::encode(k9(&key)), o.data.len()));
                            i.refm.retain(|_, o| !o.clobbered);
                            self.failed = false;
                        } else {
                            self.fail(s, &format!("inst-read-written-key-{}-{}-{}", &c[4..], o.shape, Self::when(o)),
                                format!("read_file_by_encoding_key({}) of a successfully written {}-byte object failed: {e} ({})", hex::encode(k9(&key)), o.data.len(), self.place(&k9(&key), o)));
                        }
                    }
                    (Ok(b), None) => {
                        self.fail(s, "inst-read-absent-key-ok", format!("read returned {} bytes for a key that was never written", b.len()));
                    }
                    (Err(e), None) => {
                        if !matches!(e, StorageError::NotFound(_)) {
                            self.fail(s, &format!("inst-read-absent-key-{}", &err_class(e)[4..]), format!("read of an absent key: {e}"));
                        }
                    }
                }
                match r {
                    Ok(b) => show_bytes(&b),
                    Err(e) => err_class(&e).into(),
                }
            }
            ["q", k] => {
                let key = key16(k)?;
                let b = self.rt.block_on(i.inst.has_encoding_key(&EncodingKey::from_bytes(key)));
                let want = i.refm.get(&k9(&key)).cloned();
                if b != want.is_some() {
                    if !b && want.as_ref().is_some_and(|o| o.unloaded) {
                        s.tally("inst.has_before_initialize_false");
                    } else if !b && want.as_ref().is_some_and(|o| o.clobbered) {
                        self.fail(s, "installation-uninitialized-write-replaces-bucket", format!("has_encoding_key({}) = false: an Installation opened WITHOUT initialize() wrote an object of the same index bucket and saved a bucket file holding only its own entry", hex::encode(k9(&key))));
                        i.refm.retain(|_, o| !o.clobbered);
                        self.failed = false;
                    } else {
                        let pl = want.as_ref().map(|o| format!(" ({})", self.place(&k9(&key), o))).unwrap_or_default();
                        self.fail(s, &format!("inst-has-{}-key-{b}", if want.is_some() { "written" } else { "absent" }), format!("has_encoding_key({}) = {b}{pl}", hex::encode(k9(&key))));
                    }
                }
                b.to_string()
            }
            ["reopen"] => {
                let path = i.dir.path().to_path_buf();
                i.inst = new_inst(&self.rt, &path);
                i.uninit = false;
                for o in i.refm.values_mut() { o.reopened = true; o.unloaded = false; }
                self.last_total = 0;
                "ok".into()
            }
            // drop + Installation::open on the same directory, WITHOUT initialize()
            ["open"] => {
                let path = i.dir.path().to_path_buf();
                match Installation::open(path.join("inst")) {
                    Ok(x) => {
                        i.inst = x;
                        i.uninit = true;
                        for o in i.refm.values_mut() { o.reopened = true; o.unloaded = true; }
                        self.last_total = 0;
                        "ok".into()
                    }
                    Err(e) => { self.fail(s, "inst-open-err", format!("Installation::open failed: {e}")); err_class(&e).into() }
                }
            }
            // initialize() on the current instance
            ["init"] => match self.rt.block_on(i.inst.initialize()) {
                Ok(()) => {
                    i.uninit = false;
                    for o in i.refm.values_mut() { o.unloaded = false; }
                    "ok".into()
                }
                Err(e) => { self.fail(s, "inst-initialize-err", format!("initialize failed: {e}")); err_class(&e).into() }
            },
            _ => return None,
        };
        Some(resp)
    }

    fn exec_arch(&mut self, a: &mut Arch, s: &mut Session, toks: &[&str]) -> Option<String> {
        let resp = match toks {
            ["aw", m, p, f, n, comp] => {
                let data = payload_of(p, f, n)?;
                let (mode, mb) = match *m { "N" => (CompressionMode::None, b'N'), "Z" => (CompressionMode::ZLib, b'Z'), "4" => (CompressionMode::LZ4, b'4'), _ => return None };
                // the codec's output is an input of the model (zlib / LZ4 are parameters there)
                let built = BlteFile::single_chunk(data.clone(), mode).ok()?.build().ok()?;
                let comp_now = if mb == b'N' { "-".to_string() } else { hex(&built[9..]) };
                if *comp != comp_now {
                    self.fail(s, "codec-output-changed", format!("the request carries another {m} compression of the payload than the library produces now"));
                }
                let mut blte = b"BLTE\0\0\0\0".to_vec();
                blte.push(mb);
                if mb == b'N' { blte.extend_from_slice(&data); } else { blte.extend_from_slice(&unhex(comp)?); }
                match a.mgr.write_content_with_mode(&data, mode) {
                    Ok((id, off, total, key)) => {
                        if key != md5_of(&blte) {
                            self.fail(s, "arch-key-not-md5-of-blte", format!("write returned key {}, MD5 of the BLTE image is {}", hex::encode(key), hex::encode(md5_of(&blte))));
                        }
                        if total as usize != LOCAL_HEADER_SIZE + blte.len() {
                            self.fail(s, "arch-total-size-differs", format!("write returned total {total}, header + BLTE image is {}", LOCAL_HEADER_SIZE + blte.len()));
                        }
                        let t = total as u64;
                        if self.last_total > t { self.st_small_after_large += 1; }
                        self.last_total = t;
                        a.unopened = false;
                        a.entries.push(AEntry { id, off, total, key, data, blte });
                        format!("ok {id} {off} {total} {}", hex::encode(key))
                    }
                    Err(e) => {
                        let c = err_class(&e);
                        self.fail(s, &format!("arch-write-{c}"), format!("write failed: {e}"));
                        c.into()
                    }
                }
            }
            ["ac", id, off, size] | ["araw", id, off, size] => {
                let (id, off, size): (u16, u32, u32) = (id.parse().ok()?, off.parse().ok()?, size.parse().ok()?);
                let raw = toks[0] == "araw";
                let r = if raw { a.mgr.read_raw(id, off, size) } else { a.mgr.read_content(id, off, size) };
                let last = a.entries.len();
                if let Some((ix, e)) = a.entries.iter().enumerate().find(|(_, e)| e.id == id && e.off == off && e.total == size) {
                    let when = if ix + 1 < last { "after-later-write" } else { "immediately" };
                    if ix + 1 < last { self.st_hist_reads += 1; }
                    if payload_shape(&e.data) != "plain" { self.st_blte_reads += 1; }
                    match &r {
                        Ok(b) if raw => {
                            if b.len() != size as usize || b[LOCAL_HEADER_SIZE..] != e.blte[..] {
                                self.fail(s, &format!("arch-raw-entry-other-bytes-{when}"), format!("read_raw of entry {ix}: bytes after the local header are not the BLTE image"));
                            } else if let Some(h) = LocalHeader::from_bytes(b) {
                                if h.original_encoding_key() != e.key || h.size_with_header != e.total || !h.validate_checksums(off as usize) {
                                    self.fail(s, "arch-local-header-invalid", format!("entry {ix}: local header key/size/checksums do not match the entry"));
                                }
                            }
                        }
                        Ok(b) => {
                            if *b != e.data {
                                self.fail(s, &format!("arch-read-written-entry-other-bytes-{}-{when}", payload_shape(&e.data)), format!("read_content of entry {ix} returned {} bytes, {} were written and they differ", b.len(), e.data.len()));
                            }
                        }
                        // a manager that has not opened anything knows no archive (K compares)
                        Err(er) if a.unopened && err_class(er) == "err:noarchive" => s.tally("arch.read_before_open_noarchive"),
                        Err(er) => {
                            self.fail(s, &format!("arch-read-written-entry-{}-{when}", &err_class(er)[4..]), format!("read of entry {ix} ({} bytes written) failed: {er}", e.data.len()));
                        }
                    }
                }
                match r {
                    Ok(b) => show_bytes(&b),
                    Err(e) => err_class(&e).into(),
                }
            }
            // drop the manager, a new one on the same directory WITHOUT open_all(): the next write
            // goes through create_archive on the existing data.000
            ["anew"] => {
                a.mgr = ArchiveManager::new(a.dir.path());
                a.unopened = true;
                self.last_total = 0;
                "ok".into()
            }
            ["areopen"] => {
                let mut m = ArchiveManager::new(a.dir.path());
                match self.rt.block_on(m.open_all()) {
                    Ok(()) => { a.mgr = m; a.unopened = false; self.last_total = 0; "ok".into() }
                    Err(e) => { self.fail(s, "arch-reopen-err", format!("open_all failed: {e}")); err_class(&e).into() }
                }
            }
            _ => return None,
        };
        Some(resp)
    }

    /// `lw pos fill n`: what the storage does with a data file that already has `pos` bytes.
    /// K: result of `Installation::write_file`, the index entry of the object in memory and after
    /// drop + open + initialize.  O: the object must read back exactly, at once and after the
    /// reopen, through the Installation and through a DynamicContainer on the same kind of file.
    fn exec_lim(&mut self, s: &mut Session, toks: &[&str]) -> Option<String> {
        // `lwd` = the same, and also on a DynamicContainer (whose open() reads the whole data file
        // into memory - SegmentAllocator::load_existing - so only a few positions use it)
        let [op @ ("lw" | "lwd"), pos, fill, n] = toks else { return None };
        let with_dyn = *op == "lwd";
        let (pos, fill, n): (u64, u8, usize) = (pos.parse().ok()?, fill.parse().ok()?, n.parse().ok()?);
        if n > 1 << 20 || pos > 1 << 34 { return None; }
        let data = vec![fill; n];
        let key = ekey_of(&data);
        let total = (LOCAL_HEADER_SIZE + 9 + n) as u64;
        let beyond = pos >= 1 << 30;
        let zone = if pos + total <= 1 << 30 { "below-1GiB" } else if !beyond { "straddles-1GiB" } else if pos < 1 << 32 { "1GiB-4GiB" } else { "from-4GiB" };
        s.tally(&format!("lim.{zone}"));
        let sparse = |p: &std::path::Path| {
            let f = std::fs::OpenOptions::new().write(true).create(true).truncate(false).open(p).expect("data.000");
            f.set_len(pos).expect("set_len (sparse)");
        };
        let show = |e: Option<cascette_client_storage::IndexEntry>| match e {
            Some(e) => format!("{}:{}:{}", e.archive_id(), e.archive_offset(), e.size),
            None => "none".into(),
        };
        // ---- Installation (K + O)
        let dir = tempfile::tempdir().expect("tempdir");
        drop(new_inst(&self.rt, dir.path()));
        sparse(&dir.path().join("inst").join("data").join("data.000"));
        let inst = new_inst(&self.rt, dir.path());
        let resp = match self.rt.block_on(inst.write_file(data.clone(), false)) {
            Err(e) => err_class(&e).to_string(),
            Ok(_) => {
                fn find_in(rt: &tokio::runtime::Runtime, i: &Installation, k: K9) -> Option<cascette_client_storage::IndexEntry> {
                    rt.block_on(i.get_all_index_entries()).into_iter().find(|e| e.key == k)
                }
                let mem = find_in(&self.rt, &inst, k9(&key));
                let (off, size) = mem.as_ref().map(|e| (u64::from(e.archive_offset()), e.size)).unwrap_or((u64::MAX, 0));
                match self.rt.block_on(inst.read_file_by_encoding_key(&EncodingKey::from_bytes(key))) {
                    Ok(b) if b == data => {}
                    Ok(b) => self.fail(s, &format!("lim-inst-read-other-bytes-immediately-{zone}"), format!("data.000 of {pos} bytes: the {n} bytes just written read back as {} other bytes", b.len())),
                    Err(e) => self.fail(s, &format!("lim-inst-read-{}-immediately-{zone}", &err_class(&e)[4..]), format!("data.000 of {pos} bytes: read of the object just written failed: {e}")),
                }
                drop(inst);
                let inst2 = new_inst(&self.rt, dir.path());
                let re = find_in(&self.rt, &inst2, k9(&key));
                let ok2 = matches!(self.rt.block_on(inst2.read_file_by_encoding_key(&EncodingKey::from_bytes(key))), Ok(b) if b == data);
                if !ok2 {
                    let sig = if beyond { "offset-beyond-1GiB-wraps-after-reopen".to_string() } else { format!("lim-inst-read-wrong-after-reopen-{zone}") };
                    self.fail(s, &sig, format!("Installation on a data.000 of {pos} bytes: write_file({n} bytes) stored the entry at offset {off}; after drop + open + initialize the index says {} and the object no longer reads back", show(re.clone())));
                    self.failed = false;
                }
                format!("ok {off} {size} mem={} reopened={}", show(mem), show(re))
            }
        };
        // ---- DynamicContainer (O only: it does not show its index entries)
        if with_dyn && pos < 1 << 31 {
            let dir = tempfile::tempdir().expect("tempdir");
            std::fs::create_dir_all(dir.path().join("data")).expect("mkdir");
            sparse(&dir.path().join("data").join("data.000"));
            let mut r = ResidencyContainer::new("verif".into(), AccessMode::ReadWrite, dir.path().join("residency"));
            self.rt.block_on(r.initialize()).expect("residency init");
            let res = Arc::new(r);
            let c = new_dyn(&self.rt, dir.path(), res.clone());
            if self.rt.block_on(c.write(&md5_of(&data), &data)).is_ok() {
                fn rd_dyn(rt: &tokio::runtime::Runtime, c: &DynamicContainer, key: &[u8; 16], n: usize) -> Option<Vec<u8>> {
                    let mut buf = vec![0u8; n + 8];
                    rt.block_on(c.read(key, 0, 0, &mut buf)).ok().map(|k| buf[..k].to_vec())
                }
                if !matches!(rd_dyn(&self.rt, &c, &key, n), Some(b) if b == data) {
                    self.fail(s, &format!("lim-dyn-read-wrong-immediately-{zone}"), format!("DynamicContainer on a data.000 of {pos} bytes: the object just written does not read back"));
                }
                drop(c);
                let c2 = new_dyn(&self.rt, dir.path(), res);
                if !matches!(rd_dyn(&self.rt, &c2, &key, n), Some(b) if b == data) {
                    let sig = if beyond { "offset-beyond-1GiB-wraps-after-reopen".to_string() } else { format!("lim-dyn-read-wrong-after-reopen-{zone}") };
                    self.fail(s, &sig, format!("DynamicContainer on a data.000 of {pos} bytes: write({n} bytes) succeeded; after drop + new + open the object no longer reads back (the .idx offset field has 30 bits)"));
                    self.failed = false;
                }
            } else {
                self.fail(s, &format!("lim-dyn-write-err-{zone}"), format!("DynamicContainer on a data.000 of {pos} bytes: write failed"));
            }
        }
        if beyond { self.st_hist_reads += 1; }
        Some(resp)
    }
}

// ---------------------------------------------------------------- generators

/// payload as protocol triple (prefix hex, fill, n) for the payload classes of the quantifier
fn gen_payload(rng: &mut Rng, size_hint: usize) -> (String, u8, usize) {
    let n = size_hint;
    match rng.below(12) {
        // random bytes
        0..=2 => (hex(&rng.bytes(n.min(4096))), rng.byte(), n.saturating_sub(4096)),
        // compressible
        3 | 4 => ("-".into(), rng.byte(), n),
        // starts with "BLTE" then garbage (never decoded by a correct reader)
        5 => {
            let mut v = b"BLTE".to_vec();
            v.extend(rng.bytes(n.saturating_sub(4).min(512)));
            let rest = n.saturating_sub(v.len());
            (hex(&v), rng.byte(), rest)
        }
        // "BLTE" at offset 0x1E
        6 => {
            let mut v = rng.bytes(30);
            v.extend_from_slice(b"BLTE");
            v.extend(rng.bytes(n.saturating_sub(34).min(512)));
            let rest = n.saturating_sub(v.len());
            (hex(&v), rng.byte(), rest)
        }
        // a whole, valid BLTE file (single chunk N / Z / multi-chunk)
        7 | 8 => {
            let inner = rng.bytes(n.min(600));
            let mode = *rng.pick(&[CompressionMode::None, CompressionMode::ZLib, CompressionMode::LZ4]);
            let v = build_blte(inner, mode).unwrap_or_else(|| b"BLTE".to_vec());
            (hex(&v), 0, 0)
        }
        // an image of a whole local entry: 30-byte header followed by a valid BLTE file
        9 => {
            let inner = rng.bytes(n.min(300));
            let b = blte_n(&inner);
            let h = LocalHeader::new(md5_of(&b), b.len() as u32, rng.below(4096) as usize);
            let mut v = h.to_bytes().to_vec();
            v.extend_from_slice(&b);
            (hex(&v), 0, 0)
        }
        // exactly the 49-byte witness shape: single-chunk BLTE with a 40-byte payload
        10 => (hex(&blte_n(&rng.bytes(40))), 0, 0),
        // BLTE magic, zero header size, mode byte, then fill
        _ => (hex(b"BLTE\0\0\0\0N"), rng.byte(), n),
    }
}

/// size programmes aimed at the (former) remap rule: what matters is the order of sizes
fn size_programme(rng: &mut Rng, len: usize, big: bool) -> Vec<usize> {
    let base = if big { rng.range(20_000, 70_000) as usize } else { rng.range(0, 1500) as usize };
    let mut v = vec![];
    match rng.below(7) {
        // large then small (the reproduced witness 1000, 100, 50)
        0 => { let mut x = base.max(50); for _ in 0..len { v.push(x); x /= rng.range(2, 10) as usize; } }
        // slowly growing (file grows by less than x2 each time)
        1 => { let mut x = base; for _ in 0..len { v.push(x); x += rng.range(0, 40) as usize; } }
        // equal sizes
        2 => { for _ in 0..len { v.push(base); } }
        // totals that exactly double / double+1 / double-1 the file (total = 39 + n)
        3 => {
            let mut file = 0usize;
            for i in 0..len {
                let t = if i == 0 { 39 + base % 200 } else { (file as i64 + *rng.pick(&[-1i64, 0, 1])) .max(39) as usize };
                v.push(t - 39);
                file += t;
                if file > 300_000 { break; }
            }
        }
        // empty payloads between others
        4 => { for i in 0..len { v.push(if i % 2 == 0 { 0 } else { rng.range(0, base as u64 + 1) as usize }); } }
        // one big, then many tiny
        5 => { v.push(base * 3 + 1000); for _ in 1..len { v.push(rng.range(0, 40) as usize); } }
        _ => { for _ in 0..len { v.push(rng.range(0, base as u64 * 2 + 2) as usize); } }
    }
    v
}

struct Gen<'a> {
    h: H,
    s: &'a mut Session,
    case_text: String,
    keys: Vec<[u8; 16]>,
}

impl Gen<'_> {
    fn emit(&mut self, line: String) -> String {
        let r = self.h.exec(self.s, &line);
        self.s.line(&line, &r);
        self.s.tally(&format!("op.{}", line.split(' ').next().unwrap_or("?")));
        if r.starts_with("err:") || r == "panic" { self.s.tally(&format!("resp.{r}")); }
        if self.case_text.len() < 100_000 { self.case_text.push_str(&line); self.case_text.push('\n'); }
        r
    }
    fn begin(&mut self, kind: &str) {
        self.case_text.clear();
        self.keys.clear();
        let l = if kind == "arch" { format!("begin arch hdr={LOCAL_HEADER_SIZE}") } else { format!("begin {kind} {}", consts()) };
        self.emit(l);
    }
    fn end(&mut self, kind: &str) {
        let nt = self.h.st_hist_reads > 0 || self.h.st_reopen_reads > 0 || self.h.st_blte_reads > 0;
        self.s.tally(&format!("case.{kind}"));
        self.s.tally_n("reads.of_key_written_before_a_later_write", self.h.st_hist_reads);
        self.s.tally_n("reads.after_reopen", self.h.st_reopen_reads);
        self.s.tally_n("reads.of_blte_shaped_payload", self.h.st_blte_reads);
        self.s.tally_n("writes.smaller_than_previous", self.h.st_small_after_large);
        let t = std::mem::take(&mut self.case_text);
        self.s.case(if nt { Some(&t) } else { None });
    }
    /// a key to read: mostly a written one (sometimes with a foreign tail after the 9-byte
    /// prefix), sometimes absent
    fn pick_key(&mut self, rng: &mut Rng) -> [u8; 16] {
        if self.keys.is_empty() || rng.chance(1, 12) {
            return rng.bytes(16).try_into().unwrap();
        }
        let mut k = *rng.pick(&self.keys);
        if rng.chance(1, 8) { for b in k[9..].iter_mut() { *b = rng.byte(); } }
        k
    }
    fn write_line(&mut self, rng: &mut Rng, kind: &str, size: usize) {
        let (p, f, n) = gen_payload(rng, size);
        let data = payload_of(&p, &f.to_string(), &n.to_string()).unwrap();
        self.s.tally(&format!("payload.{}", payload_shape(&data)));
        self.s.tally(&format!("size.{}", match data.len() { 0 => "0", 1..=49 => "1-49", 50..=999 => "50-999", 1000..=9999 => "1k-10k", _ => "10k+" }));
        let key = ekey_of(&data);
        let r = if kind == "inst" { self.emit(format!("w {p} {f} {n} {}", rng.below(2))) } else { self.emit(format!("w {p} {f} {n}")) };
        if r.starts_with("ok") { self.keys.push(key); }
        // read it back at once in most cases
        if rng.chance(3, 4) { self.read_line(rng, kind, key, data.len()); }
    }
    fn read_line(&mut self, rng: &mut Rng, kind: &str, key: [u8; 16], len_hint: usize) {
        if kind == "inst" {
            self.emit(format!("r {}", hex::encode(key)));
        } else {
            let bl = match rng.below(8) { 0 => len_hint, 1 => len_hint.saturating_sub(1), 2 => 0, 3 => len_hint / 2, _ => len_hint + 64 };
            self.emit(format!("r {} {bl}", hex::encode(key)));
        }
    }
    fn len_of(&self, key: &[u8; 16]) -> usize {
        let m = match &self.h.mode { Mode::Dyn(d) => d.refm.get(&k9(key)).map(|o| o.data.len()), Mode::Inst(i) => i.refm.get(&k9(key)).map(|o| o.data.len()), _ => None };
        m.unwrap_or(16)
    }
}

fn run_store(g: &mut Gen, rng: &mut Rng, kind: &str, cases: usize, thorough: bool) {
    for c in 0..cases {
        g.begin(kind);
        let big = c % 9 == 8;
        let nw = rng.range(1, if big { 6 } else { 14 }) as usize;
        let sizes = size_programme(rng, nw, big);
        let reopen_w = if c % 3 == 0 { 0 } else { 6 };
        for (i, sz) in sizes.iter().enumerate() {
            g.write_line(rng, kind, *sz);
            // between writes: reads of earlier keys, queries, removes, flushes, reopen
            let extra = rng.below(4);
            for _ in 0..extra {
                let x = rng.below(100);
                let k = g.pick_key(rng);
                let ks = hex::encode(k);
                if x < 45 { let l = g.len_of(&k); g.read_line(rng, kind, k, l); }
                else if x < 60 { g.emit(format!("q {ks}")); }
                else if x < 68 && kind == "dyn" {
                    g.emit(format!("rm {ks}"));
                    g.emit(format!("q {ks}"));
                    let l = g.len_of(&k);
                    g.read_line(rng, kind, k, l);
                    if rng.chance(1, 2) { g.keys.retain(|x| k9(x) != k9(&k)); }
                }
                else if x < 74 && kind == "dyn" { if rng.chance(1, 2) { g.emit(format!("flush {}", rng.below(17))); } else { g.emit("flushall".into()); } }
                else if x >= 96 && kind == "inst" && c % 3 == 2 {
                    // a session that skips initialize(): drop + Installation::open, maybe reads
                    // and writes, then initialize() or a proper reopen
                    g.emit("open".into());
                    g.s.tally("inst.session_without_initialize");
                    let k2 = g.pick_key(rng);
                    g.emit(format!("r {}", hex::encode(k2)));
                    for _ in 0..rng.below(3) { let sz = rng.range(0, 300) as usize; g.write_line(rng, kind, sz); }
                    if rng.chance(1, 2) { g.emit("init".into()); } else { g.emit("reopen".into()); }
                    let k3 = g.pick_key(rng);
                    g.emit(format!("r {}", hex::encode(k3)));
                }
                else if x >= 95 && kind == "inst" { g.emit("init".into()); }
                else if x < 74 + reopen_w {
                    g.emit("reopen".into());
                    let k2 = g.pick_key(rng);
                    let l = g.len_of(&k2);
                    g.read_line(rng, kind, k2, l);
                }
                else if x < 90 && kind == "dyn" { g.emit(if rng.chance(1, 2) { "marks".into() } else { "count".into() }); }
                else { g.emit(format!("q {ks}")); }
            }
            if i == 0 && rng.chance(1, 6) {
                // the same content again (same key, new location)
                let k = g.keys.last().copied();
                if let Some(k) = k {
                    let data = match &g.h.mode { Mode::Dyn(d) => d.refm.get(&k9(&k)).map(|o| o.data.clone()), Mode::Inst(i) => i.refm.get(&k9(&k)).map(|o| o.data.clone()), _ => None };
                    if let Some(d) = data.filter(|d| d.len() <= 3000) {
                        if kind == "inst" { g.emit(format!("w {} 0 0 1", hex(&d))); } else { g.emit(format!("w {} 0 0", hex(&d))); }
                    }
                }
            }
        }
        if c % 4 == 1 { g.emit("reopen".into()); }
        // final sweep: every key written in the case
        let ks = g.keys.clone();
        for k in &ks {
            let l = g.len_of(k);
            if kind == "inst" { g.emit(format!("r {}", hex::encode(k))); } else { g.emit(format!("r {} {}", hex::encode(k), l + 8)); }
            g.emit(format!("q {}", hex::encode(k)));
        }
        if kind == "dyn" { g.emit("marks".into()); g.emit("count".into()); }
        g.end(kind);
        let _ = thorough;
    }
}

fn run_arch(g: &mut Gen, rng: &mut Rng, cases: usize) {
    for c in 0..cases {
        g.begin("arch");
        let big = c % 9 == 8;
        let nw = rng.range(1, if big { 5 } else { 10 }) as usize;
        let sizes = size_programme(rng, nw, big);
        let mut ents: Vec<(u16, u32, u32)> = vec![];
        for sz in &sizes {
            let (p, f, n) = gen_payload(rng, *sz);
            let data = payload_of(&p, &f.to_string(), &n.to_string()).unwrap();
            let m = *rng.pick(&["N", "N", "Z", "4"]);
            let comp = match m {
                "N" => "-".to_string(),
                _ => {
                    let mode = if m == "Z" { CompressionMode::ZLib } else { CompressionMode::LZ4 };
                    match build_blte(data.clone(), mode) { Some(b) => hex(&b[9..]), None => continue }
                }
            };
            g.s.tally(&format!("arch.mode.{m}"));
            let r = g.emit(format!("aw {m} {p} {f} {n} {comp}"));
            let t: Vec<&str> = r.split(' ').collect();
            if t.len() == 5 && t[0] == "ok" {
                let e = (t[1].parse().unwrap_or(0), t[2].parse().unwrap_or(0), t[3].parse().unwrap_or(0));
                ents.push(e);
                if rng.chance(2, 3) { g.emit(format!("ac {} {} {}", e.0, e.1, e.2)); }
                if rng.chance(1, 3) { g.emit(format!("araw {} {} {}", e.0, e.1, e.2)); }
            }
            for _ in 0..rng.below(3) {
                if ents.is_empty() { break; }
                let e = *rng.pick(&ents);
                match rng.below(10) {
                    0..=3 => { g.emit(format!("ac {} {} {}", e.0, e.1, e.2)); }
                    4 => { g.emit(format!("araw {} {} {}", e.0, e.1, e.2)); }
                    // the BLTE image without its local header (the "direct BLTE" branch)
                    5 => { g.emit(format!("ac {} {} {}", e.0, e.1 + LOCAL_HEADER_SIZE as u32, e.2 - LOCAL_HEADER_SIZE as u32)); }
                    // the local header alone / a short slice (returned raw)
                    6 => { g.emit(format!("ac {} {} {}", e.0, e.1, rng.below(34))); }
                    // beyond the end of the file, other archive
                    7 => { let last = ents.last().copied().unwrap_or(e); g.emit(format!("araw {} {} {}", e.0, last.1, last.2 + 1 + rng.below(5) as u32)); }
                    8 => { g.emit(format!("ac {} {} {}", e.0 + 1, e.1, e.2)); }
                    9 if rng.chance(1, 2) => { g.emit("anew".into()); g.s.tally("arch.manager_without_open_all"); }
                    _ => { g.emit("areopen".into()); g.emit(format!("ac {} {} {}", e.0, e.1, e.2)); }
                }
            }
        }
        for e in ents.clone() {
            g.emit(format!("ac {} {} {}", e.0, e.1, e.2));
            g.emit(format!("araw {} {} {}", e.0, e.1, e.2));
        }
        g.end("arch");
    }
}

/// size / offset limits: write positions around 2^30 (the .idx offset width), 2^31, 2^32 (u32
/// offset) on sparse data files
fn run_lim(g: &mut Gen, rng: &mut Rng, random: usize, thorough: bool) {
    g.begin("lim");
    let g30: u64 = 1 << 30;
    let mut ps: Vec<(u64, usize)> = vec![(0, 5), (1000, 0), (g30 - 100, 10), (g30 - 49, 10), (g30 - 48, 10), (g30 - 1, 3), (g30, 10), (g30 + 5, 10),
        (2 * g30, 1), (2 * g30 + 77, 40), (3 * g30 + 12345, 100), (4 * g30 - 200, 10), (4 * g30 - 1, 10), (4 * g30, 10), (4 * g30 + 5, 3)];
    for _ in 0..random {
        let base = *rng.pick(&[g30, g30, 2 * g30, 3 * g30, 4 * g30]);
        let d = rng.range(0, 5000);
        ps.push((if rng.chance(1, 2) { base + d } else { base - d.min(base) }, rng.range(0, 300) as usize));
    }
    for (i, (pos, n)) in ps.into_iter().enumerate() {
        let with_dyn = i == 3 || i == 7 || (thorough && pos < 1 << 31 && i % 4 == 0);
        g.emit(format!("{} {pos} {} {n}", if with_dyn { "lwd" } else { "lw" }, rng.byte()));
    }
    g.end("lim");
}

// ---------------------------------------------------------------- update-section boundaries
//
// The index key of an object is derived from its content (first nine bytes of the MD5 of its BLTE
// image), so a history of ordinary writes spreads over the 16 index buckets and never fills one
// bucket's update section (cap_pages x per_page pending entries), nor even one page of it.  The
// fill cases below craft payloads whose key falls into ONE chosen bucket (by search: 1 payload in
// 16 qualifies) and drive that bucket through the page and capacity boundaries of its update
// section with container-level operations only; at every boundary ("station") the container /
// installation is dropped and opened again BEFORE any further mutation of that bucket, and the
// whole bucket is swept.

/// a short payload (sometimes BLTE-shaped) whose index key lies in bucket `b` (`avoid = false`) or
/// in any other bucket (`avoid = true`); never the same index key twice in a case
fn craft_payload(rng: &mut Rng, b: u8, avoid: bool, seen: &mut std::collections::HashSet<K9>) -> (String, Vec<u8>, [u8; 16]) {
    loop {
        let mut v = match rng.below(24) {
            0 => b"BLTE".to_vec(),
            1 => b"BLTE\0\0\0\0N".to_vec(),
            _ => vec![],
        };
        let n = rng.range(if v.is_empty() { 0 } else { 1 }, 14) as usize;
        v.extend(rng.bytes(n));
        let key = ekey_of(&v);
        if (bucket_of(&k9(&key)) == b) != avoid && seen.insert(k9(&key)) {
            return (if v.is_empty() { "-".into() } else { hex(&v) }, v, key);
        }
    }
}

struct FillSpec {
    kind: &'static str,
    /// numbers of index mutations of the target bucket (counted from its last explicit flush)
    /// after which the store is reopened and swept, ascending
    stations: Vec<usize>,
    /// stations that are reached by a `rm` of an earlier key of the bucket instead of a write
    rm_at: Vec<usize>,
    /// per-mille chance of an unrelated operation after a mutation of the target bucket
    noise: u64,
    /// dyn only: some writes into the bucket, then an explicit `flush` of it, before the count
    /// starts (the later merge then meets a non-empty sorted section)
    pre_flush: bool,
    label: &'static str,
}

fn station_name(m: usize) -> String {
    let pp = ENTRIES_PER_PAGE;
    let cap = (MIN_UPDATE_SECTION_SIZE / UPDATE_PAGE_SIZE) * pp;
    // position in the update section after m mutations: the section is flushed by mutation
    // cap+1, 2*cap+1, ... (which then is its first pending entry again)
    let round = (m.max(1) - 1) / cap;
    let pend = m - round * cap;
    let what = if pend == cap { "section-full".to_string() }
        else if pend + 1 == cap { "section-full-minus-1".to_string() }
        else if round > 0 && pend == 1 { "section-overflowed-first-entry-after-flush".to_string() }
        else if round > 0 && pend == 2 { "section-overflowed-second-entry".to_string() }
        else if pend % pp == 0 { "page-full".to_string() }
        else if pend % pp == 1 { "page-first-entry".to_string() }
        else if pend % pp == pp - 1 { "page-full-minus-1".to_string() }
        else { "inside-page".to_string() };
    if round > 1 { format!("{what}-round{round}") } else { what }
}

fn fill_put(g: &mut Gen, rng: &mut Rng, kind: &str, b: u8, avoid: bool, seen: &mut std::collections::HashSet<K9>) -> Option<[u8; 16]> {
    let (p, _d, key) = craft_payload(rng, b, avoid, seen);
    let r = if kind == "inst" { g.emit(format!("w {p} 0 0 {}", rng.below(2))) } else { g.emit(format!("w {p} 0 0")) };
    if r.starts_with("ok") { g.keys.push(key); Some(key) } else { None }
}
fn fill_get(g: &mut Gen, kind: &str, k: &[u8; 16]) {
    if kind == "inst" { g.emit(format!("r {}", hex::encode(k))); } else { let l = g.len_of(k); g.emit(format!("r {} {}", hex::encode(k), l + 8)); }
}
fn fill_reopen(g: &mut Gen, rng: &mut Rng, kind: &str) {
    // inst: drop + open + initialize in one step, or as two (`open`, then `init`)
    if kind == "inst" && rng.chance(1, 3) { g.emit("open".into()); g.emit("init".into()); } else { g.emit("reopen".into()); }
}

fn fill_case(g: &mut Gen, rng: &mut Rng, sp: &FillSpec) {
    let kind = sp.kind;
    g.begin(kind);
    let b = rng.below(16) as u8;
    g.s.tally(&format!("fill.case.{kind}.{}", sp.label));
    let mut seen: std::collections::HashSet<K9> = std::collections::HashSet::new();
    // keys of the target bucket that are stored, in write order; removed ones; keys elsewhere
    let mut mine: Vec<[u8; 16]> = vec![];
    let mut gone: Vec<[u8; 16]> = vec![];
    let mut others: Vec<[u8; 16]> = vec![];

    if sp.pre_flush && kind == "dyn" {
        for _ in 0..rng.range(1, 30) { if let Some(k) = fill_put(g, rng, kind, b, false, &mut seen) { mine.push(k); } }
        if rng.chance(1, 2) { fill_reopen(g, rng, kind); }
        g.emit(format!("flush {b}"));
    }
    let last = sp.stations.last().copied().unwrap_or(0);
    let mut m = 0usize;
    while m < last {
        m += 1;
        if sp.rm_at.contains(&m) && kind == "dyn" && !mine.is_empty() {
            // remove a key of this bucket: the newest, the oldest, or any
            let i = match rng.below(4) { 0 => mine.len() - 1, 1 => 0, _ => rng.below(mine.len() as u64) as usize };
            let k = mine.remove(i);
            g.emit(format!("rm {}", hex::encode(k)));
            g.keys.retain(|x| k9(x) != k9(&k));
            gone.push(k);
            g.s.tally("fill.boundary_crossed_by.rm");
        } else {
            if let Some(k) = fill_put(g, rng, kind, b, false, &mut seen) { mine.push(k); }
            if sp.stations.contains(&m) { g.s.tally("fill.boundary_crossed_by.write"); }
        }
        if sp.stations.contains(&m) {
            g.s.tally(&format!("fill.station.{}", station_name(m)));
            fill_reopen(g, rng, kind);
            // sweep: every key of the bucket by query (newest first), the newest 24 (more than a
            // page), the oldest 3 and 16 others by read, removed keys, the entry count
            for k in mine.iter().rev().chain(gone.iter().rev()) { g.emit(format!("q {}", hex::encode(k))); }
            let n = mine.len();
            let mut ix: Vec<usize> = (n.saturating_sub(24)..n).rev().collect();
            ix.extend(0..n.min(3));
            for _ in 0..16 { if n > 0 { ix.push(rng.below(n as u64) as usize); } }
            for i in ix { fill_get(g, kind, &mine[i].clone()); }
            for k in gone.iter().rev().take(8) { fill_get(g, kind, &k.clone()); }
            if let Some(k) = others.last().copied() { fill_get(g, kind, &k); }
            if kind == "dyn" { g.emit("count".into()); }
            continue;
        }
        if rng.below(1000) < sp.noise {
            match rng.below(10) {
                0..=3 => { if let Some(k) = fill_put(g, rng, kind, b, true, &mut seen) { others.push(k); } }
                4 | 5 => { let k = if !mine.is_empty() && rng.chance(2, 3) { *rng.pick(&mine) } else { g.pick_key(rng) }; fill_get(g, kind, &k); }
                6 => { let k = g.pick_key(rng); g.emit(format!("q {}", hex::encode(k))); }
                7 => {
                    if kind == "dyn" { let ob = (b + 1 + rng.below(15) as u8) % 16; g.emit(format!("flush {ob}")); } else { g.emit("init".into()); }
                }
                8 => { fill_reopen(g, rng, kind); if let Some(k) = mine.last().copied() { fill_get(g, kind, &k); } }
                _ => {
                    if kind == "dyn" && !others.is_empty() {
                        let k = others.swap_remove(rng.below(others.len() as u64) as usize);
                        g.emit(format!("rm {}", hex::encode(k)));
                        g.emit(format!("q {}", hex::encode(k)));
                        g.keys.retain(|x| k9(x) != k9(&k));
                    }
                }
            }
        }
    }
    // final sweep: every key written in the case, every removed key of the bucket
    let ks = g.keys.clone();
    for k in &ks { fill_get(g, kind, k); g.emit(format!("q {}", hex::encode(k))); }
    for k in &gone { fill_get(g, kind, k); g.emit(format!("q {}", hex::encode(k))); }
    if kind == "dyn" { g.emit("marks".into()); g.emit("count".into()); }
    g.end(kind);
}

// ---------------------------------------------------------------- sorted-section size classes
//
// A bucket's `.idx` file is [40 bytes][18 bytes x sorted entries][zero padding up to the next
// multiple of UPDATE_SECTION_ALIGNMENT (64 KiB)][update pages]: where the update section lies
// depends on how many entries have been FLUSHED into the sorted section, and `save_index` and
// `load_index` compute that offset each on their own.  Up to 3638 flushed entries it is 65536
// however it is computed - and every case above stays there (at most capacity + a short flushed
// prefix = some 1300 entries per bucket); from 3639 entries it is 131072, from 7280 196608, ...
// The cases below take ONE bucket's sorted section across such a boundary through container-level
// writes / removes / flushes only, leave updates pending behind it, drop the store, open it again
// and sweep the whole bucket.

struct SortedSpec {
    kind: &'static str,
    /// which alignment boundary the sorted section crosses (1 = 64 KiB, 2 = 128 KiB, ...)
    k: usize,
    /// dyn only: explicit `flush` of the bucket when it holds exactly crossing-1, crossing,
    /// crossing+1, crossing+2 keys (the sorted section then has exactly that many entries), each
    /// followed by a few pending mutations and a reopen.  Otherwise (and always for an
    /// Installation, which has no flush) the merges are the implicit ones of a full update
    /// section: the sorted section grows by `capacity` entries at a time and passes the boundary
    /// with the first such merge that takes it there.
    explicit: bool,
    /// per-mille chance of an unrelated operation (other bucket, read, query) after a mutation
    noise: u64,
    /// read every stored key in the final sweep (otherwise a sample)
    read_all: bool,
    label: &'static str,
}

fn sorted_case(g: &mut Gen, rng: &mut Rng, sp: &SortedSpec) {
    let kind = sp.kind;
    let pp = ENTRIES_PER_PAGE;
    let cap = (MIN_UPDATE_SECTION_SIZE / UPDATE_PAGE_SIZE) * pp;
    let nb = sorted_crossing(sp.k);
    g.begin(kind);
    let b = rng.below(16) as u8;
    g.s.tally(&format!("fill.case.{kind}.{}", sp.label));
    let mut seen: std::collections::HashSet<K9> = std::collections::HashSet::new();
    let mut mine: Vec<[u8; 16]> = vec![];
    let mut gone: Vec<[u8; 16]> = vec![];
    let mut others: Vec<[u8; 16]> = vec![];

    // one mutation of the target bucket: a write of a new key, or (dyn, when asked) a remove of
    // a stored one (the newest, the oldest, or any)
    fn mutate(g: &mut Gen, rng: &mut Rng, kind: &str, b: u8, rm: bool, seen: &mut std::collections::HashSet<K9>, mine: &mut Vec<[u8; 16]>, gone: &mut Vec<[u8; 16]>) {
        if rm && kind == "dyn" && mine.len() > 1 {
            let i = match rng.below(4) { 0 => mine.len() - 1, 1 => 0, _ => rng.below(mine.len() as u64) as usize };
            let k = mine.remove(i);
            g.emit(format!("rm {}", hex::encode(k)));
            g.keys.retain(|x| k9(x) != k9(&k));
            gone.push(k);
        } else if let Some(k) = fill_put(g, rng, kind, b, false, seen) {
            mine.push(k);
        }
    }
    fn noise(g: &mut Gen, rng: &mut Rng, kind: &str, b: u8, seen: &mut std::collections::HashSet<K9>, mine: &[[u8; 16]], others: &mut Vec<[u8; 16]>) {
        match rng.below(6) {
            0 => { if let Some(k) = fill_put(g, rng, kind, b, true, seen) { others.push(k); } }
            1 | 2 => { if !mine.is_empty() { let k = *rng.pick(mine); fill_get(g, kind, &k); } }
            3 => { let k = g.pick_key(rng); g.emit(format!("q {}", hex::encode(k))); }
            4 => { if kind == "dyn" { let ob = (b + 1 + rng.below(15) as u8) % 16; g.emit(format!("flush {ob}")); } else { g.emit("init".into()); } }
            _ => { if let Some(k) = others.last().copied() { fill_get(g, kind, &k); } }
        }
    }
    // station: drop + open again BEFORE any further mutation of the bucket, then (`full`) every
    // key of the bucket by query, newest first, and the entry count - or the newest 64 (every
    // pending one is among them) and 64 others -, every removed key by query, the newest 24 /
    // oldest 3 / 16 others and the last removed ones by read
    fn station(g: &mut Gen, rng: &mut Rng, kind: &str, name: &str, full: bool, mine: &[[u8; 16]], gone: &[[u8; 16]], others: &[[u8; 16]]) {
        g.s.tally(&format!("fill.sorted_station.{name}"));
        g.s.tally(if full { "fill.sorted_station_sweep.every-key" } else { "fill.sorted_station_sweep.newest-64-and-sample" });
        fill_reopen(g, rng, kind);
        let n = mine.len();
        if full {
            for k in mine.iter().rev() { g.emit(format!("q {}", hex::encode(k))); }
        } else {
            for k in mine.iter().rev().take(64) { g.emit(format!("q {}", hex::encode(k))); }
            for _ in 0..64 { if n > 0 { let k = *rng.pick(mine); g.emit(format!("q {}", hex::encode(k))); } }
        }
        for k in gone.iter().rev() { g.emit(format!("q {}", hex::encode(k))); }
        let mut ix: Vec<usize> = (n.saturating_sub(24)..n).rev().collect();
        ix.extend(0..n.min(3));
        for _ in 0..16 { if n > 0 { ix.push(rng.below(n as u64) as usize); } }
        for i in ix { fill_get(g, kind, &mine[i]); }
        for k in gone.iter().rev().take(8) { fill_get(g, kind, k); }
        if let Some(k) = others.last() { fill_get(g, kind, k); }
        if kind == "dyn" && full { g.emit("count".into()); }
    }
    let pend_class = |p: usize| if p == 1 { "1".to_string() } else if p <= 3 { "2-3".into() } else if p <= pp { "within-page".into() } else { "several-pages".into() };

    if sp.explicit && kind == "dyn" {
        // ---- exact sizes: fill until the bucket holds crossing-1 keys (implicit merges happen on
        // the way), then flush explicitly at crossing-1 (the last size that ends below the
        // boundary), crossing, crossing+1, crossing+2
        while mine.len() < nb - 1 {
            let rm = rng.below(1000) < 4;
            mutate(g, rng, kind, b, rm, &mut seen, &mut mine, &mut gone);
            if rng.below(1000) < sp.noise { noise(g, rng, kind, b, &mut seen, &mine, &mut others); }
        }
        for (i, rel) in ["crossing-1", "crossing", "crossing+1", "crossing+2"].iter().enumerate() {
            // the bucket holds nb-1+i keys: after the flush its sorted section has exactly as many
            g.emit(format!("flush {b}"));
            // pending updates behind it; the first three scripts add exactly one key
            let script: Vec<bool> = if i < 3 {
                match rng.below(5) { 0 => vec![false, true, false], 1 => vec![true, false, false], _ => vec![false] }
            } else {
                (0..rng.range(2, 2 * pp as u64 + 2)).map(|_| rng.chance(1, 6)).collect()
            };
            for rm in &script { mutate(g, rng, kind, b, *rm, &mut seen, &mut mine, &mut gone); }
            station(g, rng, kind, &format!("{kind}.boundary{}.flushed={rel}.pending={}", sp.k, pend_class(script.len())), i % 2 == 1, &mine, &gone, &others);
            if i < 3 { debug_assert_eq!(mine.len(), nb + i); }
        }
        // the reloaded update section is appended to, saved and loaded once more
        for _ in 0..rng.range(1, pp as u64 + 2) { mutate(g, rng, kind, b, false, &mut seen, &mut mine, &mut gone); }
        station(g, rng, kind, &format!("{kind}.boundary{}.flushed=beyond.pending=appended-after-reload", sp.k), false, &mine, &gone, &others);
        // nothing pending: the file is the sorted section alone
        g.emit(format!("flush {b}"));
        station(g, rng, kind, &format!("{kind}.boundary{}.flushed=beyond.pending=0", sp.k), true, &mine, &gone, &others);
    } else {
        // ---- implicit merges only: mutation r*cap+1 finds the section full and merges r*cap
        // entries (fewer by the removes) into the sorted section; stations at the last full
        // section below the boundary and right behind the merge that crosses it
        let rounds = nb.div_ceil(cap);
        let full = rounds * cap;
        let st = [full, full + 1, full + 2, full + pp + 1 + rng.below(pp as u64) as usize];
        let rm_some = kind == "dyn";
        let mut m = 0usize;
        while m < st[3] {
            m += 1;
            // removes only early (the merged count must still pass the boundary)
            let rm = rm_some && m < cap && rng.below(1000) < 5;
            mutate(g, rng, kind, b, rm, &mut seen, &mut mine, &mut gone);
            if let Some(i) = st.iter().position(|x| *x == m) {
                let rel = ["section-full-before-crossing-merge", "merged-first-pending", "merged-second-pending", "merged-second-page"][i];
                station(g, rng, kind, &format!("{kind}.boundary{}.implicit.{rel}", sp.k), i % 2 == 1, &mine, &gone, &others);
            } else if rng.below(1000) < sp.noise { noise(g, rng, kind, b, &mut seen, &mine, &mut others); }
        }
    }
    // final sweep (the last station has just queried every key of the bucket): the keys of
    // other buckets by query, a sample (or all) by read
    let ks = g.keys.clone();
    for k in others.iter() { g.emit(format!("q {}", hex::encode(k))); }
    if sp.read_all {
        for k in ks.iter().chain(gone.iter()) { fill_get(g, kind, k); }
    } else {
        for _ in 0..200 { let k = *rng.pick(&ks); fill_get(g, kind, &k); }
        for k in gone.iter().take(20) { fill_get(g, kind, k); }
    }
    if kind == "dyn" { g.emit("marks".into()); g.emit("count".into()); }
    g.end(kind);
}

/// stations around the page boundaries of the first `pages` pages and around the capacity of the
/// update section (`rounds` overflows)
fn run_fill(g: &mut Gen, rng: &mut Rng, thorough: bool) {
    let pp = ENTRIES_PER_PAGE;
    let cap = (MIN_UPDATE_SECTION_SIZE / UPDATE_PAGE_SIZE) * pp;
    // ---- page boundaries (cheap: up to four pages of one bucket)
    let page_cases = if thorough { 60 } else { 8 };
    for c in 0..page_cases {
        let kind = if c % 3 == 2 { "inst" } else { "dyn" };
        let mut st: Vec<usize> = vec![];
        for p in 1..=rng.range(1, 4) as usize {
            for d in [-1i64, 0, 1, 2] {
                if rng.chance(if d == 1 { 9 } else { 5 }, 10) { st.push((p as i64 * pp as i64 + d) as usize); }
            }
        }
        if st.is_empty() { st.push(pp + 1); }
        st.sort_unstable(); st.dedup();
        let rm_at: Vec<usize> = st.iter().copied().filter(|_| rng.chance(1, 4)).collect();
        fill_case(g, rng, &FillSpec { kind, stations: st, rm_at, noise: if c % 2 == 0 { 0 } else { 250 }, pre_flush: c % 4 == 3, label: "pages" });
    }
    // ---- capacity of the update section: cap-1, cap, cap+1 (the mutation that finds the section
    // full: implicit flush, then retry), cap+2; each followed at once by a reopen
    let around = |c: usize| vec![c - 1, c, c + 1, c + 2];
    // 1. DynamicContainer, nothing but writes into the one bucket
    fill_case(g, rng, &FillSpec { kind: "dyn", stations: around(cap), rm_at: vec![], noise: 0, pre_flush: false, label: "capacity" });
    // 2. Installation, light noise
    fill_case(g, rng, &FillSpec { kind: "inst", stations: around(cap), rm_at: vec![], noise: 20, pre_flush: false, label: "capacity" });
    // 3. DynamicContainer with a flushed prefix, noise, earlier removes, and boundaries reached
    // by a remove (always the overflowing mutation cap+1, the others by chance)
    {
        let mut st = around(cap);
        let mut rm_at = vec![cap + 1];
        for x in [cap - 1, cap, cap + 2] { if rng.chance(1, 3) { rm_at.push(x); } }
        for _ in 0..3 { let x = rng.range(2, cap as u64 - 2) as usize; rm_at.push(x); if rng.chance(1, 2) { st.push(x); } }
        st.sort_unstable(); st.dedup();
        fill_case(g, rng, &FillSpec { kind: "dyn", stations: st, rm_at, noise: 30, pre_flush: true, label: "capacity-rm" });
    }
    if thorough {
        // second overflow, by write and by remove; more buckets
        let twice = |c: usize| vec![c, c + 1, 2 * c - 1, 2 * c, 2 * c + 1, 2 * c + 2];
        fill_case(g, rng, &FillSpec { kind: "dyn", stations: twice(cap), rm_at: vec![2 * cap + 1], noise: 10, pre_flush: false, label: "capacity-twice" });
        fill_case(g, rng, &FillSpec { kind: "inst", stations: twice(cap), rm_at: vec![], noise: 10, pre_flush: false, label: "capacity-twice" });
        for c in 0..6 {
            let kind = if c % 2 == 0 { "dyn" } else { "inst" };
            let mut st = around(cap);
            for _ in 0..2 { st.push(rng.range(1, cap as u64 - 2) as usize); }
            st.sort_unstable(); st.dedup();
            let rm_at: Vec<usize> = st.iter().copied().filter(|_| rng.chance(1, 3)).collect();
            fill_case(g, rng, &FillSpec { kind, stations: st, rm_at, noise: 40, pre_flush: c % 4 == 0, label: "capacity-mixed" });
        }
    }
    // ---- sorted section across the alignment boundary of the update section
    sorted_case(g, rng, &SortedSpec { kind: "dyn", k: 1, explicit: true, noise: 0, read_all: false, label: "sorted-64k-exact" });
    sorted_case(g, rng, &SortedSpec { kind: "inst", k: 1, explicit: false, noise: 0, read_all: false, label: "sorted-64k-implicit" });
    if thorough {
        sorted_case(g, rng, &SortedSpec { kind: "dyn", k: 1, explicit: false, noise: 3, read_all: true, label: "sorted-64k-implicit" });
        sorted_case(g, rng, &SortedSpec { kind: "dyn", k: 2, explicit: true, noise: 2, read_all: true, label: "sorted-128k-exact" });
        sorted_case(g, rng, &SortedSpec { kind: "inst", k: 2, explicit: false, noise: 1, read_all: false, label: "sorted-128k-implicit" });
    }
}

fn main() {
    let args = Args::parse();
    quiet_panics();
    let mut s = Session::new(&args.out);
    s.rule = "seeded histories on the real DynamicContainer (with a ResidencyContainer), Installation and ArchiveManager, one temp dir per case: 1..14 writes whose sizes follow a programme (large-then-small, slowly growing, equal, file exactly doubling +-1, empty payloads between others, one big then many tiny, random; every 9th case 20-70 KB payloads) with payload classes random / constant fill / 'BLTE'+garbage / 'BLTE' at 0x1E / whole valid BLTE file (N, Z, LZ4) / image of a local entry (30-byte header + BLTE) / the 49-byte witness shape; interleaved reads of earlier keys (own tail or foreign tail after the 9-byte prefix, absent keys; buffer = len, len-1, 0, len/2, len+64), queries, removes, flush/flushall, reopen (drop + new + open/initialize), residency-mark and entry counts; final sweep reads every key; fill cases (dyn and inst): payloads crafted by search so that their index key (MD5-derived) falls into ONE chosen bucket, driving that bucket's update section through its page boundaries (8 cases: 1-4 pages, stations at k*per_page-1, k*per_page, +1, +2) and its capacity (3 cases: cap-1, cap, cap+1 = the mutation that finds the section full and flushes implicitly, cap+2; pure writes on a DynamicContainer, writes on an Installation, and a DynamicContainer case with a flushed prefix, noise in other buckets, mid-fill reopens and the overflowing mutation being a remove; thorough also the second overflow at 2*cap+1) - at every station the store is dropped and opened again BEFORE any further mutation of the bucket, then every key of the bucket is queried (newest first), the newest 24 / oldest 3 / 16 random ones and the removed ones are read, entry_count is compared, and the case ends with a full read+query sweep; sorted-section size cases (the update section of a bucket's .idx file lies at the next multiple of UPDATE_SECTION_ALIGNMENT = 64 KiB behind the 40 + 18 x n bytes of the n FLUSHED entries, computed by save_index and by load_index each on its own: 65536 up to n = 3638, 131072 from n = 3639, 196608 from n = 7280): one DynamicContainer case fills one bucket (payload search; a few removes on the way) to crossing-1 = 3638 keys, then flush(bucket) at exactly 3638 / 3639 / 3640 / 3641 keys, each followed by 1-3 pending mutations (write, or write+remove+write) resp. 2..2*per_page+1 pending ones with removes, then drop + open and a sweep (every key of the bucket by query at 3639, 3641 and at the end, otherwise the newest 64 - which include every pending one - and 64 random ones; every removed key; newest 24 / oldest 3 / 16 random keys by read; entry_count), then appends to the RELOADED update section + reopen + sweep, then flush + reopen + sweep (file without update section); one Installation case (no flush there) writes 3*capacity + a second page of entries into one bucket so that the third implicit merge (mutation 3781) takes the sorted section to 3780 entries, with reopen + sweep at 3780 (section full, 2520 sorted: still below the boundary), 3781, 3782 and in the second page; thorough also the DynamicContainer implicit-merge variant with noise, and the next boundary (7279..7282 flushed entries exactly; Installation to 6*capacity+1) with every key read at the end; arch stream: modes N/Z/LZ4, read_content / read_raw of exact entries, header-less BLTE slice, short slices, ranges beyond the mapping, unknown archive, reopen; non-trivial = the case read a key written before a later write, or after a reopen, or a BLTE-shaped payload; distinct = canonical request text of the case".into();
    let mut rng = Rng::new(args.seed);
    let rt = tokio::runtime::Builder::new_current_thread().enable_all().build().expect("runtime");
    let h = H { mode: Mode::None, rt, trace: vec![], failed: false, st_hist_reads: 0, st_reopen_reads: 0, st_blte_reads: 0, st_small_after_large: 0, last_total: 0, bmut: [0; 16], bsorted: [0; 16], bpend: [0; 16], blive: [0; 16] };
    s.extra.insert("constants".into(), serde_json::json!({"cap_pages": MIN_UPDATE_SECTION_SIZE / UPDATE_PAGE_SIZE, "per_page": ENTRIES_PER_PAGE, "local_header_size": LOCAL_HEADER_SIZE}));

    if let Some(p) = &args.replay {
        let mut h = h;
        let mut text = String::new();
        for l in read_case(p) {
            let r = h.exec(&mut s, &l);
            s.line(&l, &r);
            if l.len() < 200 { println!("impl  {l} -> {}", if r.len() > 200 { &r[..200] } else { &r }); }
            text.push_str(&l);
        }
        s.case(Some(&text));
        s.finish();
        return;
    }
    {
        let t = args.thorough();
        let mut g = Gen { h, s: &mut s, case_text: String::new(), keys: vec![] };
        run_store(&mut g, &mut rng, "dyn", if t { 1500 } else { 170 }, t);
        run_store(&mut g, &mut rng, "inst", if t { 900 } else { 110 }, t);
        run_arch(&mut g, &mut rng, if t { 700 } else { 90 });
        run_lim(&mut g, &mut rng, if t { 60 } else { 10 }, t);
        run_fill(&mut g, &mut rng, t);
    }
    s.finish();
}
