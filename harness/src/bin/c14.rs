//! C14 — retries are bounded, ordered and respect backoff limits.
//!
//! K: `RetryPolicy::execute` (real code, tokio paused clock) vs the Lean model `Model.Retry.execute`
//!    on the same scripted outcome sequence; `RetryPolicy::from_env` vs `Model.Retry.fromEnv`;
//!    `CdnClient::download_with_retry` status mapping against a loopback mock server vs
//!    `Model.Retry.classifyStatus` + `execute`.
//! O: the property as stated, evaluated on the implementation's observations only.
//!
//! Line protocol (one response line per request line):
//!   exec mx=<u32> ini=<ns> max=<ns> mul=<f64 bits, 16 hex> jit=<0|1> cap=<ns> out=<tok,tok,…> [obs=<ms,ms,…|->]
//!        -> calls=<n> d=<ms,ms,…|-> res=<tok|panic|starved|runaway>        (jit=0)
//!        -> calls=<n> d=jit-ok res=<…>                                      (jit=1; the model answers
//!           `d=jit-bad@i` when the observed delay i is outside base..base+30 %)
//!   env r=<str> b=<str> m=<str> x=<str> j=<str> xbits=<16 hex|none>
//!        -> mx=<u32> ini=<ns> max=<ns> mul=<bits> jit=<0|1>
//!   cdn st=<status[:retry-after hex],…>
//!        -> reqs=<n> res=<tok>
//!   pu bits=<32|64> s=<str>      -> v=<n>|v=none      (`str::parse::<u32|u64>`, the parser of from_env)
//!   f64 s=<str>                  -> acc=<0|1>         (`str::parse::<f64>().is_ok()`)
//!   sleep d=<ns> fits=<0|1>      -> ms=<whole ms, capped>   (`tokio::time::sleep(d)` under the paused
//!        clock; fits = `Instant::now().checked_add(d).is_some()`)
//! For jit=0 the model answers an `exec` line twice: with the hand-written loop and with the loop
//! assembled from the pieces lib/rs2lean_retry.py read in retry.rs (`source-shape-differs` if not equal).
//! Outcome tokens: O<v> Ok(v); T Timeout; U ServiceUnavailable; W<id> Network; V<code> ServerError;
//!   H<code> HttpStatus; L- / L<ns> RateLimited{None / Some(ns)}; P<id> Parse; X<id> Other;
//!   A AllHostsFailed; K InvalidKey; E<id> InvalidEndpoint; G RangeNotSupported; M<id>
//!   UnsupportedOnWasm; 8 Utf8; C<id> Cache(Other).
//! Env strings: `~` unset, `!` set to a non-UTF-8 value, `-` empty, otherwise hex of the UTF-8 bytes.
//! Delays are printed in whole milliseconds rounded up, because tokio's timer wheel rounds every
//! deadline up to the next millisecond (the paused clock lands exactly on that tick); delays
//! above tokio's far-future clamp (30 years, `cap`) are observed as the clamp.
use cascette_protocol::{CdnClient, CdnEndpoint, ContentType, ProtocolError, RetryPolicy};
use http::StatusCode;
use std::cell::{Cell, RefCell};
use std::panic::AssertUnwindSafe;
use std::time::Duration;
use tokio::runtime::Runtime;
use tokio::time::Instant;
use verif_harness::*;

const NS: u128 = 1_000_000_000;
const MS: u128 = 1_000_000;
/// tokio `Sleep::far_future()`: deadlines that overflow `Instant` become now + 30 years.
const CAP_NS: u128 = 86_400 * 365 * 30 * NS;
const DUR_MAX_NS: u128 = (u64::MAX as u128) * NS + 999_999_999;

// ---------------------------------------------------------------- tokens

#[derive(Clone, Debug, PartialEq)]
enum Tok {
    Ok(u32),
    Timeout,
    Unavail,
    Net(u32),
    Server(u16),
    Status(u16),
    Rate(Option<u128>),
    Parse(u32),
    Other(u32),
    AllHosts,
    InvalidKey,
    Endpoint(u32),
    Range,
    Wasm(u32),
    Utf8,
    Cache(u32),
}

fn tok_str(t: &Tok) -> String {
    match t {
        Tok::Ok(v) => format!("O{v}"),
        Tok::Timeout => "T".into(),
        Tok::Unavail => "U".into(),
        Tok::Net(i) => format!("W{i}"),
        Tok::Server(c) => format!("V{c}"),
        Tok::Status(c) => format!("H{c}"),
        Tok::Rate(None) => "L-".into(),
        Tok::Rate(Some(h)) => format!("L{h}"),
        Tok::Parse(i) => format!("P{i}"),
        Tok::Other(i) => format!("X{i}"),
        Tok::AllHosts => "A".into(),
        Tok::InvalidKey => "K".into(),
        Tok::Endpoint(i) => format!("E{i}"),
        Tok::Range => "G".into(),
        Tok::Wasm(i) => format!("M{i}"),
        Tok::Utf8 => "8".into(),
        Tok::Cache(i) => format!("C{i}"),
    }
}

fn parse_tok(s: &str) -> Option<Tok> {
    let (h, rest) = s.split_at(s.char_indices().nth(1).map_or(s.len(), |(i, _)| i));
    let num32 = || rest.parse::<u32>().ok();
    let code = || rest.parse::<u16>().ok().filter(|c| (100..=999).contains(c));
    let none = |t: Tok| if rest.is_empty() { Some(t) } else { None };
    match h {
        "O" => Some(Tok::Ok(num32()?)),
        "T" => none(Tok::Timeout),
        "U" => none(Tok::Unavail),
        "W" => Some(Tok::Net(num32()?)),
        "V" => Some(Tok::Server(code()?)),
        "H" => Some(Tok::Status(code()?)),
        "L" => {
            if rest == "-" {
                Some(Tok::Rate(None))
            } else {
                let h = rest.parse::<u128>().ok()?;
                if h > DUR_MAX_NS { None } else { Some(Tok::Rate(Some(h))) }
            }
        }
        "P" => Some(Tok::Parse(num32()?)),
        "X" => Some(Tok::Other(num32()?)),
        "A" => none(Tok::AllHosts),
        "K" => none(Tok::InvalidKey),
        "E" => Some(Tok::Endpoint(num32()?)),
        "G" => none(Tok::Range),
        "M" => Some(Tok::Wasm(num32()?)),
        "8" => none(Tok::Utf8),
        "C" => Some(Tok::Cache(num32()?)),
        _ => None,
    }
}

fn dur(ns: u128) -> Duration {
    Duration::new((ns / NS) as u64, (ns % NS) as u32)
}

fn make(t: &Tok) -> Result<u32, ProtocolError> {
    Err(match t {
        Tok::Ok(v) => return Ok(*v),
        Tok::Timeout => ProtocolError::Timeout,
        Tok::Unavail => ProtocolError::ServiceUnavailable,
        Tok::Net(i) => ProtocolError::Network(std::io::Error::other(i.to_string())),
        Tok::Server(c) => ProtocolError::ServerError(StatusCode::from_u16(*c).expect("status")),
        Tok::Status(c) => ProtocolError::HttpStatus(StatusCode::from_u16(*c).expect("status")),
        Tok::Rate(h) => ProtocolError::RateLimited { retry_after: h.map(dur) },
        Tok::Parse(i) => ProtocolError::Parse(i.to_string()),
        Tok::Other(i) => ProtocolError::Other(i.to_string()),
        Tok::AllHosts => ProtocolError::AllHostsFailed,
        Tok::InvalidKey => ProtocolError::InvalidKey,
        Tok::Endpoint(i) => ProtocolError::InvalidEndpoint(i.to_string()),
        Tok::Range => ProtocolError::RangeNotSupported,
        Tok::Wasm(i) => ProtocolError::UnsupportedOnWasm(i.to_string()),
        Tok::Utf8 => ProtocolError::Utf8(String::from_utf8(vec![0xff]).expect_err("bad utf8")),
        Tok::Cache(i) => ProtocolError::Cache(cascette_protocol::cache::CacheError::Other(i.to_string())),
    })
}

/// canonical token of what `execute` returned (payload ids recovered from the error's fields)
fn unmake(r: &Result<u32, ProtocolError>) -> String {
    let id = |s: &str| s.parse::<u32>().map_or("?".to_string(), |v| v.to_string());
    match r {
        Ok(v) => format!("O{v}"),
        Err(e) => match e {
            ProtocolError::Timeout => "T".into(),
            ProtocolError::ServiceUnavailable => "U".into(),
            ProtocolError::Network(io) => format!("W{}", id(&io.to_string())),
            ProtocolError::ServerError(c) => format!("V{}", c.as_u16()),
            ProtocolError::HttpStatus(c) => format!("H{}", c.as_u16()),
            ProtocolError::RateLimited { retry_after: None } => "L-".into(),
            ProtocolError::RateLimited { retry_after: Some(d) } => format!("L{}", d.as_nanos()),
            ProtocolError::Parse(s) => format!("P{}", id(s)),
            ProtocolError::Other(s) => format!("X{}", id(s)),
            ProtocolError::AllHostsFailed => "A".into(),
            ProtocolError::InvalidKey => "K".into(),
            ProtocolError::InvalidEndpoint(s) => format!("E{}", id(s)),
            ProtocolError::RangeNotSupported => "G".into(),
            ProtocolError::UnsupportedOnWasm(s) => format!("M{}", id(s)),
            ProtocolError::Utf8(_) => "8".into(),
            ProtocolError::Cache(cascette_protocol::cache::CacheError::Other(s)) => format!("C{}", id(s)),
            ProtocolError::Cache(_) => "C?".into(),
            ProtocolError::Http(e) => format!("Q{}", if e.is_connect() { "c" } else if e.is_timeout() { "t" } else { "o" }),
        },
    }
}

/// The property's own view of "retryable" for the clear-cut kinds (O does not consult the
/// code's table): transient transport/server conditions are retried, malformed input, client
/// errors and configuration errors are not. `None` = the property does not say.
fn oracle_retryable(t: &Tok) -> Option<bool> {
    Some(match t {
        Tok::Ok(_) => return None,
        Tok::Timeout | Tok::Unavail | Tok::Net(_) | Tok::Rate(_) => true,
        Tok::Server(c) => {
            if (500..=599).contains(c) { true } else { return None }
        }
        Tok::Status(c) => match c {
            429 | 500 | 502 | 503 | 504 => true,
            400 | 401 | 403 | 404 | 405 | 410 | 416 => false,
            _ => return None,
        },
        Tok::Parse(_) | Tok::InvalidKey | Tok::Endpoint(_) | Tok::Utf8 | Tok::Wasm(_) | Tok::Range => false,
        Tok::Other(_) | Tok::AllHosts | Tok::Cache(_) => return None,
    })
}

// ---------------------------------------------------------------- exec

#[derive(Clone, Debug)]
struct Pol {
    mx: u32,
    ini: u128,
    max: u128,
    mul: f64,
    jit: bool,
}

fn pol_str(p: &Pol) -> String {
    format!("mx={} ini={} max={} mul={:016x} jit={} cap={}", p.mx, p.ini, p.max, p.mul.to_bits(), p.jit as u8, CAP_NS)
}

fn new_rt() -> Runtime {
    tokio::runtime::Builder::new_current_thread().enable_all().start_paused(true).build().expect("runtime")
}

struct Obs {
    calls: usize,
    /// virtual time between consecutive closure calls, then (if non-zero or after a panic) the
    /// time between the last call and the return/panic, in ns
    gaps: Vec<u128>,
    tail: u128,
    res: String,
    panic_msg: Option<String>,
}

fn ceil_ms(ns: u128) -> u128 {
    ns.div_ceil(MS)
}

fn run_exec(rt: &mut Runtime, pol: &Pol, script: &[Tok]) -> Obs {
    let policy = RetryPolicy {
        max_attempts: pol.mx,
        initial_backoff: dur(pol.ini),
        max_backoff: dur(pol.max),
        multiplier: pol.mul,
        jitter: pol.jit,
    };
    let calls = Cell::new(0usize);
    let times: RefCell<Vec<Instant>> = RefCell::new(vec![]);
    let overrun = Cell::new(false);
    let hard_cap = script.len() + 3;
    let r = catch(AssertUnwindSafe(|| {
        rt.block_on(async {
            let r = policy
                .execute(|| {
                    let i = calls.get();
                    calls.set(i + 1);
                    times.borrow_mut().push(Instant::now());
                    if i >= hard_cap {
                        panic!("runaway: closure called {} times for a script of {}", i + 1, script.len());
                    }
                    let out = if i < script.len() {
                        make(&script[i])
                    } else {
                        // script exhausted: a non-retryable error ends a correct loop at once (the
                        // case is then reported as `starved`); a loop that ignores it runs into
                        // the hard cap
                        overrun.set(true);
                        Err(ProtocolError::Parse("overrun".into()))
                    };
                    async move { out }
                })
                .await;
            (r, Instant::now())
        })
    }));
    let times = times.into_inner();
    let mut gaps: Vec<u128> = times.windows(2).map(|w| (w[1] - w[0]).as_nanos()).collect();
    let (res, end, panic_msg): (String, Instant, Option<String>) = match r {
        Ok((r, end)) => (if overrun.get() { "starved".to_string() } else { unmake(&r) }, end, None),
        Err(msg) => {
            let end = rt.block_on(async { Instant::now() });
            *rt = new_rt();
            (if msg.starts_with("runaway") { "runaway".to_string() } else { "panic".to_string() }, end, Some(msg))
        }
    };
    let tail = times.last().map_or(0, |l| (end - *l).as_nanos());
    if tail > 0 {
        gaps.push(tail);
    }
    // `calls` counts scripted attempts only (not the probe call after the script ran out)
    let ncalls = if overrun.get() && panic_msg.is_none() { calls.get().min(script.len()) } else { calls.get() };
    Obs { calls: ncalls, gaps, tail, res, panic_msg }
}

fn ms_list(gaps: &[u128]) -> String {
    if gaps.is_empty() {
        "-".into()
    } else {
        gaps.iter().map(|g| ceil_ms((*g).min(CAP_NS)).to_string()).collect::<Vec<_>>().join(",")
    }
}

fn sane_mul(m: f64) -> bool {
    m.is_finite() && m >= 0.0
}

fn panic_sig(pol: &Pol, script: &[Tok], msg: &str) -> String {
    if msg.starts_with("runaway") {
        return "attempts-bound:runaway".into();
    }
    let big_hint = script.iter().any(|t| matches!(t, Tok::Rate(Some(h)) if *h > DUR_MAX_NS / 2));
    let _ = big_hint;
    if msg.contains("overflow when adding durations") && pol.jit {
        "panic:jitter-add-overflow".into()
    } else if pol.mul < 0.0 && pol.mul.is_finite() || pol.mul == f64::NEG_INFINITY {
        "panic:negative-multiplier".into()
    } else if (pol.max / NS) as f64 >= 18_446_744_073_709_551_615.0 {
        "panic:max-backoff-overflows-f64-seconds".into()
    } else {
        "panic:other".into()
    }
}

/// O for one execution (jitter off, or jitter on with the jitter-off observation as baseline).
fn oracle_exec(s: &mut Session, pol: &Pol, script: &[Tok], o: &Obs, base: Option<&Obs>, replay: &[String]) {
    let desc = format!("{} out={}", pol_str(pol), script.iter().map(tok_str).collect::<Vec<_>>().join(","));
    if let Some(msg) = &o.panic_msg {
        s.oracle_fail(&panic_sig(pol, script, msg), &format!("execute panicked ({msg}) after {} call(s): {desc}", o.calls), replay);
        return;
    }
    // 1. attempts
    if o.calls as u128 > pol.mx as u128 + 1 {
        s.oracle_fail("attempts-bound", &format!("{} calls with max_attempts={}: {desc}", o.calls, pol.mx), replay);
    }
    // 2. stop point, by the property's own classification where it is clear-cut; the code's
    //    `should_retry` decides the rest (kinds the property does not classify)
    let mut want_stop = None;
    for (i, t) in script.iter().enumerate() {
        let retry = match t {
            Tok::Ok(_) => false,
            t => oracle_retryable(t).unwrap_or_else(|| make(t).err().is_some_and(|e| e.should_retry())),
        };
        if !retry || i as u128 >= pol.mx as u128 {
            want_stop = Some(i);
            break;
        }
    }
    match want_stop {
        Some(i) => {
            if o.calls != i + 1 {
                let shape = if o.calls < i + 1 {
                    "stop-early-on-retryable"
                } else {
                    match &script[i] {
                        Tok::Ok(_) => "continued-after-ok",
                        t if oracle_retryable(t) == Some(false) || (i as u128) < pol.mx as u128 => "continued-after-non-retryable",
                        _ => "attempts-bound",
                    }
                };
                s.oracle_fail(shape, &format!("closure called {} times, property says {}: {desc}", o.calls, i + 1), replay);
            } else if o.res != tok_str(&script[i]) {
                s.oracle_fail("result-not-last-outcome", &format!("returned {} but attempt {} produced {}: {desc}", o.res, i + 1, tok_str(&script[i])), replay);
            }
        }
        None => {
            // script of retryable errors shorter than max_attempts+1: the loop must consume it all
            if o.res != "starved" || o.calls != script.len() {
                s.oracle_fail("stop-early-on-retryable", &format!("script exhausted expected, got calls={} res={}: {desc}", o.calls, o.res), replay);
            }
        }
    }
    // 3. no waiting after the deciding attempt
    if o.tail > 0 {
        s.oracle_fail("tail-wait", &format!("waited {} ns after the last attempt: {desc}", o.tail), replay);
    }
    // 4. delays
    let n = o.gaps.len().min(script.len());
    if let Some(b) = base {
        // jitter on: same decisions as without jitter, each delay within base ..= base + 30 %
        if b.calls != o.calls || b.res != o.res {
            s.oracle_fail("jitter-changes-outcome", &format!("jitter off: calls={} res={}; on: calls={} res={}: {desc}", b.calls, b.res, o.calls, o.res), replay);
            return;
        }
        for i in 0..n.min(b.gaps.len()) {
            let (off, on) = (ceil_ms(b.gaps[i].min(CAP_NS)), ceil_ms(o.gaps[i].min(CAP_NS)));
            if on < off || (on - off) * 10 > off * 3 {
                s.oracle_fail("jitter-range", &format!("delay {i}: {on} ms with jitter, {off} ms without (allowed +30 %): {desc}"), replay);
                break;
            }
        }
        return;
    }
    // expected backoff sequence (f64, like the documented formula) for sane multipliers
    // two readings of "exponentially growing, never above max": the initial value is clamped
    // before (bk) or after (bu) it is multiplied; the property does not choose, O accepts both
    let max_s = pol.max as f64 / 1e9;
    let mut bk = (pol.ini.min(pol.max)) as f64 / 1e9;
    let mut bu = pol.ini as f64 / 1e9;
    for i in 0..n {
        let got_ms = ceil_ms(o.gaps[i].min(CAP_NS));
        match &script[i] {
            Tok::Rate(Some(h)) => {
                if got_ms != ceil_ms((*h).min(CAP_NS)) {
                    s.oracle_fail("hint-not-honoured", &format!("delay {i} is {got_ms} ms, Retry-After hint is {h} ns: {desc}"), replay);
                }
            }
            _ => {
                if got_ms > ceil_ms(pol.max.min(CAP_NS)) {
                    let sig = if i == 0 { "first-delay-exceeds-max-backoff" } else { "later-delay-exceeds-max-backoff" };
                    s.oracle_fail(sig, &format!("delay {i} is {got_ms} ms > max_backoff {} ns: {desc}", pol.max), replay);
                } else if sane_mul(pol.mul) && pol.max < CAP_NS {
                    let want = (bk * 1e3).ceil();
                    let want2 = (bu.min(max_s) * 1e3).ceil();
                    if (got_ms as f64 - want).abs() > 1.0 + want * 1e-9 && (got_ms as f64 - want2).abs() > 1.0 + want2 * 1e-9 {
                        s.oracle_fail("backoff-growth", &format!("delay {i} is {got_ms} ms, min(initial*multiplier^{i}, max) is {want} ms: {desc}"), replay);
                    }
                }
            }
        }
        if sane_mul(pol.mul) {
            bk = (bk * pol.mul).min(max_s);
            bu = (bu * pol.mul).min(max_s);
        }
    }
}

fn parse_exec(toks: &[&str]) -> Option<(Pol, Vec<Tok>)> {
    let mut mx = None;
    let mut ini = None;
    let mut max = None;
    let mut mul = None;
    let mut jit = None;
    let mut out = None;
    for t in toks {
        let (k, v) = t.split_once('=')?;
        match k {
            "mx" => mx = Some(v.parse::<u32>().ok()?),
            "ini" => ini = Some(v.parse::<u128>().ok().filter(|x| *x <= DUR_MAX_NS)?),
            "max" => max = Some(v.parse::<u128>().ok().filter(|x| *x <= DUR_MAX_NS)?),
            "mul" => mul = Some(f64::from_bits(u64::from_str_radix(v, 16).ok().filter(|_| v.len() == 16)?)),
            "jit" => jit = Some(match v { "0" => false, "1" => true, _ => return None }),
            "cap" => { if v.parse::<u128>().ok()? != CAP_NS { return None; } }
            "out" => {
                out = Some(if v == "-" { vec![] } else { v.split(',').map(parse_tok).collect::<Option<Vec<_>>>()? });
            }
            "obs" => {}
            _ => return None,
        }
    }
    Some((Pol { mx: mx?, ini: ini?, max: max?, mul: mul?, jit: jit? }, out?))
}

fn exec_req(pol: &Pol, script: &[Tok]) -> String {
    format!("exec {} out={}", pol_str(pol), if script.is_empty() { "-".to_string() } else { script.iter().map(tok_str).collect::<Vec<_>>().join(",") })
}

/// run one exec case on the real code, emit the K line(s), evaluate O.
fn do_exec(s: &mut Session, rt: &mut Runtime, pol: &Pol, script: &[Tok]) -> String {
    let off_pol = Pol { jit: false, ..pol.clone() };
    let off = run_exec(rt, &off_pol, script);
    let key = exec_req(pol, script);
    let nontrivial = !matches!(script.first(), Some(Tok::Ok(_)) | None);
    let resp;
    if !pol.jit {
        resp = format!("calls={} d={} res={}", off.calls, ms_list(&off.gaps), off.res);
        s.line(&key, &resp);
        oracle_exec(s, pol, script, &off, None, &[key.clone()]);
    } else {
        let on = run_exec(rt, pol, script);
        let req = format!("{key} obs={}", ms_list(&on.gaps));
        resp = format!("calls={} d={} res={}", on.calls, if on.res == "panic" { ms_list(&on.gaps) } else { "jit-ok".to_string() }, on.res);
        s.line(&req, &resp);
        oracle_exec(s, pol, script, &on, Some(&off), &[key.clone()]);
        if off.panic_msg.is_some() && on.panic_msg.is_none() {
            oracle_exec(s, &off_pol, script, &off, None, &[exec_req(&off_pol, script)]);
        }
    }
    s.case(if nontrivial { Some(&key) } else { None });
    s.tally(&format!("exec.calls={}", off.calls.min(8)));
    s.tally(&format!("exec.res={}", off.res.chars().next().unwrap_or('?')));
    s.tally(if pol.jit { "exec.jitter=on" } else { "exec.jitter=off" });
    s.tally(&format!("exec.mul={}", mul_class(pol.mul)));
    s.tally(match pol.ini.cmp(&pol.max) {
        std::cmp::Ordering::Less => "exec.initial<max",
        std::cmp::Ordering::Equal => "exec.initial=max",
        std::cmp::Ordering::Greater => "exec.initial>max",
    });
    if pol.ini == 0 { s.tally("exec.initial=0"); }
    if pol.max == 0 { s.tally("exec.max=0"); }
    if script.iter().take(off.calls).any(|t| matches!(t, Tok::Rate(Some(_)))) { s.tally("exec.hint-used"); }
    resp
}

fn mul_class(m: f64) -> &'static str {
    if m.is_nan() { "NaN" }
    else if m == f64::INFINITY { "+inf" }
    else if m == f64::NEG_INFINITY { "-inf" }
    else if m < 0.0 { "negative" }
    else if m == 0.0 { "zero" }
    else if m < 1.0 { "(0,1)" }
    else if m == 1.0 { "one" }
    else if m <= 10.0 { "(1,10]" }
    else { "huge" }
}

// ---------------------------------------------------------------- from_env

const ENV_VARS: [&str; 5] = [
    "CASCETTE_MAX_RETRIES",
    "CASCETTE_RETRY_BACKOFF",
    "CASCETTE_MAX_BACKOFF",
    "CASCETTE_BACKOFF_MULTIPLIER",
    "CASCETTE_RETRY_JITTER",
];

#[derive(Clone, Debug, PartialEq)]
enum EnvVal {
    Unset,
    NonUtf8,
    Str(String),
}

fn env_tok(v: &EnvVal) -> String {
    match v {
        EnvVal::Unset => "~".into(),
        EnvVal::NonUtf8 => "!".into(),
        EnvVal::Str(s) => hex(s.as_bytes()),
    }
}

fn parse_env_tok(t: &str) -> Option<EnvVal> {
    Some(match t {
        "~" => EnvVal::Unset,
        "!" => EnvVal::NonUtf8,
        _ => {
            let s = String::from_utf8(unhex(t)?).ok()?;
            if s.contains('\0') { return None; }
            EnvVal::Str(s)
        }
    })
}

fn env_req(vals: &[EnvVal; 5]) -> String {
    let xbits = match &vals[3] {
        // parameter of the model: Rust std's `str::parse::<f64>` (not modelled in Lean)
        EnvVal::Str(s) => s.parse::<f64>().map_or("none".to_string(), |f| format!("{:016x}", f.to_bits())),
        _ => "none".to_string(),
    };
    format!("env r={} b={} m={} x={} j={} xbits={}", env_tok(&vals[0]), env_tok(&vals[1]), env_tok(&vals[2]), env_tok(&vals[3]), env_tok(&vals[4]), xbits)
}

fn run_env(vals: &[EnvVal; 5]) -> Result<RetryPolicy, String> {
    use std::os::unix::ffi::OsStringExt;
    for (name, v) in ENV_VARS.iter().zip(vals) {
        // single-threaded at this point (no runtime threads are alive while the env is edited)
        unsafe {
            match v {
                EnvVal::Unset => std::env::remove_var(name),
                EnvVal::NonUtf8 => std::env::set_var(name, std::ffi::OsString::from_vec(vec![0x31, 0xff])),
                EnvVal::Str(s) => std::env::set_var(name, s),
            }
        }
    }
    let r = catch(AssertUnwindSafe(RetryPolicy::from_env));
    for name in ENV_VARS {
        unsafe { std::env::remove_var(name) };
    }
    match r {
        Ok(Ok(p)) => Ok(p),
        Ok(Err(e)) => Err(format!("err:{e}")),
        Err(m) => Err(format!("panic:{m}")),
    }
}

fn do_env(s: &mut Session, vals: &[EnvVal; 5]) -> Option<RetryPolicy> {
    let req = env_req(vals);
    let r = run_env(vals);
    let resp = match &r {
        Ok(p) => format!("mx={} ini={} max={} mul={:016x} jit={}", p.max_attempts, p.initial_backoff.as_nanos(), p.max_backoff.as_nanos(), p.multiplier.to_bits(), p.jitter as u8),
        Err(e) => e.split(':').next().unwrap_or("err").to_string(),
    };
    s.line(&req, &resp);
    let nontrivial = vals.iter().any(|v| *v != EnvVal::Unset);
    s.case(if nontrivial { Some(&req) } else { None });
    s.tally("env");
    // O: the documented configuration — each variable, when it parses in its documented type,
    // is taken; otherwise the documented default; reading the configuration never fails.
    match &r {
        Err(e) => s.oracle_fail("env-fails", &format!("from_env did not return a policy ({e}): {req}"), &[req.clone()]),
        Ok(p) => {
            let sv = |i: usize| if let EnvVal::Str(x) = &vals[i] { Some(x.as_str()) } else { None };
            let want_mx = sv(0).and_then(|x| x.parse::<u32>().ok()).unwrap_or(3);
            let want_ini = Duration::from_millis(sv(1).and_then(|x| x.parse::<u64>().ok()).unwrap_or(100));
            let want_max = Duration::from_secs(sv(2).and_then(|x| x.parse::<u64>().ok()).unwrap_or(10));
            let want_mul = sv(3).and_then(|x| x.parse::<f64>().ok()).unwrap_or(2.0);
            let want_jit = sv(4).and_then(|x| x.parse::<bool>().ok()).unwrap_or(true);
            if p.max_attempts != want_mx || p.initial_backoff != want_ini || p.max_backoff != want_max || p.multiplier.to_bits() != want_mul.to_bits() || p.jitter != want_jit {
                s.oracle_fail("env-value", &format!("from_env gave {resp}, documented reading is mx={want_mx} ini={} max={} mul={:016x} jit={}: {req}", want_ini.as_nanos(), want_max.as_nanos(), want_mul.to_bits(), want_jit as u8), &[req.clone()]);
            }
        }
    }
    r.ok()
}

// ---------------------------------------------------------------- CDN status mapping (loopback mock)

#[derive(Clone, Debug)]
struct CdnStep {
    status: u16,
    retry_after: Option<String>,
}

fn cdn_req(steps: &[CdnStep]) -> String {
    format!(
        "cdn st={}",
        steps.iter().map(|st| match &st.retry_after {
            None => st.status.to_string(),
            Some(h) => format!("{}:{}", st.status, hex(h.as_bytes())),
        }).collect::<Vec<_>>().join(",")
    )
}

fn parse_cdn(toks: &[&str]) -> Option<Vec<CdnStep>> {
    let [t] = toks else { return None };
    let v = t.strip_prefix("st=")?;
    v.split(',')
        .map(|p| {
            let (st, h) = match p.split_once(':') {
                Some((a, b)) => (a, Some(String::from_utf8(unhex(b)?).ok()?)),
                None => (p, None),
            };
            if let Some(h) = &h {
                if h.bytes().any(|b| b == b'\r' || b == b'\n' || !(0x20..0x7f).contains(&b)) { return None; }
            }
            let status = st.parse::<u16>().ok().filter(|c| (200..=599).contains(c))?;
            Some(CdnStep { status, retry_after: h })
        })
        .collect()
}

struct CdnObs {
    reqs: usize,
    res: String,
    elapsed: Duration,
}

/// One mock HTTP/1.1 server per case on 127.0.0.1:0 answering request k with `steps[k]` (then
/// 404), `Connection: close`. Real clock: the default policy (3 retries, 100 ms initial, jitter)
/// is hard-wired in `download_with_retry`, so waits are real; cases run concurrently.
async fn run_cdn(steps: Vec<CdnStep>) -> CdnObs {
    use tokio::io::{AsyncReadExt, AsyncWriteExt};
    let listener = tokio::net::TcpListener::bind("127.0.0.1:0").await.expect("bind");
    let port = listener.local_addr().expect("addr").port();
    let count = std::sync::Arc::new(std::sync::atomic::AtomicUsize::new(0));
    let c2 = count.clone();
    let st2 = steps.clone();
    let server = tokio::spawn(async move {
        loop {
            let Ok((mut sock, _)) = listener.accept().await else { break };
            let k = c2.fetch_add(1, std::sync::atomic::Ordering::SeqCst);
            let step = st2.get(k).cloned().unwrap_or(CdnStep { status: 404, retry_after: None });
            let mut buf = vec![0u8; 4096];
            let mut got = vec![];
            while !got.windows(4).any(|w| w == b"\r\n\r\n") {
                match sock.read(&mut buf).await {
                    Ok(0) | Err(_) => break,
                    Ok(n) => got.extend_from_slice(&buf[..n]),
                }
            }
            let body = if (200..300).contains(&step.status) && step.status != 204 { format!("body{k}") } else { String::new() };
            let mut resp = format!("HTTP/1.1 {} X\r\nConnection: close\r\nContent-Length: {}\r\n", step.status, body.len());
            if let Some(h) = &step.retry_after {
                resp.push_str(&format!("Retry-After: {h}\r\n"));
            }
            resp.push_str("\r\n");
            resp.push_str(&body);
            let _ = sock.write_all(resp.as_bytes()).await;
            let _ = sock.shutdown().await;
        }
    });
    let cache = std::sync::Arc::new(
        cascette_protocol::cache::ProtocolCache::new(&cascette_protocol::CacheConfig::memory_optimized()).expect("cache"),
    );
    let client = CdnClient::new(cache, cascette_protocol::CdnConfig::default()).expect("cdn client");
    let ep = CdnEndpoint {
        host: format!("127.0.0.1:{port}"),
        path: "tpr/x".into(),
        product_path: None,
        scheme: Some("http".into()),
        is_fallback: false,
        strict: false,
        max_hosts: None,
    };
    let t0 = std::time::Instant::now();
    let r = client.download_with_resume(&ep, ContentType::Data, &[0xab; 16], None).await;
    let elapsed = t0.elapsed();
    server.abort();
    let res = match &r {
        Ok(b) => format!("B{}", String::from_utf8_lossy(b).trim_start_matches("body")),
        Err(e) => {
            let r2: Result<u32, ProtocolError> = Err(match e {
                ProtocolError::RateLimited { retry_after } => ProtocolError::RateLimited { retry_after: *retry_after },
                ProtocolError::ServerError(c) => ProtocolError::ServerError(*c),
                ProtocolError::HttpStatus(c) => ProtocolError::HttpStatus(*c),
                ProtocolError::Timeout => ProtocolError::Timeout,
                other => ProtocolError::Other(format!("{other}")),
            });
            unmake(&r2)
        }
    };
    CdnObs { reqs: count.load(std::sync::atomic::Ordering::SeqCst), res, elapsed }
}

fn oracle_cdn(s: &mut Session, steps: &[CdnStep], o: &CdnObs, req: &str) {
    // property: success and non-retryable statuses end the download at once; 429 and 5xx are
    // retried at most 3 times (default policy) and a Retry-After hint is waited
    let mut want = steps.len().min(4);
    let mut hint_wait = Duration::ZERO;
    for (i, st) in steps.iter().enumerate().take(4) {
        let retry = st.status == 429 || (500..=599).contains(&st.status);
        if !retry || i == 3 {
            want = i + 1;
            break;
        }
        if st.status == 429 {
            if let Some(sec) = st.retry_after.as_deref().and_then(|h| h.parse::<u64>().ok()) {
                hint_wait += Duration::from_secs(sec);
            }
        }
    }
    if steps.len() < 4 && want == steps.len() && steps.iter().all(|st| st.status == 429 || (500..=599).contains(&st.status)) {
        want = steps.len() + 1; // runs into the mock's trailing 404
    }
    if o.reqs > 4 {
        s.oracle_fail("cdn-attempts-bound", &format!("{} requests for default policy (max 3 retries): {req}", o.reqs), &[req.to_string()]);
    } else if o.reqs != want {
        let sig = if o.reqs < want { "cdn-stop-early-on-retryable-status" } else { "cdn-retried-non-retryable-status" };
        s.oracle_fail(sig, &format!("{} requests, property says {want}: {req}", o.reqs), &[req.to_string()]);
    }
    if o.elapsed < hint_wait {
        s.oracle_fail("cdn-hint-not-honoured", &format!("elapsed {:?} < Retry-After total {:?}: {req}", o.elapsed, hint_wait), &[req.to_string()]);
    }
}

fn do_cdn_batch(s: &mut Session, cases: Vec<Vec<CdnStep>>) {
    if cases.is_empty() {
        return;
    }
    let rt = tokio::runtime::Builder::new_multi_thread().worker_threads(4).enable_all().build().expect("rt");
    let obs: Vec<CdnObs> = rt.block_on(async {
        let hs: Vec<_> = cases.iter().cloned().map(|c| tokio::spawn(run_cdn(c))).collect();
        let mut v = vec![];
        for h in hs {
            v.push(h.await.unwrap_or(CdnObs { reqs: 0, res: "panic".into(), elapsed: Duration::ZERO }));
        }
        v
    });
    drop(rt);
    for (c, o) in cases.iter().zip(&obs) {
        let req = cdn_req(c);
        s.line(&req, &format!("reqs={} res={}", o.reqs, o.res));
        s.case(Some(&req));
        s.tally("cdn");
        if o.res == "panic" {
            s.oracle_fail("panic:cdn", &format!("download panicked: {req}"), &[req.clone()]);
        } else {
            oracle_cdn(s, c, o, &req);
        }
    }
}


// ---------------------------------------------------------------- library parsers, timer clamp

/// O's own reading of "an unsigned decimal number of the documented type": optional single `+`,
/// one or more ASCII digits, value below 2^bits. Independent of `str::parse`.
fn oracle_unsigned(bits: u32, s: &str) -> Option<u128> {
    let body = s.strip_prefix('+').unwrap_or(s);
    if body.is_empty() || !body.bytes().all(|b| b.is_ascii_digit()) {
        return None;
    }
    let mut v: u128 = 0;
    for b in body.bytes() {
        v = v.checked_mul(10)?.checked_add((b - b'0') as u128)?;
        if v >> bits != 0 {
            return None;
        }
    }
    Some(v)
}

/// O's own reading of the decimal floating point grammar (Rust reference, `f64::from_str`).
fn oracle_f64_grammar(s: &str) -> bool {
    let b = s.as_bytes();
    let b = match b.first() {
        Some(b'+') | Some(b'-') => &b[1..],
        _ => b,
    };
    if b.is_empty() {
        return false;
    }
    let lower: Vec<u8> = b.iter().map(|c| c.to_ascii_lowercase()).collect();
    if lower == b"inf" || lower == b"infinity" || lower == b"nan" {
        return true;
    }
    let mut i = 0;
    let mut digits = 0;
    while i < b.len() && b[i].is_ascii_digit() { i += 1; digits += 1; }
    if i < b.len() && b[i] == b'.' {
        i += 1;
        while i < b.len() && b[i].is_ascii_digit() { i += 1; digits += 1; }
    }
    if digits == 0 {
        return false;
    }
    if i == b.len() {
        return true;
    }
    if b[i] != b'e' && b[i] != b'E' {
        return false;
    }
    i += 1;
    if i < b.len() && (b[i] == b'+' || b[i] == b'-') { i += 1; }
    i < b.len() && b[i..].iter().all(|c| c.is_ascii_digit())
}

fn do_pu(s: &mut Session, bits: u32, v: &str) {
    let req = format!("pu bits={bits} s={}", hex(v.as_bytes()));
    let got: Option<u128> = if bits == 32 { v.parse::<u32>().ok().map(u128::from) } else { v.parse::<u64>().ok().map(u128::from) };
    s.line(&req, &got.map_or("v=none".to_string(), |n| format!("v={n}")));
    s.case(if got.is_some() || !v.is_empty() { Some(&req) } else { None });
    s.tally(if got.is_some() { "pu.accepted" } else { "pu.rejected" });
    let want = oracle_unsigned(bits, v);
    if got != want {
        let sig = if got.is_some() { "int-grammar:accepts-undocumented" } else { "int-grammar:rejects-documented" };
        s.oracle_fail(sig, &format!("parse::<u{bits}>({v:?}) = {got:?}, documented reading {want:?}"), &[req]);
    }
}

fn do_f64(s: &mut Session, v: &str) {
    let req = format!("f64 s={}", hex(v.as_bytes()));
    let got = v.parse::<f64>().is_ok();
    s.line(&req, &format!("acc={}", got as u8));
    s.case(Some(&req));
    s.tally(if got { "f64.accepted" } else { "f64.rejected" });
    if got != oracle_f64_grammar(v) {
        let sig = if got { "f64-grammar:accepts-undocumented" } else { "f64-grammar:rejects-documented" };
        s.oracle_fail(sig, &format!("parse::<f64>({v:?}).is_ok() = {got}"), &[req]);
    }
}

/// `tokio::time::sleep(d)` under the paused clock: how long the virtual clock moved.
fn do_sleep(s: &mut Session, rt: &mut Runtime, d: u128) {
    let du = dur(d);
    let (fits, gap) = rt.block_on(async {
        let t0 = Instant::now();
        let fits = t0.into_std().checked_add(du).is_some();
        tokio::time::sleep(du).await;
        (fits, (Instant::now() - t0).as_nanos())
    });
    let req = format!("sleep d={d} fits={}", fits as u8);
    s.line(&req, &format!("ms={}", ceil_ms(gap.min(CAP_NS))));
    s.case(Some(&req));
    s.tally(if !fits { "sleep.instant-overflow" } else if d > CAP_NS { "sleep.above-clamp" } else { "sleep.below-clamp" });
    // O: the property's "never waits forever" needs every single sleep to end: a sleep that does
    // not fit the clock is cut to the 30-year clamp, any other lasts its duration (whole ms, up)
    let want = if fits { d.div_ceil(MS) * MS } else { CAP_NS };
    if gap != want {
        s.oracle_fail("sleep-clamp", &format!("sleep({d} ns) moved the paused clock by {gap} ns, expected {want} ns: {req}"), &[req.clone()]);
    }
}

fn parse_kv<'a>(toks: &[&'a str], k: &str) -> Option<&'a str> {
    toks.iter().find_map(|t| t.strip_prefix(k))
}

// ---------------------------------------------------------------- generators

/// all outcome sequences, cut after the deciding outcome, over the 4 classes of the quantifier:
/// prefix alphabet `pre` (retryable kinds), terminal alphabet `term`, length up to `mx + 2`.
fn sequences(mx: u32, pre: &[Tok], term: &[Tok], out: &mut Vec<Vec<Tok>>) {
    fn go(depth: u32, mx: u32, cur: &mut Vec<Tok>, pre: &[Tok], term: &[Tok], out: &mut Vec<Vec<Tok>>) {
        for t in term {
            let mut v = cur.clone();
            v.push(t.clone());
            out.push(v);
        }
        if depth > mx {
            // mx + 1 retryable errors: the (mx+1)-th is returned; one more scripted outcome to
            // show it is never requested
            let mut v = cur.clone();
            v.push(Tok::Ok(77));
            out.push(v);
            return;
        }
        for p in pre {
            cur.push(p.clone());
            go(depth + 1, mx, cur, pre, term, out);
            cur.pop();
        }
    }
    go(0, mx, &mut vec![], pre, term, out);
}

fn random_tok(rng: &mut Rng, id: u32) -> Tok {
    match rng.below(22) {
        0 => Tok::Ok(id),
        1 | 2 => Tok::Timeout,
        3 => Tok::Unavail,
        4 => Tok::Net(id),
        5 => Tok::Server(*rng.pick(&[500u16, 502, 503, 504, 599, 404])),
        6 | 7 => Tok::Status(*rng.pick(&[429u16, 500, 501, 502, 503, 504, 505, 400, 401, 403, 404, 408, 301, 200, 999, 100])),
        8 => Tok::Rate(None),
        9 | 10 => Tok::Rate(Some(*rng.pick(&[0u128, 1, 999_999, MS, 1_500_000, 250 * MS, NS, 5 * NS, 3600 * NS]))),
        11 => Tok::Rate(Some(rng.below(20_000) as u128 * 100_000)),
        12 => Tok::Parse(id),
        13 => Tok::Other(id),
        14 => Tok::AllHosts,
        15 => Tok::InvalidKey,
        16 => Tok::Endpoint(id),
        17 => Tok::Range,
        18 => Tok::Wasm(id),
        19 => Tok::Utf8,
        20 => Tok::Cache(id),
        _ => Tok::Timeout,
    }
}

fn grid_muls() -> Vec<f64> {
    vec![0.0, 0.5, 1.0, 2.0, 10.0, 1e300, f64::NAN, -1.0, f64::INFINITY, f64::NEG_INFINITY, -0.0, 1.5, -1e-300, 1e-300]
}

fn grid_backoffs() -> Vec<(u128, u128)> {
    // (initial, max) in ns: normal, equal, initial > max, zeros, sub-ms, max beyond f64 seconds
    vec![
        (100 * MS, 10 * NS),
        (MS, NS),
        (10 * MS, 50 * MS),
        (50 * NS, NS),
        (NS, NS),
        (0, NS),
        (NS, 0),
        (0, 0),
        (3 * MS, 7 * MS),
        (1_500_000, 20 * MS),
        (MS, (u64::MAX as u128) * NS),
        (2 * NS, 1_999_999_999),
    ]
}

fn random_policy(rng: &mut Rng) -> Pol {
    let ms = |rng: &mut Rng| -> u128 {
        match rng.below(8) {
            0 => 0,
            1 => 1,
            2 => rng.range(1, 20) as u128,
            3 => rng.range(20, 2000) as u128,
            4 => rng.range(2000, 100_000) as u128,
            5 => 1000 * rng.range(1, 50) as u128,
            6 => 10_000_000,
            _ => rng.range(1, 500) as u128,
        }
    };
    let ini = ms(rng) * MS + if rng.chance(1, 6) { rng.below(MS as u64) as u128 } else { 0 };
    let max = if rng.chance(1, 3) { 1000 * MS * rng.range(0, 30) as u128 } else { ms(rng) * MS };
    let mul = match rng.below(10) {
        0 => *rng.pick(&grid_muls()),
        1 => -(rng.below(1000) as f64) / 100.0,
        2 => rng.below(100) as f64 / 100.0,
        3 => 1.0 + rng.below(1000) as f64 / 1000.0,
        4 => f64::from_bits(rng.next()),
        5 => (rng.below(40) as f64) / 4.0,
        _ => 1.0 + rng.below(16) as f64 / 4.0,
    };
    Pol { mx: rng.below(7) as u32, ini, max, mul, jit: rng.chance(1, 3) }
}

fn env_strings_u(rng: &mut Rng, max: u128) -> EnvVal {
    let pool: Vec<String> = vec![
        "".into(), "0".into(), "1".into(), "3".into(), "5".into(), "007".into(), "+4".into(), "-1".into(), "-0".into(), "+".into(), "-".into(),
        " 5".into(), "5 ".into(), "5\n".into(), "1e3".into(), "1.5".into(), "0x10".into(), "१२".into(), "abc".into(), "1_000".into(),
        max.to_string(), (max + 1).to_string(), (max - 1).to_string(), format!("+{max}"), format!("000{max}"),
        "4294967295".into(), "4294967296".into(), "18446744073709551615".into(), "18446744073709551616".into(),
        "99999999999999999999999999".into(), "50000".into(), "100".into(), "20".into(), "++1".into(), "+-1".into(),
    ];
    match rng.below(12) {
        0 => EnvVal::Unset,
        1 => EnvVal::NonUtf8,
        2 | 3 => EnvVal::Str(rng.below(100_000).to_string()),
        _ => EnvVal::Str(rng.pick(&pool).clone()),
    }
}

fn env_strings_f(rng: &mut Rng) -> EnvVal {
    let pool = ["", "2", "2.0", "1.5", "0", "0.5", "1", "10", "1e300", "NaN", "nan", "-1", "-0.5", "inf", "-inf", "infinity", "+inf", "1e999", "-1e999",
        "abc", " 2", "2 ", "0x2", "1e-300", "-0", ".5", "5.", "+2", "1_0", "1e", "e5", "."];
    match rng.below(10) {
        0 => EnvVal::Unset,
        1 => EnvVal::NonUtf8,
        _ => EnvVal::Str((*rng.pick(&pool)).to_string()),
    }
}

fn env_strings_b(rng: &mut Rng) -> EnvVal {
    let pool = ["true", "false", "", "True", "FALSE", "1", "0", "yes", "no", " true", "true ", "t", "falsee"];
    match rng.below(10) {
        0 => EnvVal::Unset,
        1 => EnvVal::NonUtf8,
        _ => EnvVal::Str((*rng.pick(&pool)).to_string()),
    }
}

// ---------------------------------------------------------------- main

fn replay_line(s: &mut Session, rt: &mut Runtime, line: &str) -> String {
    let toks: Vec<&str> = line.split(' ').filter(|t| !t.is_empty()).collect();
    match toks.first().copied() {
        Some("exec") => {
            if let Some((pol, script)) = parse_exec(&toks[1..]) {
                return do_exec(s, rt, &pol, &script);
            }
        }
        Some("env") => {
            let get = |k: &str| toks[1..].iter().find_map(|t| t.strip_prefix(k)).and_then(parse_env_tok);
            if let (Some(r), Some(b), Some(m), Some(x), Some(j), 7) = (get("r="), get("b="), get("m="), get("x="), get("j="), toks.len()) {
                let vals = [r, b, m, x, j];
                // the request line is rebuilt (xbits is recomputed from x)
                do_env(s, &vals);
                return "env".into();
            }
        }
        Some("cdn") => {
            if let Some(steps) = parse_cdn(&toks[1..]) {
                do_cdn_batch(s, vec![steps]);
                return "cdn".into();
            }
        }
        Some("pu") => {
            let bits = parse_kv(&toks[1..], "bits=").and_then(|b| b.parse::<u32>().ok()).filter(|b| *b == 32 || *b == 64);
            let v = parse_kv(&toks[1..], "s=").and_then(parse_env_tok);
            if let (Some(bits), Some(EnvVal::Str(v)), 3) = (bits, v, toks.len()) {
                do_pu(s, bits, &v);
                return "pu".into();
            }
        }
        Some("f64") => {
            if let (Some(EnvVal::Str(v)), 2) = (parse_kv(&toks[1..], "s=").and_then(parse_env_tok), toks.len()) {
                do_f64(s, &v);
                return "f64".into();
            }
        }
        Some("sleep") => {
            // `fits` is re-measured (it depends on this process's clock)
            let d = parse_kv(&toks[1..], "d=").and_then(|d| d.parse::<u128>().ok()).filter(|d| *d <= DUR_MAX_NS);
            if let (Some(d), 3) = (d, toks.len()) {
                do_sleep(s, rt, d);
                return "sleep".into();
            }
        }
        _ => {}
    }
    s.line(line, "bad-op");
    "bad-op".into()
}

fn main() {
    let args = Args::parse();
    quiet_panics();
    let mut s = Session::new(&args.out);
    s.rule = "exec: RetryPolicy::execute under tokio's paused clock on scripted outcome sequences — every sequence (cut after the deciding outcome) over {Ok, retryable, rate-limited without/with hint, non-retryable} up to length max_attempts+2 for max_attempts 0..=4 (thorough 0..=5, quick samples 5; with jitter quick takes every 4th sequence for max_attempts >= 3) x (initial,max) grid incl. initial>max, equal, zero, sub-ms, max beyond f64 seconds x multipliers {0,.5,1,1.5,2,10,1e300,NaN,-1,+-inf,-0,+-1e-300} x jitter on/off, plus random policies/sequences over all 16 error kinds and huge hints; env: from_env on string pools around every parser boundary; cdn: status scripts against a loopback mock; pu/f64: str::parse::<u32|u64|f64> on sign x digit-string pools at every overflow step and on the cross product sign x int x frac x exponent x suffix plus inf/nan spellings; sleep: tokio::time::sleep under the paused clock at ms boundaries, around the 30-year clamp (up to 1000 years) and around Instant overflow. non-trivial = first outcome is an error (the loop took a retry/stop decision) / at least one variable set / any cdn case; distinct = canonical request text without observations".into();
    s.extra.insert("cap_ns".into(), serde_json::json!(CAP_NS.to_string()));
    let mut rng = Rng::new(args.seed);
    let mut rt = new_rt();

    if let Some(p) = &args.replay {
        for l in read_case(p) {
            let r = replay_line(&mut s, &mut rt, &l);
            println!("impl  {l} -> {r}");
        }
        s.finish();
        return;
    }

    // ---- from_env first (process environment is edited; nothing else is running)
    {
        let mut all = vec![[EnvVal::Unset, EnvVal::Unset, EnvVal::Unset, EnvVal::Unset, EnvVal::Unset]];
        let sv = |x: &str| EnvVal::Str(x.to_string());
        all.push([sv("5"), sv("200"), sv("20"), sv("1.5"), sv("false")]);
        all.push([sv("0"), sv("50000"), sv("1"), sv("-1"), sv("true")]);
        all.push([sv("4294967295"), sv("18446744073709551615"), sv("18446744073709551615"), sv("NaN"), sv("false")]);
        all.push([sv("4294967296"), sv("18446744073709551616"), sv("18446744073709551616"), sv("1e999"), sv("maybe")]);
        all.push([EnvVal::NonUtf8, EnvVal::NonUtf8, EnvVal::NonUtf8, EnvVal::NonUtf8, EnvVal::NonUtf8]);
        let n = if args.thorough() { 6000 } else { 800 };
        for _ in 0..n {
            all.push([
                env_strings_u(&mut rng, u32::MAX as u128),
                env_strings_u(&mut rng, u64::MAX as u128),
                env_strings_u(&mut rng, u64::MAX as u128),
                env_strings_f(&mut rng),
                env_strings_b(&mut rng),
            ]);
        }
        let mut run_from_env = 0;
        for vals in &all {
            if let Some(p) = do_env(&mut s, vals) {
                // a policy read from the environment is then executed (hostile values reachable);
                // only when its delays stay inside what the paused clock can step through
                let small = |d: Duration| d.as_nanos() <= 10_000_000 * NS || d.as_secs() == u64::MAX;
                if run_from_env < 200 && p.max_attempts <= 6 && small(p.initial_backoff) && small(p.max_backoff) && p.initial_backoff.as_nanos() <= 10_000_000 * NS {
                    run_from_env += 1;
                    let pol = Pol { mx: p.max_attempts, ini: p.initial_backoff.as_nanos(), max: p.max_backoff.as_nanos(), mul: p.multiplier, jit: p.jitter };
                    let script: Vec<Tok> = (0..p.max_attempts + 2).map(|_| Tok::Timeout).collect();
                    do_exec(&mut s, &mut rt, &pol, &script);
                    s.tally("exec.policy-from-env");
                }
            }
        }
    }

    // ---- the library parsers behind from_env (u32 / u64 / f64 grammar), every boundary
    {
        let mut pool: Vec<String> = vec![];
        for base in ["", "0", "1", "9", "10", "007", "4294967295", "4294967296", "4294967294", "4294967300", "42949672950", "42949672960",
            "429496729", "18446744073709551615", "18446744073709551616", "18446744073709551614", "18446744073709551620",
            "184467440737095516150", "184467440737095516160", "1844674407370955161", "99999999999999999999", "340282366920938463463374607431768211456",
            "00000000000000000000000000000001", "000000000000000000000000000004294967296", "1e3", "1.5", "0x10", "१२", "1२", "abc", "1_000", "1 ", " 1", "1\n", "\t1", "1a", "a1", "٣"] {
            for pre in ["", "+", "-", "++", "+-", "-+", " +", "+ "] {
                pool.push(format!("{pre}{base}"));
            }
        }
        let n = if args.thorough() { 4000 } else { 600 };
        for _ in 0..n {
            let len = rng.range(1, 24) as usize;
            let mut t = String::new();
            if rng.chance(1, 5) { t.push('+'); }
            if rng.chance(1, 3) { for _ in 0..rng.below(6) { t.push('0'); } }
            for _ in 0..len { t.push((b'0' + rng.below(10) as u8) as char); }
            if rng.chance(1, 12) { t.insert(rng.below(t.len() as u64 + 1) as usize, *rng.pick(&['-', ' ', 'e', '.', '_', '+'])); }
            pool.push(t);
        }
        for v in &pool {
            do_pu(&mut s, 32, v);
            do_pu(&mut s, 64, v);
        }
        let words = ["inf", "INF", "Inf", "iNf", "infinity", "INFINITY", "InFiNiTy", "infinit", "infinityy", "infinit y", "nan", "NAN", "NaN", "nAn", "nane", "na", "n", "in",
            "ınf", "ℕaN", "nan ", " nan", "i", "infe5", "inf.0", "1inf", "nan0", "١", "٣.٥", "0x1p3", "1f", "1.5f64", "1_0", "1,5", "½", "\u{ff11}"];
        let mut fpool: Vec<String> = vec![];
        for sign in ["", "+", "-", "++", "+-", "--"] {
            for w in words { fpool.push(format!("{sign}{w}")); }
            for int in ["", "0", "12", "007", "18446744073709551616"] {
                for frac in ["", ".", ".5", ".50", "..", ".5.", ". 5"] {
                    for exp in ["", "e5", "E5", "e+5", "e-5", "e", "E", "e+", "E-", "e5.", "e5e5", "e 5", "e+-5", "e999", "e-999", "e00000000000000000000005", "x5"] {
                        for suf in ["", " ", "f"] {
                            if !args.thorough() && !suf.is_empty() && !(exp.is_empty() || exp == "e5") { continue; }
                            fpool.push(format!("{sign}{int}{frac}{exp}{suf}"));
                        }
                    }
                }
            }
        }
        fpool.sort();
        fpool.dedup();
        for v in &fpool {
            do_f64(&mut s, v);
        }
    }

    // ---- tokio's timer as the observer: ms rounding and the 30-year far-future clamp
    {
        let mut rt2 = new_rt();
        let year = 86_400 * 365 * NS;
        let mut ds: Vec<u128> = vec![0, 1, 999_999, MS, MS + 1, 1_500_000, 2 * MS - 1, NS, 10_000_000 * NS, year, CAP_NS - MS, CAP_NS - MS + 1, CAP_NS - 1, CAP_NS, CAP_NS + 1, CAP_NS + MS,
            2 * CAP_NS, 100 * year, 1000 * year, (i64::MAX as u128) * NS, (i64::MAX as u128 + 1) * NS, (1u128 << 63) * NS + 5, (u64::MAX as u128 - 1) * NS, (u64::MAX as u128) * NS, DUR_MAX_NS];
        for _ in 0..(if args.thorough() { 300 } else { 40 }) {
            ds.push(match rng.below(4) {
                0 => rng.below(5_000_000_000) as u128,
                1 => rng.below(1_000_000) as u128 * MS + rng.below(3) as u128,
                2 => CAP_NS - rng.below(3 * MS as u64) as u128 + rng.below(3 * MS as u64) as u128,
                _ => (i64::MAX as u128) * NS + rng.below(1 << 40) as u128 * NS,
            });
        }
        for d in ds {
            do_sleep(&mut s, &mut rt2, d);
        }
    }

    // ---- the quantifier's grid
    let pre = [Tok::Timeout, Tok::Rate(None), Tok::Rate(Some(250 * MS))];
    let term = [Tok::Ok(1), Tok::Parse(2)];
    let full_to: u32 = if args.thorough() { 5 } else { 4 };
    for mx in 0..=5u32 {
        let mut seqs = vec![];
        sequences(mx, &pre, &term, &mut seqs);
        for (ini, max) in grid_backoffs() {
            for mul in grid_muls() {
                for jit in [false, true] {
                    let pol = Pol { mx, ini, max, mul, jit };
                    if mx <= full_to {
                        // jitter doubles the cost: quick runs every 4th sequence with jitter for mx >= 3
                        for (k, sq) in seqs.iter().enumerate() {
                            if jit && !args.thorough() && mx >= 3 && k % 4 != 0 { continue; }
                            do_exec(&mut s, &mut rt, &pol, sq);
                        }
                    } else {
                        for _ in 0..6 {
                            let sq = rng.pick(&seqs).clone();
                            do_exec(&mut s, &mut rt, &pol, &sq);
                        }
                        // the all-retryable sequences are the ones that reach the attempt bound
                        let all_t: Vec<Tok> = (0..mx + 2).map(|_| Tok::Timeout).collect();
                        do_exec(&mut s, &mut rt, &pol, &all_t);
                    }
                }
            }
        }
    }

    // ---- boundary cases outside the grid: huge max_attempts, huge hints (jitter overflow),
    //      scripts shorter than the policy allows
    for jit in [false, true] {
        for mul in [2.0, f64::NAN, -1.0, f64::INFINITY] {
            let pol = Pol { mx: u32::MAX, ini: MS, max: 4 * MS, mul, jit };
            let mut sq: Vec<Tok> = (0..12).map(|_| Tok::Timeout).collect();
            sq.push(Tok::Ok(9));
            do_exec(&mut s, &mut rt, &pol, &sq);
            do_exec(&mut s, &mut rt, &pol, &[Tok::Timeout, Tok::Unavail]);
            let pol = Pol { mx: 2, ini: MS, max: NS, mul, jit };
            for h in [DUR_MAX_NS, (u64::MAX as u128) * NS, (u64::MAX as u128 - 1) * NS, (1u128 << 63) * NS] {
                do_exec(&mut s, &mut rt, &pol, &[Tok::Rate(Some(h)), Tok::Ok(3)]);
                do_exec(&mut s, &mut rt, &pol, &[Tok::Timeout, Tok::Rate(Some(h)), Tok::Timeout, Tok::Ok(3)]);
            }
            // max_backoff whose f64 seconds value is 2^64 (from CASCETTE_MAX_BACKOFF=u64::MAX)
            for max in [(u64::MAX as u128) * NS, (u64::MAX as u128 - 1024) * NS, DUR_MAX_NS] {
                let pol = Pol { mx: 3, ini: MS, max, mul, jit };
                do_exec(&mut s, &mut rt, &pol, &[Tok::Timeout, Tok::Ok(3)]);
                do_exec(&mut s, &mut rt, &pol, &[Tok::Timeout, Tok::Timeout, Tok::Parse(1)]);
            }
        }
    }

    // ---- random policies x random sequences over every error kind
    let n_rand = if args.thorough() { 60_000 } else { 6_000 };
    for _ in 0..n_rand {
        let pol = random_policy(&mut rng);
        let len = rng.range(0, pol.mx as u64 + 2) as usize;
        let mut sq: Vec<Tok> = vec![];
        for i in 0..len {
            // bias towards retryable kinds so that long runs happen
            let t = if rng.chance(3, 5) {
                match rng.below(6) {
                    0 => Tok::Timeout,
                    1 => Tok::Unavail,
                    2 => Tok::Net(i as u32),
                    3 => Tok::Server(503),
                    4 => Tok::Status(*rng.pick(&[429u16, 500, 502, 503, 504])),
                    _ => Tok::Rate(if rng.chance(1, 2) { None } else { Some(rng.below(5000) as u128 * MS / 2) }),
                }
            } else {
                random_tok(&mut rng, i as u32)
            };
            sq.push(t);
        }
        do_exec(&mut s, &mut rt, &pol, &sq);
    }

    // ---- CDN status mapping against a loopback mock (real clock, concurrent)
    {
        let st = |c: u16| CdnStep { status: c, retry_after: None };
        let ra = |h: &str| CdnStep { status: 429, retry_after: Some(h.to_string()) };
        let mut cases: Vec<Vec<CdnStep>> = vec![];
        for c in [200u16, 204, 206, 299, 301, 304, 400, 401, 403, 404, 410, 416, 418, 499] {
            cases.push(vec![st(c), st(200)]);
        }
        for c in [429u16, 500, 501, 502, 503, 504, 505, 599] {
            cases.push(vec![st(c), st(200)]);
            cases.push(vec![st(c), st(c), st(c), st(c), st(200)]);
            cases.push(vec![st(c), st(404), st(200)]);
        }
        cases.push(vec![ra("0"), st(200)]);
        cases.push(vec![ra("1"), st(200)]);
        cases.push(vec![ra("0"), ra("0"), ra("0"), ra("0"), st(200)]);
        cases.push(vec![ra("abc"), st(200)]);
        cases.push(vec![ra("-1"), st(200)]);
        cases.push(vec![ra("1.5"), st(200)]);
        cases.push(vec![ra(" 0"), st(200)]);
        cases.push(vec![ra("Wed, 21 Oct 2015 07:28:00 GMT"), st(200)]);
        cases.push(vec![ra("0"), st(503), ra("0"), st(200)]);
        cases.push(vec![st(503), ra("1"), st(500), st(403), st(200)]);
        if args.thorough() {
            for _ in 0..40 {
                let n = rng.range(1, 5) as usize;
                cases.push((0..n).map(|_| {
                    let c = *rng.pick(&[200u16, 404, 429, 429, 500, 502, 503, 504, 403, 301]);
                    if c == 429 && rng.chance(1, 2) { ra(*rng.pick(&["0", "1", "x", ""])) } else { st(c) }
                }).collect());
            }
        }
        do_cdn_batch(&mut s, cases);
    }
    s.finish();
}
