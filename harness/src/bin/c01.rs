//! C01 — BLTE encode/decode is the identity on content.
//!
//! K: builder programs are run on the REAL `BlteBuilder` / `CascFormat::{build,parse}` /
//!    `decompress_with_keys`; every request line is also answered by the Lean model (`drv_c01`).
//!    zlib / LZ4 are parameters of the model: each request line that can reach a compressor
//!    carries the graph of the real `compress_chunk` on the chunks involved (`M:plain:comp`), so
//!    the model frames / encrypts / serialises the very same bytes and the complete container is
//!    compared byte for byte.  `dec`, `decplain`, `rows` are stateless: the model parses and
//!    decodes the bytes the implementation produced (the independent decoder of the property).
//!    The encoder entry points outside the builder (`BlteFile::{compress, single_chunk,
//!    multi_chunk}`, `BlteHeader::multi_chunk_extended`) are stateless request lines (`compress`,
//!    `single`, `multi std|ext`), answered by the model's `compress` / `singleChunk` /
//!    `multiChunk` / `multiChunkExt`; hand-made containers with Frame chunks and encrypted chunks
//!    whose inner payload starts with `F` / `E` are decoded on both sides.
//!    Long byte strings with long periodic stretches are written `unit*n` (see `hex` below), so
//!    chunks of hundreds of KiB that compress 1000:1 cost a few hundred bytes on the line.
//! O: identity of decode∘parse∘serialize∘build on the added bytes, truth of every chunk-table row
//!    (sizes recomputed from the chunk as serialised and as decoded, MD5 by the independent `md5`
//!    crate), "error instead of garbage", and the compressor law used by the theorems.
use cascette_crypto::{TactKey, TactKeyStore};
use cascette_formats::CascFormat;
use cascette_formats::blte::{
    BlteBuilder, BlteError, BlteFile, BlteHeader, ChunkData, CompressionMode, EncryptionSpec,
    HeaderFlags, compress_chunk, decompress_chunk, decrypt_chunk_with_keys, encrypt_chunk_with_key,
};
use std::collections::BTreeMap;
use std::panic::AssertUnwindSafe;
use verif_harness::*;

/// Byte strings on request / response lines. Lower-case hex (`-` = empty) or, for long strings
/// with long periodic stretches, `+`-separated segments, each plain hex or `<unit>*<n>` (= the
/// unit cycled to exactly `n` bytes): `00*1048576`, `5a+00*65535`, `0102*4000+ff+00*70000`.
/// Printing is canonical — a deterministic greedy segmentation implemented identically here and
/// in Driver/C01.lean (`hexC`): strings shorter than `COMPACT_MIN` are plain hex; otherwise, at
/// each position the longest stretch with a period `k <= 8` (smallest `k` on ties) becomes a
/// `unit*n` segment if it is at least `RUN_MIN` bytes long, else the byte is a literal. So the
/// comparison of response lines stays exact (the notation decodes to exactly one string), and
/// replays of cases with payloads of hundreds of KiB stay readable. These two shadow the
/// plain-hex helpers of `verif_harness` for everything in this file.
const COMPACT_MIN: usize = 1024;
const RUN_MIN: usize = 64;

fn hex(b: &[u8]) -> String {
    let n = b.len();
    if n < COMPACT_MIN {
        return verif_harness::hex(b);
    }
    let mut segs: Vec<String> = vec![];
    let (mut i, mut lit) = (0usize, 0usize);
    while i < n {
        let (mut best_k, mut best_len) = (0usize, 0usize);
        for k in 1..=8usize {
            if i + k > n {
                break;
            }
            let mut l = k;
            while i + l < n && b[i + l] == b[i + l - k] {
                l += 1;
            }
            if l > best_len {
                (best_k, best_len) = (k, l);
            }
        }
        if best_len >= RUN_MIN {
            if lit < i {
                segs.push(verif_harness::hex(&b[lit..i]));
            }
            segs.push(format!("{}*{}", verif_harness::hex(&b[i..i + best_k]), best_len));
            i += best_len;
            lit = i;
        } else {
            i += 1;
        }
    }
    if lit < n {
        segs.push(verif_harness::hex(&b[lit..n]));
    }
    if !segs.iter().any(|x| x.contains('*')) {
        return verif_harness::hex(b);
    }
    let text = segs.join("+");
    // whatever is printed denotes exactly `b` (equal response lines mean equal byte strings)
    assert!(unhex(&text).as_deref() == Some(b), "compact notation does not read back");
    text
}

fn unhex(s: &str) -> Option<Vec<u8>> {
    if !s.contains(['*', '+', '~']) {
        return verif_harness::unhex(s);
    }
    let mut out = vec![];
    for seg in s.split('+') {
        if let Some(g) = seg.strip_prefix('~') {
            out.extend(gen_segment(g)?);
            continue;
        }
        match seg.split_once('*') {
            Some((u, n)) => {
                let u = verif_harness::unhex(u)?;
                if !n.bytes().all(|c| c.is_ascii_digit()) {
                    return None;
                }
                let n: usize = n.parse().ok()?;
                if u.is_empty() || n > (1 << 28) {
                    return None;
                }
                out.extend(u.iter().cycle().take(n));
            }
            None => out.extend(verif_harness::unhex(seg)?),
        }
    }
    Some(out)
}

// ---------------------------------------------------------------- generated content, digests
//
// Chunks of tens of KiB .. 16 MiB of content that does NOT compress (or compresses like text)
// cannot be written in hex on a line. Request side: a segment `~<k><seed>.<off>*<n>` denotes the
// `n` bytes from offset `off` of the infinite stream `k`/`seed` (`n` = LCG noise, `w` = words
// of a fixed 256-word dictionary separated by blanks, `m` = alternating stretches of both);
// the streams are implemented twice (here and in Driver/C01.lean, `genStream`). Response side:
// the `#`-ops (`build#`, `compress#`, `single#`) answer with `#<len>:<FNV-1a 64>` digests.

fn lcg(x: u64) -> u64 {
    x.wrapping_mul(6364136223846793005).wrapping_add(1442695040888963407)
}

fn gen_noise(seed: u64, n: usize, out: &mut Vec<u8>) {
    let mut st = seed.wrapping_mul(0x9E37_79B9_7F4A_7C15).wrapping_add(1);
    for _ in 0..n {
        st = lcg(st);
        out.push((st >> 33) as u8);
    }
}

/// the fixed dictionary: word `i` has `2 + i % 9` letters drawn from one LCG stream
fn dict() -> &'static Vec<Vec<u8>> {
    static D: std::sync::OnceLock<Vec<Vec<u8>>> = std::sync::OnceLock::new();
    D.get_or_init(|| {
        let mut st = 0x5eedu64;
        (0..256usize)
            .map(|i| {
                (0..2 + i % 9)
                    .map(|_| {
                        st = lcg(st);
                        b'a' + ((st >> 33) % 26) as u8
                    })
                    .collect()
            })
            .collect()
    })
}

/// at least `n` bytes of word text (whole words)
fn gen_words(seed: u64, n: usize, out: &mut Vec<u8>) {
    let mut st = seed.wrapping_mul(0x9E37_79B9_7F4A_7C15).wrapping_add(7);
    let d = dict();
    let end = out.len() + n;
    while out.len() < end {
        st = lcg(st);
        out.extend_from_slice(&d[((st >> 33) % 256) as usize]);
        out.push(b' ');
    }
}

/// the first `n` bytes of stream `kind`/`seed`
fn gen_stream(kind: char, seed: u64, n: usize) -> Option<Vec<u8>> {
    let mut out = Vec::with_capacity(n + 16);
    match kind {
        'n' => gen_noise(seed, n, &mut out),
        'w' => gen_words(seed, n, &mut out),
        'm' => {
            // stretches of 3000 noise bytes and 5000 bytes of words, in turn
            let mut k = 0u64;
            while out.len() < n {
                let start = out.len();
                if k % 2 == 0 {
                    gen_noise(seed.wrapping_add(k), 3000, &mut out);
                } else {
                    gen_words(seed.wrapping_add(k), 5000, &mut out);
                    out.truncate(start + 5000);
                }
                k += 1;
            }
        }
        _ => return None,
    }
    out.truncate(n);
    Some(out)
}

/// `<k><seed>.<off>*<n>` (the text after `~`)
fn gen_segment(g: &str) -> Option<Vec<u8>> {
    let kind = g.chars().next()?;
    let (seed, rest) = g[1..].split_once('.')?;
    let (off, n) = rest.split_once('*')?;
    if ![seed, off, n].iter().all(|t| !t.is_empty() && t.bytes().all(|c| c.is_ascii_digit())) {
        return None;
    }
    let (seed, off, n): (u64, usize, usize) = (seed.parse().ok()?, off.parse().ok()?, n.parse().ok()?);
    if off + n > (1 << 28) {
        return None;
    }
    let mut v = gen_stream(kind, seed, off + n)?;
    v.drain(..off);
    Some(v)
}

fn fnv1a(b: &[u8]) -> u64 {
    let mut h = 0xcbf2_9ce4_8422_2325u64;
    for x in b {
        h ^= *x as u64;
        h = h.wrapping_mul(0x0100_0000_01b3);
    }
    h
}

/// digest form of a byte string in the responses of the `#`-ops
fn dig(b: &[u8]) -> String {
    format!("#{}:{:016x}", b.len(), fnv1a(b))
}

/// a source of generated content: the notation of any of its slices is known
#[derive(Clone)]
struct Src {
    kind: char,
    seed: u64,
    bytes: Vec<u8>,
}

impl Src {
    fn new(kind: char, seed: u64, n: usize) -> Src {
        Src { kind, seed, bytes: gen_stream(kind, seed, n).unwrap() }
    }
    /// all zero (written in the periodic notation `00*n`)
    fn zeros(n: usize) -> Src {
        Src { kind: 'z', seed: 0, bytes: vec![0; n] }
    }
    /// notation of `bytes[off..off + n]`
    fn note(&self, off: usize, n: usize) -> String {
        if n < 64 {
            verif_harness::hex(&self.bytes[off..off + n])
        } else if self.kind == 'z' {
            format!("00*{n}")
        } else {
            format!("~{}{}.{}*{}", self.kind, self.seed, off, n)
        }
    }
}

#[allow(deprecated)]
fn mode_of(s: &str) -> Option<CompressionMode> {
    Some(match s {
        "N" => CompressionMode::None,
        "Z" => CompressionMode::ZLib,
        "4" => CompressionMode::LZ4,
        "E" => CompressionMode::Encrypted,
        "F" => CompressionMode::Frame,
        _ => return None,
    })
}

fn err_class(e: &BlteError) -> &'static str {
    match e {
        BlteError::CompressionError(_) => "err:compression",
        BlteError::InvalidChunkCount(_) => "err:chunk-count",
        BlteError::InvalidChunkSize { .. } => "err:chunk-size",
        BlteError::UnsupportedCompressionMode(_) => "err:unsupported",
        BlteError::InvalidIvSize { .. } => "err:iv",
        BlteError::NestedEncryption => "err:nested",
        BlteError::SingleChunkEncrypted => "err:single-enc",
        BlteError::BinRw(_) => "err:parse",
        _ => "err:other",
    }
}

/// the real builder under test; `None` once a call consumed it (error, panic or `build`)
struct Real {
    b: Option<BlteBuilder>,
    /// after a `#`-op: the serialised container and the decode answer (digest form), for O
    last: Option<(Vec<u8>, String)>,
}

/// the answer of a `#`-op for a serialised container: digest of the container, what
/// parse + decompress_with_keys returns (digest), and the table as parsed
fn digest_views(bytes: &[u8], ks: &TactKeyStore) -> (String, String) {
    let (dec, rows) = match catch(AssertUnwindSafe(|| {
        <BlteFile as CascFormat>::parse(bytes)
            .map(|p| {
                let with_keys = p.decompress_with_keys(ks);
                // the decoder without key store must agree on a container without encrypted chunks
                // (O only; reported through the decode answer so that the identity clause sees it)
                if !p.chunks.iter().any(|c| c.mode == CompressionMode::Encrypted) {
                    let plain = p.decompress();
                    if plain.as_ref().ok() != with_keys.as_ref().ok() || plain.is_ok() != with_keys.is_ok() {
                        PLAIN_DIFFERS.store(true, std::sync::atomic::Ordering::SeqCst);
                    }
                }
                (with_keys, rows_line(&p))
            })
            .map_err(|_| ())
    })) {
        Ok(Ok((Ok(out), rows))) => (format!("ok {}", dig(&out)), rows),
        Ok(Ok((Err(e), rows))) => (err_class(&e).to_string(), rows),
        Ok(Err(())) => ("err:parse".into(), "err:parse".into()),
        Err(_) => ("panic".into(), "panic".into()),
    };
    (format!("ok c={} | dec {} | {}", dig(bytes), dec, rows), dec)
}

/// set by `digest_views` when `decompress()` and `decompress_with_keys()` disagreed on a container
/// without encrypted chunks; taken (and reported) by the caller that owns the session
static PLAIN_DIFFERS: std::sync::atomic::AtomicBool = std::sync::atomic::AtomicBool::new(false);

fn take_plain_differs(s: &mut Session, replay: &[String]) {
    if PLAIN_DIFFERS.swap(false, std::sync::atomic::Ordering::SeqCst) {
        s.oracle_fail("decompress-differs-from-decompress-with-keys", "decompress() and decompress_with_keys() disagree on a container without encrypted chunks", replay);
    }
}

fn spec_of(et: &str, name: &str, iv: &str, key: &str) -> Option<(EncryptionSpec, [u8; 16])> {
    let iv: [u8; 4] = unhex(iv)?.try_into().ok()?;
    let key: [u8; 16] = unhex(key)?.try_into().ok()?;
    Some((EncryptionSpec { key_name: name.parse().ok()?, iv, encryption_type: et.parse().ok()? }, key))
}

fn keystore(s: &str) -> Option<TactKeyStore> {
    let mut ks = TactKeyStore::empty();
    if s != "-" {
        for ent in s.split(',') {
            let (n, k) = ent.split_once(':')?;
            let key: [u8; 16] = unhex(k)?.try_into().ok()?;
            ks.add(TactKey::new(n.parse().ok()?, key));
        }
    }
    Some(ks)
}

impl Real {
    fn step(&mut self, f: impl FnOnce(BlteBuilder) -> Result<BlteBuilder, BlteError>) -> String {
        let Some(b) = self.b.take() else { return "dead".into() };
        match catch(AssertUnwindSafe(move || f(b))) {
            Ok(Ok(b)) => {
                self.b = Some(b);
                "ok".into()
            }
            Ok(Err(e)) => err_class(&e).into(),
            Err(_) => "panic".into(),
        }
    }

    fn run(&mut self, toks: &[&str]) -> Option<String> {
        Some(match toks {
            ["begin"] => {
                self.b = Some(BlteBuilder::new());
                "ok".into()
            }
            ["mode", m] => {
                let m = mode_of(m)?;
                self.step(|b| Ok(b.with_compression(m)))
            }
            ["cs", n] => {
                let n: usize = n.parse().ok()?;
                self.step(|b| Ok(b.with_chunk_size_unchecked(n)))
            }
            // the validated setter (documented limits 1 KiB ..= 16 MiB)
            ["csv", n] => {
                let n: usize = n.parse().ok()?;
                self.step(|b| b.with_chunk_size(n))
            }
            ["enc", et, name, iv, key] => {
                let (spec, key) = spec_of(et, name, iv, key)?;
                self.step(|b| Ok(b.with_encryption(spec, key)))
            }
            ["noenc"] => self.step(|b| Ok(b.without_encryption())),
            ["add", d, _tab] => {
                let d = unhex(d)?;
                self.step(|b| b.add_data(&d))
            }
            ["mixed", d, "none", _tab] => {
                let d = unhex(d)?;
                self.step(|b| b.add_mixed_data(&d, None))
            }
            ["mixed", d, et, name, iv, key, _tab] => {
                let d = unhex(d)?;
                let e = spec_of(et, name, iv, key)?;
                self.step(|b| b.add_mixed_data(&d, Some(e)))
            }
            ["encdata", d, et, name, iv, key, idx, _tab] => {
                let d = unhex(d)?;
                let (spec, key) = spec_of(et, name, iv, key)?;
                let idx: usize = idx.parse().ok()?;
                self.step(|b| b.add_encrypted_data(&d, spec, key, idx))
            }
            ["chunk", m, d, _tab] => {
                let m = mode_of(m)?;
                let d = unhex(d)?;
                self.step(|b| Ok(b.add_chunk(ChunkData::new(d, m)?)))
            }
            // chunk-COUNT family: add_chunk(ChunkData::new(piece, m)?) for every k-byte piece of d,
            // answered by the first answer that is not `ok` (see Driver/C01.lean)
            ["chunks", m, d, k, _tab] => {
                let m = mode_of(m)?;
                let d = unhex(d)?;
                let k: usize = k.parse().ok()?;
                if k == 0 {
                    return None;
                }
                let mut r = "ok".to_string();
                for pc in d.chunks(k) {
                    let pc = pc.to_vec();
                    r = self.step(|b| Ok(b.add_chunk(ChunkData::new(pc, m)?)));
                    if r != "ok" {
                        break;
                    }
                }
                r
            }
            ["build"] => {
                let Some(b) = self.b.take() else { return Some("dead".into()) };
                match catch(AssertUnwindSafe(move || b.build().map(|f| CascFormat::build(&f).map_err(|e| e.to_string())))) {
                    Ok(Ok(Ok(bytes))) => format!("ok {}", hex(&bytes)),
                    Ok(Ok(Err(_))) => "err:serialize".into(),
                    Ok(Err(e)) => err_class(&e).into(),
                    Err(_) => "panic".into(),
                }
            }
            // build + serialise + parse + decode in one request, answered with digests (containers
            // of incompressible content are too long for a line)
            ["build#", keys, _tab] => {
                let ks = keystore(keys)?;
                let Some(b) = self.b.take() else { return Some("dead".into()) };
                match catch(AssertUnwindSafe(move || b.build().map(|f| CascFormat::build(&f).map_err(|e| e.to_string())))) {
                    Ok(Ok(Ok(bytes))) => {
                        let (resp, dec) = digest_views(&bytes, &ks);
                        self.last = Some((bytes, dec));
                        resp
                    }
                    Ok(Ok(Err(_))) => "err:serialize".into(),
                    Ok(Err(e)) => err_class(&e).into(),
                    Err(_) => "panic".into(),
                }
            }
            ["dec", f, keys, _tab] => {
                let f = unhex(f)?;
                let ks = keystore(keys)?;
                match catch(AssertUnwindSafe(|| <BlteFile as CascFormat>::parse(&f).map(|p| p.decompress_with_keys(&ks)).map_err(|_| ()))) {
                    Ok(Ok(Ok(out))) => format!("ok {}", hex(&out)),
                    Ok(Ok(Err(e))) => err_class(&e).into(),
                    Ok(Err(())) => "err:parse".into(),
                    Err(_) => "panic".into(),
                }
            }
            ["decplain", f, _tab] => {
                let f = unhex(f)?;
                match catch(AssertUnwindSafe(|| <BlteFile as CascFormat>::parse(&f).map(|p| p.decompress()).map_err(|_| ()))) {
                    Ok(Ok(Ok(out))) => format!("ok {}", hex(&out)),
                    Ok(Ok(Err(e))) => err_class(&e).into(),
                    Ok(Err(())) => "err:parse".into(),
                    Err(_) => "panic".into(),
                }
            }
            ["rows", f] => {
                let f = unhex(f)?;
                match catch(AssertUnwindSafe(|| <BlteFile as CascFormat>::parse(&f).map_err(|_| ()))) {
                    Ok(Ok(p)) => rows_line(&p),
                    Ok(Err(())) => "err:parse".into(),
                    Err(_) => "panic".into(),
                }
            }
            _ => return None,
        })
    }
}

fn rows_line(p: &BlteFile) -> String {
    match &p.header.extended {
        None => format!("single chunks={}", p.chunks.len()),
        Some(x) => {
            let rows: Vec<String> = x
                .chunk_infos
                .iter()
                .map(|r| format!("{}:{}:{}", r.compressed_size, r.decompressed_size, hex(&r.checksum)))
                .collect();
            format!("table hs={} n={} {}", p.header.header_size, x.chunk_count, if rows.is_empty() { "-".into() } else { rows.join(",") })
        }
    }
}

// ---------------------------------------------------------------- program generation

#[derive(Clone)]
struct Enc {
    et: u8,
    name: u64,
    iv: [u8; 4],
    key: [u8; 16],
}

impl Enc {
    fn toks(&self) -> String {
        format!("{} {} {} {}", self.et, self.name, hex(&self.iv), hex(&self.key))
    }
}

/// compression ratios the run reached: per mode the largest `plain : compressed` ratio of one
/// chunk (and the chunk length it was reached on) and a histogram of ratio classes
static RATIOS: std::sync::Mutex<BTreeMap<String, u64>> = std::sync::Mutex::new(BTreeMap::new());

fn note_ratio(mode: char, plain: usize, comp: usize) {
    if plain == 0 || comp == 0 {
        return;
    }
    let r = plain / comp;
    let class = match r {
        0 => "<1",
        1 => "1-2",
        2..=15 => "2-16",
        16..=127 => "16-128",
        128..=511 => "128-512",
        512..=899 => "512-900",
        900..=999 => "900-1000",
        _ => ">=1000",
    };
    let mut g = RATIOS.lock().unwrap();
    *g.entry(format!("ratio.{mode}.{class}")).or_insert(0) += 1;
    let best = g.entry(format!("max.{mode}")).or_insert(0);
    if r as u64 > *best {
        *best = r as u64;
        g.insert(format!("maxlen.{mode}"), plain as u64);
    }
}

/// write the ratio statistics into the session (distribution + extra)
fn flush_ratios(s: &mut Session) {
    let g = RATIOS.lock().unwrap();
    for (k, v) in g.iter() {
        if k.starts_with("ratio.") {
            s.tally_n(&format!("compress_chunk.{k}:1"), *v);
        }
    }
    for m in ['Z', '4'] {
        if let Some(r) = g.get(&format!("maxgrow.{m}")) {
            s.extra.insert(format!("max_compressor_expansion_bytes_mode_{m}"), serde_json::json!(r));
        }
        if let Some(r) = g.get(&format!("max.{m}")) {
            let len = g.get(&format!("maxlen.{m}")).copied().unwrap_or(0);
            s.extra.insert(format!("max_compression_ratio_mode_{m}"), serde_json::json!({ "ratio_floor": r, "chunk_len": len }));
            s.tally(&format!("compress_chunk.max-ratio.{m} = {r}:1 (chunk of {len} bytes)"));
        }
    }
}

/// what the harness knows about the program it generated (computed independently of the builder)
struct Prog {
    lines: Vec<String>,
    mode: &'static str,
    cs: usize,
    enc: Option<Enc>,
    added: Vec<u8>,
    /// plain bytes of every chunk the program should have produced, and whether it is encrypted
    plain_chunks: Vec<(Vec<u8>, bool)>,
    keys: BTreeMap<u64, [u8; 16]>,
    tab: BTreeMap<(char, Vec<u8>), Vec<u8>>,
    foreign_index: bool,
    expect_err: bool,
    shape: Vec<&'static str>,
    /// a "large-chunk" program: chunk sizes of 16 KiB and more, highly compressible payloads
    big: bool,
    /// large-chunk programs: the kinds of content its payloads are drawn from and the byte that
    /// constant runs are made of (one byte per program, so that the concatenation of its
    /// payloads usually still has a compact notation)
    kinds: &'static [Kind],
    fill: u8,
    /// the case ends in a `#`-op: O compares digests (`#<len>:<fnv>`) instead of hex text
    digest: bool,
}

fn split(cs: usize, d: &[u8]) -> Option<Vec<Vec<u8>>> {
    if d.len() <= cs {
        Some(vec![d.to_vec()])
    } else if cs == 0 {
        None
    } else {
        Some(d.chunks(cs).map(|c| c.to_vec()).collect())
    }
}

fn tab_str<'a>(ents: impl Iterator<Item = (&'a (char, Vec<u8>), &'a Vec<u8>)>) -> String {
    let v: Vec<String> = ents.map(|((m, p), c)| format!("{m}:{}:{}", hex(p), hex(c))).collect();
    if v.is_empty() { "-".into() } else { v.join(",") }
}

impl Prog {
    fn new() -> Prog {
        Prog {
            lines: vec!["begin".into()],
            mode: "N",
            cs: 256 * 1024,
            enc: None,
            added: vec![],
            plain_chunks: vec![],
            keys: BTreeMap::new(),
            tab: BTreeMap::new(),
            foreign_index: false,
            expect_err: false,
            shape: vec![],
            big: false,
            kinds: &[Kind::Zero],
            fill: 0,
            digest: false,
        }
    }
    /// graph of the real compressor on the given plain chunks for mode `m` (Z / 4 only)
    fn table_for(&mut self, m: &str, plains: &[Vec<u8>]) -> String {
        let (mc, cm) = match m {
            "Z" => ('Z', CompressionMode::ZLib),
            "4" => ('4', CompressionMode::LZ4),
            _ => return "-".into(),
        };
        let mut local = BTreeMap::new();
        for p in plains {
            if let Ok(c) = compress_chunk(p, cm) {
                note_ratio(mc, p.len(), c.len());
                local.insert((mc, p.clone()), c.clone());
                self.tab.insert((mc, p.clone()), c);
            }
        }
        tab_str(local.iter())
    }
    /// the same without the text (accounting of a replayed line: the graph is only needed for the
    /// compressor law)
    fn note_tab(&mut self, m: &str, plains: &[Vec<u8>]) {
        let (mc, cm) = match m {
            "Z" => ('Z', CompressionMode::ZLib),
            "4" => ('4', CompressionMode::LZ4),
            _ => return,
        };
        for p in plains {
            if let Ok(c) = compress_chunk(p, cm) {
                note_ratio(mc, p.len(), c.len());
                self.tab.insert((mc, p.clone()), c);
            }
        }
    }
    fn payload(&self, rng: &mut Rng, max: usize) -> Vec<u8> {
        if self.big && self.cs >= 16 * 1024 && matches!(self.mode, "Z" | "4" | "F") {
            // large-chunk program: lengths around the (large) chunk size, content that deflate /
            // LZ4 shrink by two to three orders of magnitude
            let cs = self.cs.min(256 * 1024);
            let n = match rng.below(8) {
                0 => cs - 1,
                1 | 2 => cs,
                3 => cs + 1,
                4 => 2 * cs + 1,
                5 => rng.range(1, 64) as usize,
                _ => rng.range(cs as u64 / 2, cs as u64) as usize,
            }
            .min(300 * 1024);
            let kind = *rng.pick(self.kinds);
            return compressible(rng, kind, n, Some(self.fill));
        }
        let cs = self.cs.min(4096);
        let n = match rng.below(14) {
            0 => 0,
            1 => 1,
            2 => cs.saturating_sub(1),
            3 => cs,
            4 => cs + 1,
            5 => 2 * cs,
            6 => 2 * cs + 1,
            7 => 3 * cs + rng.below(cs as u64 + 1) as usize,
            8 => rng.range(2, 16) as usize,
            _ => rng.range(0, max as u64) as usize,
        }
        .min(max.max(2 * cs + 1).min(9000));
        let mut d = match rng.below(5) {
            0 => vec![rng.byte(); n],
            1 => (0..n).map(|i| (i % 7) as u8).collect(),
            _ => rng.bytes(n),
        };
        // payloads that start with a mode byte
        if n > 0 && rng.chance(1, 3) {
            d[0] = *rng.pick(&[b'N', b'Z', b'4', b'E', b'F']);
        }
        d
    }
    fn some_enc(&mut self, rng: &mut Rng, pool: &[(u64, [u8; 16])]) -> Enc {
        let (name, key) = *rng.pick(pool);
        let et = match rng.below(20) {
            0 => *rng.pick(&[0u8, 0x45, 0x73]),
            1..=7 => 0x41,
            _ => 0x53,
        };
        let iv: [u8; 4] = rng.bytes(4).try_into().unwrap();
        if et == 0x53 || et == 0x41 {
            self.keys.insert(name, key);
        }
        Enc { et, name, iv, key }
    }
    /// effect of one chunk-producing call as the property demands it
    fn account(&mut self, d: &[u8], chunks: Option<Vec<Vec<u8>>>, enc: Option<&Enc>, mode_ok: bool) {
        let enc_ok = enc.is_none_or(|e| e.et == 0x53 || e.et == 0x41);
        match chunks {
            Some(cs) if mode_ok && enc_ok => {
                self.added.extend_from_slice(d);
                for c in cs {
                    self.plain_chunks.push((c, enc.is_some()));
                }
            }
            _ => self.expect_err = true,
        }
    }
    fn op(&mut self, rng: &mut Rng, pool: &[(u64, [u8; 16])], max: usize) {
        match rng.below(100) {
            0..=7 => {
                // (large-chunk programs stay with the compressing modes: the model's MD5 / Salsa20
                // over hundreds of KiB of raw chunk bytes would dominate the run)
                self.mode = match rng.below(16) {
                    0 if !self.big => "E",
                    1 => "F",
                    2..=5 if !self.big => "N",
                    0..=10 => "Z",
                    _ => "4",
                };
                self.lines.push(format!("mode {}", self.mode));
            }
            8..=13 => {
                if !self.big && rng.chance(1, 6) {
                    // the validated setter at and around its documented limits (1 KiB ..= 16 MiB)
                    let n = *rng.pick(&[0usize, 1023, 1024, 1024, 1025, 2048, 4096, 16 << 20, (16 << 20) + 1]);
                    self.lines.push(format!("csv {n}"));
                    if (1024..=16usize << 20).contains(&n) {
                        self.cs = n;
                    } else {
                        self.expect_err = true;
                    }
                    return;
                }
                self.cs = if self.big && rng.chance(4, 5) {
                    *rng.pick(&[16usize << 10, 16 << 10, 32 << 10, 64 << 10, 1 << 20, usize::MAX])
                } else {
                    *rng.pick(&[0usize, 1, 1, 2, 3, 5, 5, 16, 64, 64, 1024])
                };
                self.lines.push(format!("cs {}", self.cs));
            }
            14..=19 => {
                let e = self.some_enc(rng, pool);
                self.lines.push(format!("enc {}", e.toks()));
                self.enc = Some(e);
            }
            20..=22 => {
                self.enc = None;
                self.lines.push("noenc".into());
            }
            23..=57 => {
                let d = self.payload(rng, max);
                let chunks = split(self.cs, &d);
                let tab = self.table_for(self.mode, chunks.as_deref().unwrap_or(&[]));
                self.lines.push(format!("add {} {}", hex(&d), tab));
                let enc = self.enc.clone();
                // plain chunk under mode E/F is an encoder error; under encryption mode E means inner N
                let mode_ok = if enc.is_some() { self.mode != "F" } else { self.mode != "E" && self.mode != "F" };
                self.shape.push(if enc.is_some() { "add+enc" } else { "add" });
                self.account(&d, chunks, enc.as_ref(), mode_ok);
            }
            58..=79 => {
                let d = self.payload(rng, max);
                let chunks = split(self.cs, &d);
                let tab = self.table_for(self.mode, chunks.as_deref().unwrap_or(&[]));
                let enc = if rng.chance(3, 5) { Some(self.some_enc(rng, pool)) } else { None };
                match &enc {
                    Some(e) => self.lines.push(format!("mixed {} {} {}", hex(&d), e.toks(), tab)),
                    None => self.lines.push(format!("mixed {} none {}", hex(&d), tab)),
                }
                let mode_ok = if enc.is_some() { self.mode != "F" } else { self.mode != "E" && self.mode != "F" };
                self.shape.push(if enc.is_some() { "mixed+enc" } else { "mixed" });
                self.account(&d, chunks, enc.as_ref(), mode_ok);
            }
            80..=91 => {
                let d = self.payload(rng, max);
                let e = self.some_enc(rng, pool);
                let here = self.plain_chunks.len();
                let idx = match rng.below(10) {
                    0 => here + 1,
                    1 => rng.below(5) as usize,
                    2 => here + (1usize << 32),
                    _ => here,
                };
                let tab = self.table_for(self.mode, std::slice::from_ref(&d));
                self.lines.push(format!("encdata {} {} {} {}", hex(&d), e.toks(), idx, tab));
                if e.et == 0x53 && (idx as u32) != (here as u32) && self.mode != "F" {
                    self.foreign_index = true;
                }
                self.shape.push("encdata");
                let mode_ok = self.mode != "F";
                self.account(&d, Some(vec![d.clone()]), Some(&e), mode_ok);
            }
            _ => {
                let d = self.payload(rng, max);
                let m = if self.big { *rng.pick(&["Z", "Z", "4", "4", "E", "F"]) } else { *rng.pick(&["N", "N", "Z", "Z", "4", "4", "E", "F"]) };
                let tab = self.table_for(m, std::slice::from_ref(&d));
                self.lines.push(format!("chunk {} {} {}", m, hex(&d), tab));
                self.shape.push("chunk");
                self.account(&d, Some(vec![d.clone()]), None, m != "E" && m != "F");
            }
        }
    }
    /// one chunk-producing call with the given payload under the program's current mode / chunk
    /// size / encryption (modes N/Z/4 only): `add`, `mixed` (the builder's encryption as the
    /// argument), `encdata` at the chunk's own position (the builder's encryption, else `other`),
    /// `chunk` (ChunkData::new with the current mode)
    fn emit(&mut self, c: &str, d: Vec<u8>, other: &Enc) {
        let en = self.enc.clone();
        match c {
            "add" => {
                let ch = split(self.cs, &d);
                let tab = self.table_for(self.mode, ch.as_deref().unwrap_or(&[]));
                self.lines.push(format!("add {} {}", hex(&d), tab));
                self.shape.push(if en.is_some() { "add+enc" } else { "add" });
                self.account(&d, ch, en.as_ref(), true);
            }
            "mixed" => {
                let ch = split(self.cs, &d);
                let tab = self.table_for(self.mode, ch.as_deref().unwrap_or(&[]));
                match &en {
                    Some(x) => self.lines.push(format!("mixed {} {} {}", hex(&d), x.toks(), tab)),
                    None => self.lines.push(format!("mixed {} none {}", hex(&d), tab)),
                }
                self.shape.push(if en.is_some() { "mixed+enc" } else { "mixed" });
                self.account(&d, ch, en.as_ref(), true);
            }
            "encdata" => {
                let x = en.unwrap_or_else(|| other.clone());
                self.keys.insert(x.name, x.key);
                let here = self.plain_chunks.len();
                let tab = self.table_for(self.mode, std::slice::from_ref(&d));
                self.lines.push(format!("encdata {} {} {} {}", hex(&d), x.toks(), here, tab));
                self.shape.push("encdata");
                self.account(&d, Some(vec![d.clone()]), Some(&x), true);
            }
            _ => {
                let tab = self.table_for(self.mode, std::slice::from_ref(&d));
                self.lines.push(format!("chunk {} {} {}", self.mode, hex(&d), tab));
                self.shape.push("chunk");
                self.account(&d, Some(vec![d.clone()]), None, true);
            }
        }
    }
    fn keys_str(&self) -> String {
        let v: Vec<String> = self.keys.iter().map(|(n, k)| format!("{n}:{}", hex(k))).collect();
        if v.is_empty() { "-".into() } else { v.join(",") }
    }
}

// ---------------------------------------------------------------- highly compressible payloads in large single chunks

/// content that the compressors shrink by orders of magnitude (deflate approaches 1030:1, LZ4
/// 255:1 on a constant run)
#[derive(Clone, Copy, Debug, PartialEq)]
enum Kind {
    /// all zero
    Zero,
    /// one random byte repeated
    Const,
    /// a random unit of 2..=8 bytes repeated
    Period,
    /// a mode byte N/Z/4/E/F followed by a constant run
    ModeByteFirst,
    /// zeros with 1..=4 random bytes at random places
    Sparse,
}

fn compressible(rng: &mut Rng, kind: Kind, n: usize, fill: Option<u8>) -> Vec<u8> {
    let fill = fill.unwrap_or_else(|| rng.byte());
    match kind {
        Kind::Zero => vec![0; n],
        Kind::Const => vec![fill; n],
        Kind::Period => {
            let k = rng.range(2, 8) as usize;
            let u = rng.bytes(k);
            (0..n).map(|i| u[i % u.len()]).collect()
        }
        Kind::ModeByteFirst => {
            let mut d = vec![fill; n];
            if n > 0 {
                d[0] = *rng.pick(&[b'N', b'Z', b'4', b'E', b'F']);
            }
            d
        }
        Kind::Sparse => {
            let mut d = vec![0u8; n];
            for _ in 0..rng.range(1, 4) {
                if n > 0 {
                    d[rng.below(n as u64) as usize] = rng.byte();
                }
            }
            d
        }
    }
}

/// The class "a chunk the encoder's own compressor shrinks by a large factor": one chunk of
/// 16 KiB .. 1 MiB (quick) / 4 MiB (thorough) of constant / short-period / sparse content, modes
/// Z and 4, through every way of making one chunk (builder add_data plain / Salsa20 / ARC4,
/// add_mixed_data, add_encrypted_data, add_chunk, BlteFile::compress, BlteFile::single_chunk), at
/// position 0 and behind a leading small chunk, chunk size = payload, payload + 1, larger, the
/// default and usize::MAX; plus payloads a large chunk size splits into several such chunks.
/// Everything the decoder does per chunk (size limits, read loops, buffer growth) is driven far
/// from the ratios <= 60:1 that payloads of a few KiB reach.
fn compressible_family(s: &mut Session, rng: &mut Rng, thorough: bool, pool: &[(u64, [u8; 16])]) {
    const K: usize = 1024;
    let sizes: &[usize] = if thorough {
        &[16 * K, 24 * K, 32 * K - 1, 32 * K, 32 * K + 1, 48 * K, 64 * K, 128 * K, 256 * K, 512 * K, 1024 * K, 4096 * K]
    } else {
        &[16 * K, 32 * K, 64 * K, 256 * K, 1024 * K]
    };
    let entries = ["add", "add+salsa", "add+arc4", "other", "compress", "single"];
    let all_kinds = [Kind::Zero, Kind::Const, Kind::Period, Kind::ModeByteFirst, Kind::Sparse];
    let mut turn = rng.below(64) as usize;
    let flip = rng.below(2) as usize;
    for &n in sizes {
        for (mi, m) in ["Z", "4"].into_iter().enumerate() {
            for (ei, entry) in entries.into_iter().enumerate() {
                turn += 1;
                // quick tier, chunks above 256 KiB: every other route per mode (the two modes
                // take complementary halves, the seed decides which)
                if !thorough && n > 256 * K && (ei + mi + flip) % 2 == 0 {
                    continue;
                }
                // every kind of content on every route for chunks up to 64 KiB (thorough: 1 MiB);
                // above, the kinds take turns (every size x mode sees each of them)
                let kinds: Vec<Kind> = if n <= 64 * K || (thorough && n <= 1024 * K) {
                    all_kinds.to_vec()
                } else {
                    vec![all_kinds[turn % 5]]
                };
                for kind in kinds {
                    let d = compressible(rng, kind, n, None);
                    s.tally(&format!("compressible.len.{n}"));
                    s.tally(&format!("compressible.mode.{m}"));
                    s.tally(&format!("compressible.content.{kind:?}"));
                    // chunk size: the payload fits into one chunk
                    let cs = match rng.below(5) {
                        0 => n,
                        1 => n + 1,
                        2 => 2 * n,
                        3 => usize::MAX,
                        _ if n <= 256 * K => 256 * K, // the default: no cs call
                        _ => n,
                    };
                    match entry {
                        "compress" => {
                            let mut p = Prog::new();
                            let cs = if cs == usize::MAX { 1 << 30 } else { cs };
                            let tab = p.table_for(m, std::slice::from_ref(&d));
                            s.tally("compressible.route.compress");
                            entry_case(s, &format!("compress {cs} {m} {} {tab}", hex(&d)), true, false);
                        }
                        "single" => {
                            let mut p = Prog::new();
                            let tab = p.table_for(m, std::slice::from_ref(&d));
                            s.tally("compressible.route.single_chunk");
                            entry_case(s, &format!("single {m} {} {tab}", hex(&d)), true, false);
                        }
                        _ => {
                            let mut p = Prog::new();
                            p.big = true;
                            if cs != 256 * K {
                                p.cs = cs;
                                p.lines.push(format!("cs {cs}"));
                            }
                            p.mode = m;
                            p.lines.push(format!("mode {m}"));
                            let mk = |rng: &mut Rng, et: u8| {
                                let (name, key) = *rng.pick(pool);
                                Enc { et, name, iv: rng.bytes(4).try_into().unwrap(), key }
                            };
                            let et = *rng.pick(&[0x53u8, 0x41]);
                            let other = mk(rng, et);
                            let call = match entry {
                                "add" => "add",
                                "add+salsa" | "add+arc4" => {
                                    let e = mk(rng, if entry == "add+salsa" { 0x53 } else { 0x41 });
                                    p.keys.insert(e.name, e.key);
                                    p.lines.push(format!("enc {}", e.toks()));
                                    p.enc = Some(e);
                                    "add"
                                }
                                _ => {
                                    // the remaining chunk-producing calls, plain or encrypted
                                    if rng.chance(1, 2) {
                                        let et = *rng.pick(&[0x53u8, 0x41]);
                                        let e = mk(rng, et);
                                        p.keys.insert(e.name, e.key);
                                        p.lines.push(format!("enc {}", e.toks()));
                                        p.enc = Some(e);
                                    }
                                    *rng.pick(&["mixed", "encdata", "chunk"])
                                }
                            };
                            // half of the programs put a small chunk first, so that the large one
                            // sits at block index 1 and under a chunk table also when plain
                            if rng.chance(1, 2) {
                                let k = rng.range(1, 5) as usize;
                                let lead = rng.bytes(k);
                                p.emit("add", lead, &other);
                            }
                            p.emit(call, d, &other);
                            s.tally(&format!("compressible.route.{}{}", call, match &p.enc {
                                Some(e) if call != "chunk" => if e.et == 0x53 { "+salsa20" } else { "+arc4" },
                                None if call == "encdata" => if other.et == 0x53 { "+salsa20" } else { "+arc4" },
                                _ => "",
                            }));
                            run_prog(s, &p);
                        }
                    }
                }
            }
        }
    }
    // payloads that a large chunk size splits into several highly compressible chunks
    // (the default 256 KiB on 1 MiB; 64 KiB on 3 x 64 KiB + 5), plain and encrypted
    for (n, cs) in [(1024 * K, 256 * K), (3 * 64 * K + 5, 64 * K), (2 * 32 * K, 32 * K)] {
        for m in ["Z", "4"] {
            for et in [None, Some(0x53u8), Some(0x41)] {
                if !thorough && et == Some(0x41) && n != 2 * 32 * K {
                    continue;
                }
                let kind = *rng.pick(&all_kinds);
                let d = compressible(rng, kind, n, None);
                let mut p = Prog::new();
                p.big = true;
                if cs != 256 * K {
                    p.cs = cs;
                    p.lines.push(format!("cs {cs}"));
                }
                p.mode = m;
                p.lines.push(format!("mode {m}"));
                let (name, key) = *rng.pick(pool);
                let other = Enc { et: 0x53, name, iv: rng.bytes(4).try_into().unwrap(), key };
                if let Some(et) = et {
                    let e = Enc { et, ..other.clone() };
                    p.keys.insert(e.name, e.key);
                    p.lines.push(format!("enc {}", e.toks()));
                    p.enc = Some(e);
                }
                let call = *rng.pick(&["add", "add", "mixed"]);
                p.emit(call, d, &other);
                s.tally("compressible.split-into-large-chunks");
                s.tally(&format!("compressible.content.{kind:?}"));
                run_prog(s, &p);
            }
        }
    }
    if thorough {
        for m in ["Z", "4"] {
            let d = compressible(rng, Kind::Zero, 1024 * K, None);
            let mut p = Prog::new();
            let tab = p.table_for(m, &split(256 * K, &d).unwrap());
            s.tally("compressible.split-into-large-chunks");
            entry_case(s, &format!("compress {} {m} {} {tab}", 256 * K, hex(&d)), true, false);
        }
    }
}

// ---------------------------------------------------------------- large chunks of content that does not shrink

/// how the chunk size of a big-family program is set
#[derive(Clone, Copy, PartialEq)]
enum CsOp {
    Default,
    Unchecked(usize),
    /// the validated `with_chunk_size` (documented limits 1 KiB ..= 16 MiB)
    Checked(usize),
}

/// one case of the large-chunk family, as request lines: a builder program ending in `build#`, or
/// one `compress#` / `single#` line. `kmode`: the lines carry the graph of the real compressor
/// (the Lean model evaluates them); otherwise the case is one oracle-only `big` line.
#[allow(clippy::too_many_arguments)]
fn big_lines(rng: &mut Rng, pool: &[(u64, [u8; 16])], kmode: bool, src: &Src, off: usize, n: usize, mode: &'static str, et: Option<u8>, route: &str, cs: CsOp, lead: bool) -> Vec<String> {
    let cm = match mode {
        "Z" => Some(('Z', CompressionMode::ZLib)),
        "4" => Some(('4', CompressionMode::LZ4)),
        _ => None,
    };
    // graph of the real compressor on pieces of the source (K lines only)
    let tab = |pieces: &[(usize, usize)]| -> String {
        let Some((mc, cm)) = cm else { return "-".into() };
        if !kmode {
            return "-".into();
        }
        let mut v: Vec<String> = vec![];
        for &(o, l) in pieces {
            if let Ok(c) = compress_chunk(&src.bytes[o..o + l], cm) {
                v.push(format!("{mc}:{}:{}", src.note(o, l), hex(&c)));
            }
        }
        v.sort();
        v.dedup();
        if v.is_empty() { "-".into() } else { v.join(",") }
    };
    let pieces_of = |cs: usize| -> Vec<(usize, usize)> {
        if n <= cs || cs == 0 { vec![(off, n)] } else { (0..n).step_by(cs).map(|o| (off + o, cs.min(n - o))).collect() }
    };
    let d = src.note(off, n);
    let csn = match cs {
        CsOp::Default => 256 * 1024,
        CsOp::Unchecked(c) | CsOp::Checked(c) => c,
    };
    match route {
        "compress" => return vec![format!("compress# {csn} {mode} {d} {}", tab(&pieces_of(csn)))],
        "single" => return vec![format!("single# {mode} {d} {}", tab(&[(off, n)]))],
        _ => {}
    }
    let mut lines = vec!["begin".to_string()];
    match cs {
        CsOp::Default => {}
        CsOp::Unchecked(c) => lines.push(format!("cs {c}")),
        CsOp::Checked(c) => lines.push(format!("csv {c}")),
    }
    lines.push(format!("mode {mode}"));
    let mut keys = BTreeMap::new();
    let mut mk = |rng: &mut Rng, et: u8| {
        let (name, key) = *rng.pick(pool);
        keys.insert(name, key);
        Enc { et, name, iv: rng.bytes(4).try_into().unwrap(), key }
    };
    let e = et.map(|et| mk(rng, et));
    if let (Some(e), "add") = (&e, route) {
        lines.push(format!("enc {}", e.toks()));
    }
    let mut pos = 0usize;
    if lead {
        // a small plain-or-encrypted chunk in front: the large one sits at block index 1, under a table
        let k = rng.range(1, 5) as usize;
        let l = rng.bytes(k);
        let t = match cm {
            Some((mc, cm)) if kmode => compress_chunk(&l, cm).map(|c| format!("{mc}:{}:{}", hex(&l), hex(&c))).unwrap_or_else(|_| "-".into()),
            _ => "-".into(),
        };
        lines.push(format!("add {} {t}", hex(&l)));
        pos = 1;
    }
    match (route, &e) {
        ("add", _) => lines.push(format!("add {d} {}", tab(&pieces_of(csn)))),
        ("mixed", None) => lines.push(format!("mixed {d} none {}", tab(&pieces_of(csn)))),
        ("mixed", Some(e)) => lines.push(format!("mixed {d} {} {}", e.toks(), tab(&pieces_of(csn)))),
        ("encdata", Some(e)) => lines.push(format!("encdata {d} {} {pos} {}", e.toks(), tab(&[(off, n)]))),
        _ => lines.push(format!("chunk {mode} {d} {}", tab(&[(off, n)]))),
    }
    let ks: Vec<String> = keys.iter().map(|(n, k)| format!("{n}:{}", hex(k))).collect();
    lines.push(format!("build# {} -", if ks.is_empty() { "-".into() } else { ks.join(",") }));
    lines
}

fn run_big(s: &mut Session, lines: Vec<String>, kmode: bool) {
    if kmode {
        replay(s, &lines, true, false);
    } else {
        replay(s, &[format!("big {}", lines.join("|"))], true, false);
    }
}

/// The class "one chunk (or a few) of content the compressors cannot shrink much, at and around
/// every size at which the encode / decode paths change gear": the decoder's 8 KiB read buffer,
/// flate2's 32 KiB input buffer and deflate's 32 KiB window, stored-block / LZ4 64 KiB limits,
/// miniz's 85196-byte output buffer, the builder's 256 KiB default chunk size, 1 MiB — each with
/// its -1 / +1 neighbours — and, in `limit_family`, the builder's documented 16 MiB maximum.
/// Content: LCG noise (incompressible: deflate emits stored blocks, LZ4 literals only), text of
/// dictionary words (deflate flushes several dynamic blocks from a few hundred KiB on), a mix of
/// both. Every compression mode (N, Z, 4; E with Salsa20 / ARC4 over each of them as inner mode;
/// F is refused by every encoder call, see the sweeps) and every way of making a chunk.
/// Request lines carry the payloads in generator notation; cases are oracle-only (`big` lines)
/// except a rotating subset of those up to 64 KiB + 1 and two of 256 KiB which the Lean model
/// evaluates as well.
fn big_family(s: &mut Session, rng: &mut Rng, thorough: bool, pool: &[(u64, [u8; 16])]) {
    const K: usize = 1024;
    let combos: [(&'static str, Option<u8>); 9] =
        [("N", None), ("Z", None), ("4", None), ("N", Some(0x53)), ("Z", Some(0x53)), ("4", Some(0x53)), ("N", Some(0x41)), ("Z", Some(0x41)), ("4", Some(0x41))];
    let plain_routes = ["add", "csv-add", "mixed", "chunk", "compress", "single"];
    let enc_routes = ["add", "csv-add", "mixed", "encdata"];
    let mut turn = rng.below(64) as usize;
    let mut kcount = 0usize;
    for kind in ['n', 'w', 'm'] {
        let src = Src::new(kind, rng.below(100_000), 1024 * K + 1 + 4096);
        for (ci, &(mode, et)) in combos.iter().enumerate() {
            // (an odd stride: every size meets every route over the contents x modes)
            turn += 1 + (turn + ci) % 2;
            let mut sizes: Vec<usize> = vec![];
            for t in [8 * K, 32 * K, 64 * K, 256 * K] {
                sizes.extend([t - 1, t, t + 1]);
            }
            sizes.extend([16 * K, 85196, 128 * K]);
            if thorough {
                sizes.extend([1024 * K - 1, 1024 * K, 1024 * K + 1, 85195, 85197, 16 * K + 1, 128 * K + 1, 512 * K]);
            } else {
                // quick tier: one of the three 1 MiB neighbours per content x mode, in turn
                sizes.push(1024 * K - 1 + (turn + ci) % 3);
            }
            // two sizes nobody chose: log-uniform in 4 KiB .. 1 MiB
            for _ in 0..2 {
                let bits = rng.range(12, 19);
                sizes.push(((1u64 << bits) + rng.below(1u64 << bits)) as usize);
            }
            for n in sizes {
                turn += 1;
                let off = rng.below(4096) as usize;
                let routes: &[&str] = if et.is_some() { &enc_routes } else { &plain_routes };
                let route0 = routes[turn % routes.len()];
                let (route, cs) = match route0 {
                    "csv-add" => ("add", CsOp::Checked(n.max(1024))),
                    "add" | "mixed" | "compress" => (
                        route0,
                        match rng.below(4) {
                            0 => CsOp::Unchecked(n),
                            1 => CsOp::Unchecked(n + 1),
                            2 => CsOp::Unchecked(usize::MAX >> 1),
                            _ if n <= 256 * K && route0 != "compress" => CsOp::Default,
                            _ => CsOp::Unchecked(2 * n),
                        },
                    ),
                    r => (r, CsOp::Default),
                };
                let lead = !matches!(route, "compress" | "single") && rng.chance(1, 2);
                // the Lean model evaluates a rotating subset of the cases up to 64 KiB + 1
                let kmode = n <= 64 * K + 1 && turn % if thorough { 2 } else { 6 } == 0;
                kcount += kmode as usize;
                let class = match n {
                    0..=8193 => "<=8KiB+1",
                    8194..=32769 => "<=32KiB+1",
                    32770..=65537 => "<=64KiB+1",
                    65538..=262145 => "<=256KiB+1",
                    _ => "<=1MiB+1",
                };
                s.tally(&format!("big.len.{class}"));
                s.tally(&format!("big.content.{}", match kind { 'n' => "noise", 'w' => "words", _ => "mixed" }));
                s.tally(&format!("big.mode.{}{mode}", match et { Some(0x53) => "E(salsa20)/", Some(_) => "E(arc4)/", None => "" }));
                s.tally(&format!("big.route.{route0}"));
                s.tally(if kmode { "big.K+O" } else { "big.oracle-only" });
                let lines = big_lines(rng, pool, kmode, &src, off, n, mode, et, route, cs, lead);
                run_big(s, lines, kmode);
                if HUNG.load(std::sync::atomic::Ordering::SeqCst) {
                    return;
                }
            }
        }
        // several large chunks of such content: 3 x 64 KiB + 5 at 64 KiB, 200000 at a validated
        // 64 KiB, 2 x 32 KiB at 32 KiB — through add_data / add_mixed_data / compress
        for (n, cs) in [(3 * 64 * K + 5, CsOp::Unchecked(64 * K)), (200_000, CsOp::Checked(64 * K)), (64 * K, CsOp::Unchecked(32 * K))] {
            for &(mode, et) in &combos {
                turn += 1;
                if !thorough && (turn % 3 != 0) {
                    continue;
                }
                let route = if et.is_some() { ["add", "mixed"][turn % 2] } else { ["add", "mixed", "compress"][turn % 3] };
                let kmode = n == 64 * K && turn % 2 == 0;
                kcount += kmode as usize;
                s.tally("big.split-into-several-chunks");
                s.tally(if kmode { "big.K+O" } else { "big.oracle-only" });
                let off = rng.below(4096) as usize;
                let lead = rng.chance(1, 3);
                let lines = big_lines(rng, pool, kmode, &src, off, n, mode, et, route, cs, lead);
                run_big(s, lines, kmode);
            }
        }
        // 256 KiB chunks the model evaluates too: mode N plain and under Salsa20 / ARC4 (MD5 and
        // the ciphers over the whole chunk on the Lean side); noise only in the quick tier
        if kind == 'n' || thorough {
            for et in [None, Some(0x53u8), Some(0x41)] {
                if !thorough && et == Some(0x41) {
                    continue;
                }
                kcount += 1;
                s.tally("big.len.<=256KiB+1");
                s.tally("big.K+O");
                let n = 256 * K + rng.below(2) as usize;
                let lines = big_lines(rng, pool, true, &src, 0, n, "N", et, "add", CsOp::Unchecked(n), true);
                run_big(s, lines, true);
            }
        }
    }
    s.extra.insert("big_family_cases_evaluated_by_the_model_too".into(), serde_json::json!(kcount));
}

/// The builder's documented limits: `with_chunk_size` accepts 1 KiB ..= 16 MiB of CONTENT per
/// chunk, `add_encrypted_data` / `add_chunk` take one piece "regardless of size". Whatever build +
/// serialise accepts, parse + decode must return: a stored chunk is content + 1 mode byte, + 16
/// more when encrypted (+ expansion when the content does not compress). Oracle-only (16 MiB per
/// chunk is out of reach of the line protocol); the out-of-range setter calls are ordinary lines.
fn limit_family(s: &mut Session, rng: &mut Rng, thorough: bool, pool: &[(u64, [u8; 16])]) {
    const M: usize = 16 * 1024 * 1024;
    // the setter at its documented limits (K: the model's withChunkSizeChecked)
    for n in [0usize, 1, 1023, 1024, 1025, M - 1, M, M + 1, 2 * M, usize::MAX >> 1] {
        let d = rng.bytes(if n == 1024 { 1025 } else { 3 });
        let lines: Vec<String> = vec!["begin".into(), format!("csv {n}"), format!("add {} -", hex(&d)), "build# - -".into()];
        s.tally("limit.with_chunk_size");
        replay(s, &lines, true, false);
    }
    let src = Src::new('n', rng.below(100_000), M + 64);
    let wsrc = Src::new('w', rng.below(100_000), M + 64);
    let run = |s: &mut Session, rng: &mut Rng, src: &Src, n: usize, mode: &'static str, et: Option<u8>, route: &str, cs: CsOp, lead: bool, what: &str| {
        s.tally(&format!("limit.{what}"));
        s.tally("big.oracle-only");
        let off = rng.below(32) as usize;
        let lines = big_lines(rng, pool, false, src, off, n, mode, et, route, cs, lead);
        let t = std::time::Instant::now();
        run_big(s, lines, false);
        if std::env::var_os("C01_TIMES").is_some() {
            eprintln!("c01: limit.{what}: {:.2} s", t.elapsed().as_secs_f64());
        }
    };
    // mode N, plain: stored chunk = content + 1
    run(s, rng, &src, M, "N", None, "add", CsOp::Checked(M), false, "N.cs=MAX.one-chunk-no-table");
    run(s, rng, &src, M, "N", None, "add", CsOp::Checked(M), true, "N.cs=MAX.piece=MAX.table");
    run(s, rng, &src, M + 1, "N", None, "add", CsOp::Checked(M), false, "N.cs=MAX.piece=MAX+1.splits");
    run(s, rng, &src, M - 1, "N", None, "add", CsOp::Checked(M - 1), true, "N.cs=MAX-1.piece=MAX-1.table");
    run(s, rng, &src, M, "N", None, "mixed", CsOp::Checked(M), true, "N.mixed.piece=MAX");
    run(s, rng, &src, M, "N", None, "chunk", CsOp::Default, true, "N.add_chunk.piece=MAX");
    run(s, rng, &src, M + 1, "N", None, "chunk", CsOp::Default, true, "N.add_chunk.piece=MAX+1");
    run(s, rng, &src, M + 1, "N", None, "compress", CsOp::Unchecked(M), false, "N.compress.cs=MAX.piece=MAX+1");
    run(s, rng, &src, M, "N", None, "single", CsOp::Default, false, "N.single_chunk.piece=MAX");
    // encrypted (inner mode N): stored chunk = content + 17
    let deltas: &[usize] = if thorough { &[17, 16, 15, 14, 13, 12, 11, 10, 9, 8, 7, 6, 5, 4, 3, 2, 1, 0] } else { &[17, 16, 15, 1, 0] };
    for (i, &dl) in deltas.iter().enumerate() {
        let et = if thorough || i % 2 == 0 { 0x53 } else { 0x41 };
        run(s, rng, &src, M - dl, "N", Some(et), "add", CsOp::Checked(M - dl), false, "E/N.cs=MAX-17..MAX.one-full-chunk");
        if thorough {
            run(s, rng, &src, M - dl, "N", Some(0x41), "add", CsOp::Checked(M - dl), false, "E/N.cs=MAX-17..MAX.one-full-chunk");
        }
    }
    run(s, rng, &src, M, "N", Some(0x41), "mixed", CsOp::Checked(M), true, "E/N.mixed.piece=MAX");
    run(s, rng, &src, M, "N", Some(0x53), "encdata", CsOp::Default, false, "E/N.add_encrypted_data.piece=MAX");
    run(s, rng, &src, M + 1, "N", Some(0x41), "encdata", CsOp::Default, true, "E/N.add_encrypted_data.piece=MAX+1");
    // content that does not shrink in the compressing modes: stored chunk = content + 1 + expansion
    run(s, rng, &src, M, "Z", None, "add", CsOp::Checked(M), true, "Z.noise.cs=MAX.piece=MAX");
    run(s, rng, &src, M, "4", None, "add", CsOp::Checked(M), true, "4.noise.cs=MAX.piece=MAX");
    // single pieces above the maximum in the compressing modes (add_chunk / add_encrypted_data
    // take them "regardless of size"): the decoder must hand back more than MAX_CHUNK_SIZE bytes
    // from one chunk
    let zsrc = Src::zeros(M + 64);
    run(s, rng, &zsrc, M + 1, "Z", None, "chunk", CsOp::Default, true, "Z.zeros.add_chunk.piece=MAX+1");
    run(s, rng, &zsrc, M + 1, "4", Some(0x53), "encdata", CsOp::Default, false, "E/4.zeros.add_encrypted_data.piece=MAX+1");
    run(s, rng, &wsrc, M + 1, "Z", Some(0x41), "encdata", CsOp::Default, true, "E/Z.words.add_encrypted_data.piece=MAX+1");
    if thorough {
        run(s, rng, &wsrc, M, "Z", Some(0x53), "add", CsOp::Checked(M), false, "E/Z.words.cs=MAX.piece=MAX");
        run(s, rng, &wsrc, M, "Z", None, "add", CsOp::Checked(M), true, "Z.words.cs=MAX.piece=MAX");
        run(s, rng, &src, M, "4", Some(0x41), "mixed", CsOp::Checked(M), true, "E/4.noise.cs=MAX.piece=MAX");
        run(s, rng, &src, M, "Z", Some(0x53), "encdata", CsOp::Default, true, "E/Z.noise.add_encrypted_data.piece=MAX");
    }
}

/// The chunk-COUNT boundaries: the table's count field is 24 bits wide (three bytes, big-endian),
/// the header size is `12 + 24n` / `12 + 40n`, the Salsa20 block index of chunk i is i (its bytes
/// are XORed into the IV). Containers of 255 / 256 / 257 chunks (the count's second byte; K + O:
/// the Lean model evaluates every line) and of 65535 / 65536 / 65537 / 65536 + k / 2^17 chunks (the
/// count's top byte; oracle-only `big` lines, a few of them K + O as well) through every way of
/// reaching a count: one add_data / add_mixed_data over a payload with a tiny
/// with_chunk_size_unchecked (1 or 2), the same under with_encryption, two calls that reach the
/// count together, n add_chunk calls (`chunks`), BlteFile::compress, and the table writers
/// BlteFile::multi_chunk / BlteHeader::multi_chunk_extended on n ChunkData::new chunks (`multi#`).
/// Payloads in generator notation, answers as digests + the complete table.
fn count_family(s: &mut Session, rng: &mut Rng, thorough: bool, pool: &[(u64, [u8; 16])]) {
    const B: usize = 65536;
    let src = Src::new('n', rng.below(100_000), 2 * (2 * B + 8) + 4096);
    let k_extra = rng.range(2, 9000) as usize;
    let mut counts: Vec<(usize, bool)> = vec![(255, true), (256, true), (257, true), (B - 1, false), (B, false), (B + 1, false), (B + k_extra, false)];
    if thorough {
        counts.extend([(2 * B - 1, false), (2 * B, false), (2 * B + 1, false), (B + 256, false), (3 * B + rng.range(1, 999) as usize, false)]);
    } else {
        counts.push((2 * B + rng.below(2) as usize, false));
    }
    let routes = ["add.cs1", "add.cs2", "mixed.cs1", "add.cs1.salsa20", "add.cs1.arc4", "two-calls", "add_chunk", "compress", "multi_chunk", "multi_chunk_extended"];
    // which of the large cases the Lean model evaluates too (about 6 s each): in the quick tier
    // 65536 through add_data and one more (count x route) in turn; thorough: every count once
    let kpick = (rng.below(3) as usize, *rng.pick(&["compress", "multi_chunk", "add.cs2", "mixed.cs1"]));
    let mut kcount = 0usize;
    for (ci, &(n, small)) in counts.iter().enumerate() {
        for (ri, &route) in routes.iter().enumerate() {
            let kmode = small
                || (n == B && route == "add.cs1")
                || (ci == 4 + kpick.0 && route == kpick.1)
                || (thorough && n < 2 * B - 1 && (ci + ri) % routes.len() == 0);
            // the quick tier runs every route at 65536, 65537 and 65536 + k, and every other one elsewhere
            if !thorough && !small && !kmode && !matches!(ci, 4..=6) && (ci + ri) % 2 == 1 {
                continue;
            }
            let off = rng.below(4096) as usize;
            let d = |len: usize| src.note(off, len);
            let mut keys = String::from("-");
            let mut enc_line = |rng: &mut Rng, et: u8| {
                let (name, key) = *rng.pick(pool);
                keys = format!("{name}:{}", hex(&key));
                format!("enc {}", Enc { et, name, iv: rng.bytes(4).try_into().unwrap(), key }.toks())
            };
            let lines: Vec<String> = match route {
                "add.cs1" => vec!["begin".into(), "cs 1".into(), format!("add {} -", d(n)), "build# - -".into()],
                // the last chunk is short
                "add.cs2" => vec!["begin".into(), "cs 2".into(), format!("add {} -", d(2 * n - 1)), "build# - -".into()],
                "mixed.cs1" => vec!["begin".into(), "cs 1".into(), format!("mixed {} none -", d(n)), "build# - -".into()],
                "add.cs1.salsa20" | "add.cs1.arc4" => {
                    let e = enc_line(rng, if route == "add.cs1.salsa20" { 0x53 } else { 0x41 });
                    vec!["begin".into(), "cs 1".into(), e, format!("add {} -", d(n)), format!("build# {keys} -")]
                }
                // the count is reached by the second call (add_chunk after add_data / add_data after add_chunk)
                "two-calls" if n % 2 == 0 => vec!["begin".into(), "cs 1".into(), format!("add {} -", d(n - 1)), format!("chunk N {} -", hex(&rng.bytes(3))), "build# - -".into()],
                "two-calls" => vec!["begin".into(), "cs 1".into(), format!("chunk N {} -", hex(&rng.bytes(3))), format!("add {} -", d(n - 1)), "build# - -".into()],
                "add_chunk" => vec!["begin".into(), format!("chunks N {} 1 -", d(n)), "build# - -".into()],
                "compress" => vec![format!("compress# 1 N {} -", d(n))],
                "multi_chunk" => vec![format!("multi# std N {} 1 -", d(n))],
                _ => vec![format!("multi# ext N {} 2 -", d(2 * n - 1))],
            };
            // n add_chunk calls are quadratic in the list-based model (chunks ++ [c]), the extended
            // table doubles its MD5 work, a cipher set-up per chunk is slow on lists: oracle-only
            // above 257
            let kmode = kmode && (small || !matches!(route, "add_chunk" | "multi_chunk_extended" | "add.cs1.salsa20" | "add.cs1.arc4"));
            kcount += (kmode && !small) as usize;
            s.tally(&format!("count.chunks.{n}"));
            s.tally(&format!("count.route.{route}"));
            s.tally(if kmode { "count.K+O" } else { "count.oracle-only" });
            run_big(s, lines, kmode);
            if HUNG.load(std::sync::atomic::Ordering::SeqCst) {
                return;
            }
        }
    }
    s.extra.insert("count_family_large_cases_evaluated_by_the_model_too".into(), serde_json::json!(kcount));
}

// ---------------------------------------------------------------- encoder entry points outside the builder

/// set when a call of the real code did not return within its watchdog time
static HUNG: std::sync::atomic::AtomicBool = std::sync::atomic::AtomicBool::new(false);

/// run `f` on its own thread; `None` if it has not returned after `ms` milliseconds (the thread
/// cannot be stopped: the caller records the failure, finishes the session and exits)
fn watchdog(ms: u64, f: impl FnOnce() -> String + Send + 'static) -> Option<String> {
    let (tx, rx) = std::sync::mpsc::channel();
    std::thread::spawn(move || {
        let r = catch(AssertUnwindSafe(f)).unwrap_or_else(|_| "panic".into());
        let _ = tx.send(r);
    });
    rx.recv_timeout(std::time::Duration::from_millis(ms)).ok()
}

fn ser(f: Result<BlteFile, BlteError>) -> String {
    match f {
        Ok(f) => match CascFormat::build(&f) {
            Ok(b) => format!("ok {}", hex(&b)),
            Err(_) => "err:serialize".into(),
        },
        Err(e) => err_class(&e).into(),
    }
}

/// one element of the vector handed to `multi_chunk`; see `Item` in Driver/C01.lean
#[derive(Clone)]
enum Item {
    New(Vec<u8>, &'static str),
    Raw(&'static str, Vec<u8>, Option<usize>),
}

fn static_mode(m: &str) -> Option<&'static str> {
    ["N", "Z", "4", "E", "F"].into_iter().find(|x| *x == m)
}

fn parse_items(s: &str) -> Option<Vec<Item>> {
    let mut v = vec![];
    if s == "-" {
        return Some(v);
    }
    for ent in s.split(',') {
        let parts: Vec<&str> = ent.split(':').collect();
        match parts.as_slice() {
            [m, d] => v.push(Item::New(unhex(d)?, static_mode(m)?)),
            [m, d, decl] => {
                let m = static_mode(m.strip_prefix('r')?)?;
                let decl = if *decl == "-" { None } else { Some(decl.parse().ok()?) };
                v.push(Item::Raw(m, unhex(d)?, decl));
            }
            _ => return None,
        }
    }
    Some(v)
}

fn items_str(items: &[Item]) -> String {
    let v: Vec<String> = items
        .iter()
        .map(|it| match it {
            Item::New(d, m) => format!("{m}:{}", hex(d)),
            Item::Raw(m, d, decl) => format!("r{m}:{}:{}", hex(d), decl.map(|n| n.to_string()).unwrap_or_else(|| "-".into())),
        })
        .collect();
    if v.is_empty() { "-".into() } else { v.join(",") }
}

/// the real entry points; `None` = not one of these request lines
fn entry_real(toks: &[&str]) -> Option<String> {
    Some(match toks {
        ["compress", cs, m, d, _tab] => {
            let cs: usize = cs.parse().ok()?;
            let m = mode_of(m)?;
            let d = unhex(d)?;
            // a chunk size of 0 is the shape that once never returned (and allocated without bound)
            let ms = if cs == 0 { 400 } else { 20_000 };
            match watchdog(ms, move || ser(BlteFile::compress(&d, cs, m))) {
                Some(r) => r,
                None => {
                    HUNG.store(true, std::sync::atomic::Ordering::SeqCst);
                    "hang".into()
                }
            }
        }
        ["single", m, d, _tab] => {
            let m = mode_of(m)?;
            let d = unhex(d)?;
            catch(AssertUnwindSafe(move || ser(BlteFile::single_chunk(d, m)))).unwrap_or_else(|_| "panic".into())
        }
        ["multi", fmt, items, _tab] => {
            let items = parse_items(items)?;
            let ext = match *fmt {
                "std" => false,
                "ext" => true,
                _ => return None,
            };
            catch(AssertUnwindSafe(move || {
                let mut chunks = vec![];
                for it in items {
                    match it {
                        Item::New(d, m) => match ChunkData::new(d, mode_of(m).unwrap()) {
                            Ok(c) => chunks.push(c),
                            Err(e) => return err_class(&e).to_string(),
                        },
                        Item::Raw(m, d, decl) => chunks.push(ChunkData::from_compressed(mode_of(m).unwrap(), d, decl)),
                    }
                }
                if ext {
                    ser(BlteHeader::multi_chunk_extended(&chunks).map(|header| BlteFile { header, chunks }))
                } else {
                    ser(BlteFile::multi_chunk(chunks))
                }
            }))
            .unwrap_or_else(|_| "panic".into())
        }
        _ => return None,
    })
}

/// One entry-point case: run the request line on the real code, then (if `views`) the decode /
/// table views of the container it produced, and evaluate O on the implementation's outputs.
/// `pieces` = the harness's own account of the content of every chunk (None: the call must fail).
fn entry_case(s: &mut Session, line: &str, views: bool, verbose: bool) {
    let toks: Vec<&str> = line.split(' ').collect();
    let Some(r) = entry_real(&toks) else {
        s.line(line, "bad-op");
        return;
    };
    s.line(line, &r);
    s.tally(&format!("op.{}", toks[0]));
    if verbose {
        println!("impl  {} -> {}", trunc(line), trunc(&r));
    }
    let replay = vec![line.to_string()];
    if r == "hang" {
        s.oracle_fail("encoder-does-not-return", &format!("{} did not return within the watchdog time", trunc(line)), &replay);
        s.case(None);
        return;
    }
    // the harness's own account of the call
    let mut p = Prog::new();
    p.lines = replay.clone();
    let mut raw = false;
    let mut raw_points: Vec<String> = vec![];
    let mut ext = false;
    match toks.as_slice() {
        ["compress", cs, m, d, _] => {
            let d = unhex(d).unwrap_or_default();
            let cs: usize = cs.parse().unwrap_or(0);
            let ch = split(cs, &d);
            p.table_for(m, ch.as_deref().unwrap_or(&[]));
            p.shape.push("compress");
            p.account(&d, ch, None, *m != "E" && *m != "F");
        }
        ["single", m, d, _] => {
            let d = unhex(d).unwrap_or_default();
            p.table_for(m, std::slice::from_ref(&d));
            p.shape.push("single");
            p.account(&d, Some(vec![d.clone()]), None, *m != "E" && *m != "F");
        }
        ["multi", fmt, items, _] => {
            ext = *fmt == "ext";
            p.shape.push(if ext { "multi-ext" } else { "multi" });
            let items = parse_items(items).unwrap_or_default();
            if items.is_empty() {
                p.expect_err = true;
            }
            for it in &items {
                match it {
                    Item::New(d, m) => {
                        p.table_for(m, std::slice::from_ref(d));
                        p.account(d, Some(vec![d.clone()]), None, *m != "E" && *m != "F");
                    }
                    Item::Raw(m, d, _) => {
                        raw = true;
                        // the real decompressor's answer on a hand-made stream (a point of the
                        // model's decompress parameter)
                        let cm = match *m {
                            "Z" => CompressionMode::ZLib,
                            "4" => CompressionMode::LZ4,
                            _ => continue,
                        };
                        let r = decompress_chunk(d, cm);
                        raw_points.push(format!("d{m}:{}:{}", hex(d), r.map(|v| hex(&v)).unwrap_or_else(|_| "!".into())));
                    }
                }
            }
        }
        _ => {}
    }
    let built = r.strip_prefix("ok ").map(|h| (h.to_string(), unhex(h).unwrap()));
    let mut dec = String::new();
    if let Some((h, bytes)) = &built {
        let mut tab = tab_str(p.tab.iter());
        if !raw_points.is_empty() {
            raw_points.sort();
            raw_points.dedup();
            tab = if tab == "-" { raw_points.join(",") } else { format!("{},{}", raw_points.join(","), tab) };
        }
        let mut real = Real { b: None, last: None };
        let l = format!("dec {} - {}", h, tab);
        dec = real.run(&l.split(' ').collect::<Vec<_>>()).unwrap();
        let l2 = format!("decplain {} {}", h, tab);
        let decplain = real.run(&l2.split(' ').collect::<Vec<_>>()).unwrap();
        if views && bytes.len() <= 3000 && p.added.len() <= 300_000 {
            s.line(&l, &dec);
            s.line(&l2, &decplain);
            let l3 = format!("rows {}", h);
            let r3 = real.run(&l3.split(' ').collect::<Vec<_>>()).unwrap();
            s.line(&l3, &r3);
        }
        // BlteFile::decompress (no key store) is the decoder these entry points are used with
        if !raw && decplain != dec {
            s.oracle_fail("decompress-differs-from-decompress-with-keys", &format!("decompress() = {}, decompress_with_keys() = {}", trunc(&decplain), trunc(&dec)), &replay);
        }
    }
    if raw {
        // hand-made chunks (from_compressed): outside the property's quantifier, K only
        s.tally("entry.raw-chunks(K only)");
        s.case(None);
        return;
    }
    let call = if r.starts_with("ok ") { "ok".to_string() } else { r.clone() };
    oracle(s, &p, &[call], built.as_ref().map(|b| &b.1[..]), &dec);
    if let Some((_, bytes)) = &built {
        // layout clauses of the entry points (the builder never writes these two)
        if let Ok(parsed) = <BlteFile as CascFormat>::parse(bytes) {
            match (&parsed.header.extended, toks[0]) {
                (None, "multi") => s.oracle_fail("multi-chunk-without-table", "multi_chunk wrote no chunk table", &replay),
                (Some(_), "single") => s.oracle_fail("single-chunk-with-table", "single_chunk wrote a chunk table", &replay),
                (Some(x), _) => {
                    if (x.flags == HeaderFlags::Extended) != ext {
                        s.oracle_fail("table-format-byte", &format!("table format {:?}, asked for extended = {ext}", x.flags), &replay);
                    }
                    // the extended table also records a checksum of the decoded content
                    for (i, (row, pl)) in x.chunk_infos.iter().zip(&p.plain_chunks).enumerate() {
                        if let Some(sum) = row.decompressed_checksum
                            && sum != md5::compute(&pl.0).0
                        {
                            s.oracle_fail("table-decompressed-checksum", &format!("row {i}: decompressed checksum {} but MD5(content) = {}", hex(&sum), hex(&md5::compute(&pl.0).0)), &replay);
                        }
                        if ext && row.decompressed_checksum.is_none() {
                            s.oracle_fail("table-decompressed-checksum", &format!("row {i}: no decompressed checksum in an extended table"), &replay);
                        }
                    }
                }
                _ => {}
            }
        }
        s.tally(&format!("entry.{}.ok", p.shape[0]));
    } else {
        s.tally(&format!("entry.{}.err", p.shape[0]));
    }
    s.case(if built.is_some() { Some(line) } else { None });
    param_law(s, &p, &replay);
}

/// `compress# <cs> <m> <d> <tab>` / `single# <m> <d> <tab>`: the entry points outside the builder
/// on payloads in generator notation, answered with digests (see `digest_views`). `emit` = the
/// request is a line of its own (K); otherwise it is part of an oracle-only `big` line.
fn entry_case_digest(s: &mut Session, line: &str, emit: bool, verbose: bool) {
    let toks: Vec<&str> = line.split(' ').collect();
    let parsed: Option<(usize, CompressionMode, &str, Vec<u8>)> = match toks.as_slice() {
        ["compress#", cs, m, d, _tab] => (|| Some((cs.parse().ok()?, mode_of(m)?, static_mode(m)?, unhex(d)?)))(),
        ["single#", m, d, _tab] => (|| Some((usize::MAX, mode_of(m)?, static_mode(m)?, unhex(d)?)))(),
        // the table writers over ChunkData::new chunks of every k-byte piece of d (`cs` = k)
        ["multi#", "std" | "ext", m, d, k, _tab] => (|| Some((k.parse().ok().filter(|k| *k > 0)?, mode_of(m)?, static_mode(m)?, unhex(d)?)))(),
        _ => None,
    };
    // Some(extended table?) for `multi#`
    let multi: Option<bool> = if toks[0] == "multi#" { Some(toks[1] == "ext") } else { None };
    let Some((cs, cm, m, d)) = parsed else {
        if emit {
            s.line(line, "bad-op");
        }
        return;
    };
    let single = toks[0] == "single#";
    let d2 = d.clone();
    let (tx, rx) = std::sync::mpsc::channel();
    std::thread::spawn(move || {
        let r = catch(AssertUnwindSafe(move || {
            let f = if let Some(ext) = multi {
                d2.chunks(cs).map(|pc| ChunkData::new(pc.to_vec(), cm)).collect::<Result<Vec<_>, _>>().and_then(|chunks| {
                    if ext { BlteHeader::multi_chunk_extended(&chunks).map(|header| BlteFile { header, chunks }) } else { BlteFile::multi_chunk(chunks) }
                })
            } else if single {
                BlteFile::single_chunk(d2, cm)
            } else {
                BlteFile::compress(&d2, cs, cm)
            };
            f.map(|f| CascFormat::build(&f).map_err(|_| ()))
        }));
        let _ = tx.send(r);
    });
    let mut built: Option<(Vec<u8>, String)> = None;
    let r = match rx.recv_timeout(std::time::Duration::from_millis(if cs == 0 { 400 } else { 120_000 })) {
        Ok(Ok(Ok(Ok(bytes)))) => {
            let (resp, dec) = digest_views(&bytes, &TactKeyStore::empty());
            built = Some((bytes, dec));
            resp
        }
        Ok(Ok(Ok(Err(())))) => "err:serialize".into(),
        Ok(Ok(Err(e))) => err_class(&e).to_string(),
        Ok(Err(_)) => "panic".into(),
        Err(_) => {
            HUNG.store(true, std::sync::atomic::Ordering::SeqCst);
            "hang".into()
        }
    };
    if emit {
        s.line(line, &r);
    }
    s.tally(&format!("op.{}", toks[0]));
    if verbose {
        println!("impl  {} -> {}", trunc(line), trunc(&r));
    }
    let replay = vec![if emit { line.to_string() } else { format!("big {line}") }];
    if r == "hang" {
        s.oracle_fail("encoder-does-not-return", &format!("{} did not return within the watchdog time", trunc(line)), &replay);
        s.case(None);
        return;
    }
    take_plain_differs(s, &replay);
    let mut p = Prog::new();
    p.lines = replay.clone();
    p.digest = true;
    let ch = if multi.is_some() {
        Some(d.chunks(cs).map(|c| c.to_vec()).collect())
    } else if single {
        Some(vec![d.clone()])
    } else {
        split(cs, &d)
    };
    p.note_tab(m, ch.as_deref().unwrap_or(&[]));
    p.shape.push(match multi {
        Some(true) => "multi-ext",
        Some(false) => "multi",
        None if single => "single",
        None => "compress",
    });
    if multi.is_some() && d.is_empty() {
        // multi_chunk* of an empty vector is an error
        p.expect_err = true;
    }
    p.account(&d, ch, None, m != "E" && m != "F");
    let call = if r.starts_with("ok ") { "ok".to_string() } else { r.clone() };
    let dec = built.as_ref().map(|b| b.1.clone()).unwrap_or_default();
    oracle(s, &p, &[call], built.as_ref().map(|b| &b.0[..]), &dec);
    if let Some((bytes, _)) = &built {
        let table = bytes.get(4..8) != Some(&[0, 0, 0, 0]);
        if single && table {
            s.oracle_fail("single-chunk-with-table", "single_chunk wrote a chunk table", &replay);
        }
        if !single && multi.is_none() && table != (p.plain_chunks.len() > 1) {
            s.oracle_fail("compress-table-layout", &format!("compress wrote table = {table} for {} chunks", p.plain_chunks.len()), &replay);
        }
        if let Some(ext) = multi {
            // layout clauses of the table writers (as in `entry_case`)
            if !table {
                s.oracle_fail("multi-chunk-without-table", "multi_chunk wrote no chunk table", &replay);
            }
            if let Ok(parsed) = <BlteFile as CascFormat>::parse(bytes)
                && let Some(x) = &parsed.header.extended
            {
                if (x.flags == HeaderFlags::Extended) != ext {
                    s.oracle_fail("table-format-byte", &format!("table format {:?}, asked for extended = {ext}", x.flags), &replay);
                }
                for (i, (row, pl)) in x.chunk_infos.iter().zip(&p.plain_chunks).enumerate() {
                    if let Some(sum) = row.decompressed_checksum
                        && sum != md5::compute(&pl.0).0
                    {
                        s.oracle_fail("table-decompressed-checksum", &format!("row {i}: decompressed checksum {} but MD5(content) = {}", hex(&sum), hex(&md5::compute(&pl.0).0)), &replay);
                        break;
                    }
                    if ext && row.decompressed_checksum.is_none() {
                        s.oracle_fail("table-decompressed-checksum", &format!("row {i}: no decompressed checksum in an extended table"), &replay);
                        break;
                    }
                }
            }
        }
        s.tally(&format!("entry.{}.ok", p.shape[0]));
    } else {
        s.tally(&format!("entry.{}.err", p.shape[0]));
    }
    s.case(if built.is_some() { Some(line) } else { None });
    param_law(s, &p, &replay);
}

/// after a call that never returned the runaway thread keeps allocating: write what we have and leave
fn exit_if_hung(s: Session) -> Session {
    if HUNG.load(std::sync::atomic::Ordering::SeqCst) {
        s.finish();
        std::process::exit(0);
    }
    s
}

/// a decode request on a hand-made container that must be refused by both sides
fn must_reject(s: &mut Session, bytes: &[u8], keys: &str, sig: &str, what: &str) {
    let mut real = Real { b: None, last: None };
    let h = hex(bytes);
    let mut lines = vec![];
    for l in [format!("dec {h} {keys} -"), format!("decplain {h} -")] {
        let r = real.run(&l.split(' ').collect::<Vec<_>>()).unwrap();
        s.line(&l, &r);
        if r.starts_with("ok") {
            s.oracle_fail(sig, &format!("{what}: decode returned {}", trunc(&r)), std::slice::from_ref(&l));
        }
        s.tally(&format!("reject.{}", if r.starts_with("ok") { "ok" } else { r.as_str() }));
        lines.push(l);
    }
    let l = format!("rows {h}");
    let r = real.run(&l.split(' ').collect::<Vec<_>>()).unwrap();
    s.line(&l, &r);
    s.case(Some(&lines[0]));
}

fn entry_points(s: &mut Session, rng: &mut Rng, thorough: bool, pool: &[(u64, [u8; 16])]) {
    let hung = || HUNG.load(std::sync::atomic::Ordering::SeqCst);
    let content = |rng: &mut Rng, n: usize| -> Vec<u8> {
        let mut d = match rng.below(4) {
            0 => vec![rng.byte(); n],
            1 => (0..n).map(|i| (i % 5) as u8).collect(),
            _ => rng.bytes(n),
        };
        if n > 0 && rng.chance(1, 3) {
            d[0] = *rng.pick(&[b'N', b'Z', b'4', b'E', b'F']);
        }
        d
    };
    // compress: exhaustive over chunk sizes x boundary lengths x all five modes
    for cs in [0usize, 1, 2, 4, 5, 64] {
        for m in ["N", "Z", "4", "E", "F"] {
            let mut lens = vec![0usize, 1, cs.saturating_sub(1), cs, cs + 1, 2 * cs, 2 * cs + 1, 3 * cs + 2];
            lens.sort();
            lens.dedup();
            for n in lens {
                let d = content(rng, n);
                let mut p = Prog::new();
                let tab = p.table_for(m, split(cs, &d).as_deref().unwrap_or(&[]));
                s.tally("sweep.compress");
                entry_case(s, &format!("compress {cs} {m} {} {tab}", hex(&d)), true, false);
                if hung() {
                    return;
                }
            }
        }
    }
    // compress: seeded random
    for k in 0..if thorough { 6000 } else { 400 } {
        let cs = *rng.pick(&[0usize, 1, 2, 3, 5, 16, 64, 64, 1024, 4096]);
        let m = *rng.pick(&["N", "N", "Z", "Z", "4", "4", "4", "E", "F"]);
        let mut p = Prog::new();
        p.cs = cs;
        let d = p.payload(rng, if k % 50 == 0 { 3000 } else { 200 });
        let tab = p.table_for(m, split(cs, &d).as_deref().unwrap_or(&[]));
        s.tally("random.compress");
        entry_case(s, &format!("compress {cs} {m} {} {tab}", hex(&d)), k % 4 == 0, false);
        if hung() {
            return;
        }
    }
    // single_chunk: every mode x lengths
    for m in ["N", "Z", "4", "E", "F"] {
        for n in [0usize, 1, 2, 17, 300] {
            let d = content(rng, n);
            let mut p = Prog::new();
            let tab = p.table_for(m, std::slice::from_ref(&d));
            s.tally("sweep.single");
            entry_case(s, &format!("single {m} {} {tab}", hex(&d)), true, false);
        }
    }
    // multi_chunk / multi_chunk_extended over vectors of ChunkData::new chunks (0..6 chunks, one
    // chunk included: a table with a single plain chunk is a layout the builder never writes)
    for k in 0..if thorough { 4000 } else { 300 } {
        let n = if k < 12 { k / 4 } else { rng.range(1, 6) as usize };
        let mut p = Prog::new();
        let mut items = vec![];
        for _ in 0..n {
            let m = match rng.below(30) {
                0 => "E",
                1 => "F",
                2..=10 => "N",
                11..=20 => "Z",
                _ => "4",
            };
            let len = *rng.pick(&[0usize, 1, 2, 7, 64, 65, 200]);
            let d = content(rng, len);
            p.table_for(m, std::slice::from_ref(&d));
            items.push(Item::New(d, m));
        }
        let fmt = if k % 2 == 0 { "std" } else { "ext" };
        s.tally(&format!("random.multi-{fmt}"));
        entry_case(s, &format!("multi {fmt} {} {}", items_str(&items), tab_str(p.tab.iter())), true, false);
    }
    // hand-made chunks through the real multi_chunk*: K only (table rows for declared sizes that
    // are absent or wrong, Frame / Encrypted chunks in an extended table)
    for k in 0..if thorough { 400 } else { 60 } {
        let mut p = Prog::new();
        let mut items = vec![];
        let mut points: Vec<String> = vec![];
        for _ in 0..rng.range(1, 4) {
            let len = *rng.pick(&[0usize, 1, 5, 40]);
            let d = content(rng, len);
            match rng.below(5) {
                0 => {
                    p.table_for("Z", std::slice::from_ref(&d));
                    items.push(Item::New(d, "Z"));
                }
                1 => items.push(Item::Raw("N", d, if rng.chance(1, 2) { None } else { Some(rng.below(100) as usize) })),
                2 => items.push(Item::Raw(*rng.pick(&["F", "E"]), d, None)),
                3 => {
                    // garbage handed over as a zlib / LZ4 stream: the extended row falls back to
                    // the checksum of the chunk as serialised, decoding fails
                    let m = *rng.pick(&["Z", "4"]);
                    let cm = if m == "Z" { CompressionMode::ZLib } else { CompressionMode::LZ4 };
                    points.push(format!("d{m}:{}:{}", hex(&d), decompress_chunk(&d, cm).map(|v| hex(&v)).unwrap_or_else(|_| "!".into())));
                    items.push(Item::Raw(m, d, None));
                }
                _ => {
                    // a real zlib stream handed over with from_compressed (declared size absent or true)
                    let c = compress_chunk(&d, CompressionMode::ZLib).unwrap();
                    p.tab.insert(('Z', d.clone()), c.clone());
                    items.push(Item::Raw("Z", c, if rng.chance(1, 2) { None } else { Some(d.len()) }));
                }
            }
        }
        let fmt = if k % 2 == 0 { "std" } else { "ext" };
        let mut tab = tab_str(p.tab.iter());
        if !points.is_empty() {
            points.sort();
            points.dedup();
            tab = if tab == "-" { points.join(",") } else { format!("{},{}", points.join(","), tab) };
        }
        entry_case(s, &format!("multi {fmt} {} {tab}", items_str(&items)), true, false);
    }

    // a nested container is content: the decoder returns it verbatim, it does not unwrap it
    let inner = BlteFile::compress(b"nested BLTE content", 8, CompressionMode::None).and_then(|f| CascFormat::build(&f).map_err(|_| BlteError::EmptyChunk)).unwrap();
    for m in ["N", "Z", "4"] {
        for cs in [7usize, 4096] {
            let mut p = Prog::new();
            let tab = p.table_for(m, split(cs, &inner).as_deref().unwrap_or(&[]));
            s.tally("nested.container-as-content");
            entry_case(s, &format!("compress {cs} {m} {} {tab}", hex(&inner)), true, false);
        }
    }
    for et in [0x53u8, 0x41] {
        let mut p = Prog::new();
        let e = Enc { et, name: pool[0].0, iv: [4, 3, 2, 1], key: pool[0].1 };
        p.keys.insert(e.name, e.key);
        p.cs = 16;
        p.lines.push("cs 16".into());
        p.lines.push(format!("enc {}", e.toks()));
        p.enc = Some(e.clone());
        p.lines.push(format!("add {} -", hex(&inner)));
        p.shape.push("add+enc");
        p.account(&inner, split(16, &inner), Some(&e), true);
        s.tally("nested.container-as-content");
        run_prog(s, &p);
    }

    // Frame mode and nested encryption on the decoding side: refused by code and model.
    // (a) single-chunk container whose chunk is 'F' + a complete BLTE container (recursive BLTE)
    for payload in [&inner[..], &b""[..], &b"F"[..], &[0u8; 40][..]] {
        let mut bytes = b"BLTE\0\0\0\0F".to_vec();
        bytes.extend_from_slice(payload);
        must_reject(s, &bytes, "-", "frame-chunk-decoded", "single-chunk container with a Frame chunk");
    }
    // (b) a Frame chunk anywhere in a table (built by the real multi_chunk from hand-made chunks)
    for pos in 0..3usize {
        for ext in [false, true] {
            let mut chunks = vec![];
            for i in 0..3 {
                if i == pos {
                    #[allow(deprecated)]
                    chunks.push(ChunkData::from_compressed(CompressionMode::Frame, inner.clone(), Some(19)));
                } else {
                    chunks.push(ChunkData::new(rng.bytes(5), CompressionMode::None).unwrap());
                }
            }
            let f = if ext {
                BlteHeader::multi_chunk_extended(&chunks).map(|header| BlteFile { header, chunks })
            } else {
                BlteFile::multi_chunk(chunks)
            };
            let bytes = CascFormat::build(&f.unwrap()).unwrap();
            must_reject(s, &bytes, "-", "frame-chunk-decoded", "table container with a Frame chunk");
        }
    }
    // (c) an encrypted chunk whose decrypted payload starts with 'F' (nested frame) or 'E'
    // (nested encryption), encrypted with the real encrypt_chunk_with_key at its own position
    for (first, sig) in [(b'F', "encrypted-frame-payload-decoded"), (b'E', "nested-encryption-decoded")] {
        for et in [0x53u8, 0x41] {
            for pos in 0..2usize {
                let mut innerp = vec![first];
                let n = *rng.pick(&[0usize, 1, 30]);
                innerp.extend_from_slice(&content(rng, n));
                let spec = EncryptionSpec { key_name: pool[3].0, iv: [1, 1, 2, 3], encryption_type: et };
                let ed = encrypt_chunk_with_key(&innerp, spec, &pool[3].1, pos).unwrap();
                let mut chunks = vec![];
                if pos == 1 {
                    chunks.push(ChunkData::new(vec![1, 2, 3], CompressionMode::None).unwrap());
                }
                chunks.push(ChunkData::from_compressed(CompressionMode::Encrypted, ed, Some(innerp.len() - 1)));
                let bytes = CascFormat::build(&BlteFile::multi_chunk(chunks).unwrap()).unwrap();
                let keys = format!("{}:{}", pool[3].0, hex(&pool[3].1));
                must_reject(s, &bytes, &keys, sig, "encrypted chunk with a nested mode byte");
            }
        }
    }
}

// ---------------------------------------------------------------- oracle

/// O: evaluated on the implementation's outputs only.
fn oracle(s: &mut Session, p: &Prog, step_resps: &[String], built: Option<&[u8]>, dec: &str) {
    let any_err = step_resps.iter().any(|r| r != "ok");
    let replay = &replay_of(p);
    // an encoder call that cannot honour the identity must return an error; the harness's own
    // account of which calls are honourable must agree with the implementation
    if any_err != p.expect_err && step_resps.iter().all(|r| r != "panic") {
        s.oracle_fail(
            if any_err { "encoder-refuses-honourable-call" } else { "encoder-accepts-unhonourable-call" },
            &format!("builder responses {step_resps:?}, expected error: {}", p.expect_err),
            replay,
        );
    }
    if step_resps.iter().any(|r| r == "panic") {
        s.oracle_fail("encoder-panic", &format!("builder call panicked: {step_resps:?}"), replay);
    }
    let Some(bytes) = built else { return };
    // 1. identity
    let added = if p.digest { dig(&p.added) } else { hex(&p.added) };
    let want = format!("ok {added}");
    if dec != want {
        let kind = if dec.starts_with("ok") { "decodes-to-other-bytes" } else { "decode-fails" };
        let shape = if p.foreign_index { "-salsa-foreign-block-index" } else { "" };
        let mut msg = format!("decode(parse(serialize(build p))) = {}, added bytes = {}; calls {:?}", trunc(dec), trunc(&added), p.shape);
        if p.foreign_index {
            msg.push_str(" (add_encrypted_data was given a Salsa20 block index other than the chunk's position)");
        }
        s.oracle_fail(&format!("roundtrip-{kind}{shape}"), &msg, replay);
    }
    // 2. the chunk table is truthful
    let Ok(parsed) = <BlteFile as CascFormat>::parse(bytes) else {
        s.oracle_fail("built-container-does-not-parse", "parse(serialize(build p)) failed", replay);
        return;
    };
    let mut ks = TactKeyStore::empty();
    for (n, k) in &p.keys {
        ks.add(TactKey::new(*n, *k));
    }
    if let Some(x) = &parsed.header.extended {
        if x.chunk_infos.len() != parsed.chunks.len() || x.chunk_count as usize != parsed.chunks.len() {
            s.oracle_fail("table-count", &format!("{} rows, count field {}, {} chunks", x.chunk_infos.len(), x.chunk_count, parsed.chunks.len()), replay);
        }
        let info_size = if x.flags == HeaderFlags::Extended { 40 } else { 24 };
        if parsed.header.header_size as usize != 12 + info_size * x.chunk_infos.len() {
            s.oracle_fail("table-header-size", &format!("header_size {} for {} rows", parsed.header.header_size, x.chunk_infos.len()), replay);
        }
        // chunk bodies as they sit in the file, located by the header_size field (not by the parser)
        let mut off = parsed.header.header_size as usize;
        for (i, (row, ch)) in x.chunk_infos.iter().zip(&parsed.chunks).enumerate() {
            let encrypted = ch.mode == CompressionMode::Encrypted;
            let tag = if encrypted { "-encrypted-chunk" } else { "" };
            let body = bytes.get(off..off + row.compressed_size as usize);
            off += row.compressed_size as usize;
            let mut on_disk = vec![ch.mode.as_byte()];
            on_disk.extend_from_slice(&ch.data);
            if body != Some(&on_disk[..]) {
                s.oracle_fail(&format!("table-compressed-size{tag}"), &format!("row {i}: compressed_size {} does not delimit the chunk ({} bytes)", row.compressed_size, on_disk.len()), replay);
            }
            let sum = md5::compute(&on_disk).0;
            if row.checksum != sum {
                s.oracle_fail(&format!("table-checksum{tag}"), &format!("row {i}: checksum {} but MD5(chunk) = {}", hex(&row.checksum), hex(&sum)), replay);
            }
            // decoded size of this chunk, decoded on its own at its own index
            // the content the chunk describes: the harness's own account of the chunking where it
            // has one, else the chunk decoded on its own at its own index
            let actual = match p.plain_chunks.get(i) {
                Some((pl, _)) if !p.expect_err => Some(pl.len()),
                _ => {
                    let plain = if encrypted { decrypt_chunk_with_keys(&ch.data, &ks, i).ok() } else { decompress_chunk(&ch.data, ch.mode).ok() };
                    plain.map(|pl| pl.len())
                }
            };
            if let Some(n) = actual
                && row.decompressed_size as usize != n
            {
                s.oracle_fail(&format!("table-decompressed-size{tag}"), &format!("row {i}: decompressed_size {} but the chunk holds {} content bytes", row.decompressed_size, n), replay);
            }
        }
        if off != bytes.len() {
            s.oracle_fail("table-compressed-size-total", &format!("rows cover {off} of {} bytes", bytes.len()), replay);
        }
    } else if parsed.chunks.len() != 1 {
        s.oracle_fail("single-chunk-count", &format!("{} chunks under a single-chunk header", parsed.chunks.len()), replay);
    }
    // 3. independent account of the chunking
    if !p.expect_err && parsed.chunks.len() != p.plain_chunks.len() {
        s.oracle_fail("chunk-count", &format!("{} chunks, expected {}", parsed.chunks.len(), p.plain_chunks.len()), replay);
    }
}

/// the request lines that reproduce the case under `--replay`: a builder program is evaluated at
/// its `build` line
fn replay_of(p: &Prog) -> Vec<String> {
    let mut v = p.lines.clone();
    if !p.digest && v.first().is_some_and(|l| l == "begin") {
        v.push("build".into());
    }
    v
}

/// The parameter law the theorems assume, on the real library: whatever `compress_chunk` returned
/// for a chunk of this case, `decompress_chunk` maps back to the chunk (the encoder's own output
/// must be acceptable to the decoder, whatever the ratio).
fn param_law(s: &mut Session, p: &Prog, replay: &[String]) {
    for ((m, plain), comp) in &p.tab {
        let cm = if *m == 'Z' { CompressionMode::ZLib } else { CompressionMode::LZ4 };
        // the expansion bound the documented-limits theorems are instantiated with
        // (Props/C01 `documented_limits_fit_table`, `Bounded`): content that does not shrink
        // grows by a few bytes per block, never by more than len/255 + 64
        if comp.len() > plain.len() + plain.len() / 255 + 64 {
            s.oracle_fail(
                "param-bound-compress-expansion",
                &format!("compress_chunk returned {} bytes for {} bytes of content in mode {m} (bound len + len/255 + 64)", comp.len(), plain.len()),
                replay,
            );
        }
        if comp.len() > plain.len() {
            let mut g = RATIOS.lock().unwrap();
            let e = g.entry(format!("maxgrow.{m}")).or_insert(0);
            *e = (*e).max((comp.len() - plain.len()) as u64);
        }
        let got = decompress_chunk(comp, cm);
        if got.as_ref().ok().map(|v| &v[..]) != Some(&plain[..]) {
            let got = match &got {
                Ok(v) => format!("Ok({})", trunc(&hex(v))),
                Err(e) => format!("Err({e})"),
            };
            s.oracle_fail(
                "param-law-decompress-compress",
                &format!("decompress_chunk(compress_chunk(x)) != x for mode {m}, x = {} ({} bytes, compressed to {} bytes = {}:1): decompress_chunk returned {got}", trunc(&hex(plain)), plain.len(), comp.len(), plain.len() / comp.len().max(1)),
                replay,
            );
        }
    }
}

/// Decompress-graph points outside the compressor's range: when a chunk was encrypted with a
/// foreign block index, the wrongly decrypted payload may start with `Z`/`4` and the decoder then
/// runs the real decompressor on garbage. The model's `Codec.decompress` is a parameter, so the
/// harness supplies the real library's answer on exactly those inputs (`dZ:<input>:<output|!>`).
fn garbage_decompress_points(bytes: &[u8], keys: &BTreeMap<u64, [u8; 16]>) -> Vec<String> {
    let mut out = vec![];
    let Ok(parsed) = <BlteFile as CascFormat>::parse(bytes) else { return out };
    for (i, ch) in parsed.chunks.iter().enumerate() {
        let d = &ch.data;
        if ch.mode != CompressionMode::Encrypted || d.len() < 16 || d[0] != 8 || d[9] != 4 {
            continue;
        }
        let name = u64::from_le_bytes(d[1..9].try_into().unwrap());
        let Some(key) = keys.get(&name) else { continue };
        let (iv, et, ct) = (&d[10..14], d[14], &d[15..]);
        let inner = match et {
            0x53 => cascette_crypto::salsa20::decrypt_salsa20(ct, key, iv, i).ok(),
            0x41 => cascette_crypto::arc4::Arc4Cipher::new(key).ok().map(|mut c| c.decrypt(ct)),
            _ => None,
        };
        let Some(inner) = inner else { continue };
        let (mc, cm) = match inner.first() {
            Some(b'Z') => ('Z', CompressionMode::ZLib),
            Some(b'4') => ('4', CompressionMode::LZ4),
            _ => continue,
        };
        let r = decompress_chunk(&inner[1..], cm);
        out.push(format!("d{mc}:{}:{}", hex(&inner[1..]), r.map(|v| hex(&v)).unwrap_or_else(|_| "!".into())));
    }
    out
}

fn trunc(s: &str) -> String {
    if s.len() > 80 { format!("{}…({} chars)", &s[..80], s.len()) } else { s.to_string() }
}

/// run one generated program on the real code, emit lines, evaluate O
fn run_prog(s: &mut Session, p: &Prog) {
    let mut real = Real { b: None, last: None };
    let mut resps = vec![];
    for l in &p.lines {
        let toks: Vec<&str> = l.split(' ').collect();
        let r = real.run(&toks).unwrap_or_else(|| "bad-op".into());
        s.line(l, &r);
        s.tally(&format!("op.{}", toks[0]));
        if !matches!(toks[0], "begin") {
            resps.push(r);
        }
    }
    let b = real.run(&["build"]).unwrap();
    s.line("build", &b);
    s.tally(if b.starts_with("ok") { "build.ok" } else { "build.err" });
    let any_err = resps.iter().any(|r| r != "ok");
    let mut built = None;
    let mut dec = String::new();
    if let Some(h) = b.strip_prefix("ok ") {
        let bytes = unhex(h).unwrap();
        let mut tab = tab_str(p.tab.iter());
        if p.foreign_index {
            let extra = garbage_decompress_points(&bytes, &p.keys);
            if !extra.is_empty() {
                s.tally("garbage-inner-mode-byte");
                tab = if tab == "-" { extra.join(",") } else { format!("{},{}", extra.join(","), tab) };
            }
        }
        let l = format!("dec {} {} {}", h, p.keys_str(), tab);
        dec = real.run(&l.split(' ').collect::<Vec<_>>()).unwrap();
        s.line(&l, &dec);
        // the remaining views repeat the container on the line; for big containers only `dec`
        let small = bytes.len() <= 3000 && p.added.len() <= 300_000;
        if small {
            let l = format!("decplain {} {}", h, tab);
            let r = real.run(&l.split(' ').collect::<Vec<_>>()).unwrap();
            s.line(&l, &r);
            let l = format!("rows {}", h);
            let r = real.run(&l.split(' ').collect::<Vec<_>>()).unwrap();
            s.line(&l, &r);
        }
        if small && !p.keys.is_empty() {
            // a key store that lacks one key: K only (the property speaks of the matching store)
            let mut v: Vec<String> = p.keys.iter().map(|(n, k)| format!("{n}:{}", hex(k))).collect();
            v.remove(0);
            let l = format!("dec {} {} {}", h, if v.is_empty() { "-".into() } else { v.join(",") }, tab);
            let r = real.run(&l.split(' ').collect::<Vec<_>>()).unwrap();
            s.line(&l, &r);
        }
        s.tally(&format!("chunks.{}", match p.plain_chunks.len() { 0 => "0", 1 => "1", 2..=4 => "2-4", 5..=16 => "5-16", _ => ">16" }));
        if p.plain_chunks.iter().any(|c| c.1) {
            s.tally("has-encrypted-chunk");
        }
        if p.added.is_empty() {
            s.tally("empty-content");
        }
        built = Some(bytes);
    } else if !any_err && !p.plain_chunks.is_empty() {
        s.oracle_fail("build-fails", &format!("build returned {b} for a program whose calls all succeeded"), &replay_of(p));
    }
    oracle(s, p, &resps, built.as_deref(), &dec);
    let key = p.lines.join("|");
    s.case(if built.is_some() && !p.plain_chunks.is_empty() { Some(&key) } else { None });
    param_law(s, p, &replay_of(p));
}

/// replay of request lines from a case file: lines are fed as they are; the oracle is evaluated
/// from what the lines themselves say (payloads, keys, indices), at every `build` line.
fn replay(s: &mut Session, lines: &[String], emit: bool, verbose: bool) {
    let mut real = Real { b: None, last: None };
    let mut p = Prog::new();
    p.lines.clear();
    let mut resps: Vec<String> = vec![];
    for l in lines {
        let toks: Vec<&str> = l.split(' ').collect();
        if matches!(toks[0], "compress" | "single" | "multi") {
            entry_case(s, l, false, verbose);
            if HUNG.load(std::sync::atomic::Ordering::SeqCst) {
                return;
            }
            continue;
        }
        if matches!(toks[0], "compress#" | "single#" | "multi#") {
            entry_case_digest(s, l, emit, verbose);
            if HUNG.load(std::sync::atomic::Ordering::SeqCst) {
                return;
            }
            continue;
        }
        if toks[0] == "big" {
            // an oracle-only case: the request lines of the case joined by `|`, run on the real
            // code only (the model side answers the same fixed token)
            let sub: Vec<String> = l[3..].trim_start().split('|').map(|x| x.to_string()).collect();
            replay(s, &sub, false, verbose);
            if emit {
                s.line(l, "oracle-only");
            }
            s.tally("op.big(oracle-only)");
            if HUNG.load(std::sync::atomic::Ordering::SeqCst) {
                return;
            }
            continue;
        }
        let r = real.run(&toks).unwrap_or_else(|| "bad-op".into());
        if emit {
            s.line(l, &r);
        }
        if verbose {
            println!("impl  {} -> {}", trunc(l), trunc(&r));
        }
        if toks[0] == "begin" {
            p = Prog::new();
            p.lines.clear();
            resps.clear();
        }
        p.lines.push(l.clone());
        let enc_of = |t: &[&str]| -> Option<Enc> {
            let (sp, key) = spec_of(t[0], t[1], t[2], t[3])?;
            Some(Enc { et: sp.encryption_type, name: sp.key_name, iv: sp.iv, key })
        };
        let note_enc = |p: &mut Prog, e: &Enc| {
            if e.et == 0x53 || e.et == 0x41 {
                p.keys.insert(e.name, e.key);
            }
        };
        let plain_ok = |m: &str| m != "E" && m != "F";
        match toks.as_slice() {
            ["mode", m] => p.mode = ["N", "Z", "4", "E", "F"].into_iter().find(|x| x == m).unwrap_or("N"),
            ["cs", n] => p.cs = n.parse().unwrap_or(0),
            ["csv", n] => {
                // the documented limits of with_chunk_size: 1 KB ..= 16 MB (the harness's own account)
                let n: usize = n.parse().unwrap_or(0);
                if (1024..=16 * 1024 * 1024).contains(&n) {
                    p.cs = n;
                } else {
                    p.expect_err = true;
                }
            }
            ["enc", et, name, iv, key] => {
                if let Some(e) = enc_of(&[et, name, iv, key]) {
                    note_enc(&mut p, &e);
                    p.enc = Some(e);
                }
            }
            ["noenc"] => p.enc = None,
            ["add", d, _] => {
                let d = unhex(d).unwrap_or_default();
                let e = p.enc.clone();
                let ok = if e.is_some() { p.mode != "F" } else { plain_ok(p.mode) };
                let ch = split(p.cs, &d);
                p.note_tab(p.mode, ch.as_deref().unwrap_or(&[]));
                p.shape.push(if e.is_some() { "add+enc" } else { "add" });
                p.account(&d, ch, e.as_ref(), ok);
            }
            ["mixed", d, "none", _] => {
                let d = unhex(d).unwrap_or_default();
                let ch = split(p.cs, &d);
                p.note_tab(p.mode, ch.as_deref().unwrap_or(&[]));
                p.shape.push("mixed");
                let ok = plain_ok(p.mode);
                p.account(&d, ch, None, ok);
            }
            ["mixed", d, et, name, iv, key, _] => {
                let d = unhex(d).unwrap_or_default();
                if let Some(e) = enc_of(&[et, name, iv, key]) {
                    note_enc(&mut p, &e);
                    let ch = split(p.cs, &d);
                    p.note_tab(p.mode, ch.as_deref().unwrap_or(&[]));
                    p.shape.push("mixed+enc");
                    let ok = p.mode != "F";
                    p.account(&d, ch, Some(&e), ok);
                }
            }
            ["encdata", d, et, name, iv, key, idx, _] => {
                let d = unhex(d).unwrap_or_default();
                if let Some(e) = enc_of(&[et, name, iv, key]) {
                    note_enc(&mut p, &e);
                    let here = p.plain_chunks.len();
                    let idx: usize = idx.parse().unwrap_or(0);
                    if e.et == 0x53 && (idx as u32) != (here as u32) && p.mode != "F" {
                        p.foreign_index = true;
                    }
                    p.note_tab(p.mode, std::slice::from_ref(&d));
                    p.shape.push("encdata");
                    let ok = p.mode != "F";
                    p.account(&d, Some(vec![d.clone()]), Some(&e), ok);
                }
            }
            ["chunk", m, d, _] => {
                let d = unhex(d).unwrap_or_default();
                p.note_tab(m, std::slice::from_ref(&d));
                p.shape.push("chunk");
                p.account(&d, Some(vec![d.clone()]), None, plain_ok(m));
            }
            ["chunks", m, d, k, _] => {
                let d = unhex(d).unwrap_or_default();
                let k: usize = k.parse().unwrap_or(1).max(1);
                let pcs: Vec<Vec<u8>> = d.chunks(k).map(|c| c.to_vec()).collect();
                p.note_tab(m, &pcs);
                p.shape.push("chunks");
                p.account(&d, Some(pcs), None, plain_ok(m));
            }
            _ => {}
        }
        match toks[0] {
            "dec" | "decplain" => {
                // a container that holds a Frame chunk must be refused by the real decoders
                #[allow(deprecated)]
                if r.starts_with("ok")
                    && let Some(bytes) = toks.get(1).and_then(|h| unhex(h))
                    && let Ok(parsed) = <BlteFile as CascFormat>::parse(&bytes)
                    && parsed.chunks.iter().any(|c| c.mode == CompressionMode::Frame)
                {
                    s.oracle_fail("frame-chunk-decoded", &format!("container with a Frame chunk decoded to {}", trunc(&r)), std::slice::from_ref(l));
                }
            }
            "begin" | "rows" => {}
            "build#" => {
                s.case(Some(&p.lines.join("|")));
                let mut q = Prog::new();
                std::mem::swap(&mut q, &mut p);
                q.digest = true;
                // the replay of the case: its own lines (one `big` line when oracle-only)
                let rep = if emit { q.lines.clone() } else { vec![format!("big {}", q.lines.join("|"))] };
                let built = real.last.take();
                if built.is_none() && !resps.iter().any(|r| r != "ok") && !q.plain_chunks.is_empty() {
                    s.oracle_fail("build-fails", &format!("build returned {r}"), &rep);
                }
                let dec = built.as_ref().map(|b| b.1.clone()).unwrap_or_default();
                take_plain_differs(s, &rep);
                q.lines = rep.clone();
                oracle(s, &q, &resps, built.as_ref().map(|b| &b.0[..]), &dec);
                param_law(s, &q, &rep);
                if built.is_some() {
                    s.tally(&format!("chunks.{}", match q.plain_chunks.len() { 0 => "0", 1 => "1", 2..=4 => "2-4", 5..=16 => "5-16", _ => ">16" }));
                    s.tally("build.ok");
                } else {
                    s.tally("build.err");
                }
            }
            "build" => {
                s.case(Some(&p.lines.join("|")));
                if let Some(h) = r.strip_prefix("ok ") {
                    let bytes = unhex(h).unwrap();
                    let tab = tab_str(p.tab.iter());
                    let dl = format!("dec {} {} {}", h, p.keys_str(), tab);
                    let dec = real.run(&dl.split(' ').collect::<Vec<_>>()).unwrap();
                    if verbose {
                        println!("impl  (oracle) decode with matching keys -> {}", trunc(&dec));
                    }
                    let mut q = Prog::new();
                    std::mem::swap(&mut q, &mut p);
                    q.lines.pop();
                    oracle(s, &q, &resps, Some(&bytes), &dec);
                    param_law(s, &q, &replay_of(&q));
                    std::mem::swap(&mut q, &mut p);
                } else {
                    let mut q = Prog::new();
                    std::mem::swap(&mut q, &mut p);
                    q.lines.pop();
                    if !resps.iter().any(|r| r != "ok") && !q.plain_chunks.is_empty() {
                        s.oracle_fail("build-fails", &format!("build returned {r}"), &replay_of(&q));
                    }
                    oracle(s, &q, &resps, None, "");
                    param_law(s, &q, &replay_of(&q));
                    std::mem::swap(&mut q, &mut p);
                }
            }
            _ => resps.push(r),
        }
    }
}

fn main() {
    let args = Args::parse();
    quiet_panics();
    let mut s = Session::new(&args.out);
    s.rule = "seeded builder programs of 1..8 calls over {with_compression N/Z/4/E/F, with_chunk_size_unchecked 0/1/2/3/5/16/64/1024/default, with_encryption / without_encryption, add_data, add_mixed_data(None|Some), add_encrypted_data(index = position | foreign), add_chunk(ChunkData::new)} with Salsa20 / ARC4 / unknown cipher types, payload lengths 0, 1, cs-1, cs, cs+1, 2cs, 2cs+1, 3cs+r, random, first byte forced to N/Z/4/E/F in a third of them, constant / periodic / random content; plus an exhaustive sweep of one- and two-call programs over {add_data, add_mixed_data, add_encrypted_data, add_chunk}^2 x payload lengths {0,1,cs-1,cs,cs+1,2cs,2cs+1} x modes x {plain, Salsa20, ARC4}; plus the entry points outside the builder: BlteFile::compress exhaustively over chunk sizes {0,1,2,4,5,64} x lengths {0,1,cs-1,cs,cs+1,2cs,2cs+1,3cs+2} x modes N/Z/4/E/F and seeded random (chunk sizes 0..4096), single_chunk over modes x lengths, multi_chunk / multi_chunk_extended over vectors of 0..6 ChunkData::new chunks (random modes incl. E/F) and over hand-made from_compressed chunks (K only), nested containers as content; plus the family of highly compressible payloads in large single chunks: one chunk of 16 KiB / 32 KiB / 64 KiB / 256 KiB / 1 MiB (thorough: 12 sizes up to 4 MiB incl. 32 KiB +-1) of all-zero / constant / period 2..8 / mode-byte-then-constant / sparse content x modes Z and 4 x routes {add_data plain, add_data under Salsa20, add_data under ARC4, one of add_mixed_data / add_encrypted_data / add_chunk plain or encrypted, BlteFile::compress, BlteFile::single_chunk} (every content kind on every route up to 64 KiB, kinds in turn above; above 256 KiB every other route per mode in the quick tier), chunk size = payload / payload+1 / 2x / default / usize::MAX, half of the builder programs with a small chunk in front, plus 1 MiB at the default chunk size, 3x64 KiB+5 at 64 KiB and 2x32 KiB at 32 KiB (several such chunks, plain / Salsa20 / ARC4), plus one random program in 30 as a large-chunk program (chunk sizes 16 KiB .. 1 MiB / usize::MAX, payload lengths cs-1, cs, cs+1, 2cs+1, cs/2..cs, constant / periodic / sparse content, modes Z / 4, encryption in half of them); plus the family of large chunks of content that does NOT shrink (big.*): one chunk of LCG noise / dictionary-word text / alternating stretches of both at 8 KiB, 32 KiB, 64 KiB, 256 KiB each with -1 / +1, 16 KiB, 85196, 128 KiB, one of 1 MiB -1/0/+1 per content x mode (thorough: all three, and more) and two log-uniform sizes in 4 KiB .. 1 MiB, x modes N / Z / 4 plain and as inner mode under Salsa20 and under ARC4 x routes in rotation {add_data, add_data after the validated with_chunk_size(n), add_mixed_data, add_chunk, BlteFile::compress, BlteFile::single_chunk | add_data under with_encryption, add_mixed_data(Some), add_encrypted_data}, chunk size = payload / payload+1 / 2x / default / huge, half with a small chunk in front, plus payloads split into several such chunks (3x64 KiB+5, 200000 at a validated 64 KiB, 2x32 KiB); payloads are written in generator notation (~<kind><seed>.<off>*<len>) and answered with #len:fnv digests (ops build#, compress#, single#); a rotating sixth of the cases up to 64 KiB+1 and two 256 KiB chunks are evaluated by the Lean model as well, the rest are oracle-only `big` lines (both sides answer `oracle-only`); plus the builder's documented limits (limit.*): with_chunk_size at 0, 1, 1023, 1024, 1025, 16 MiB-1, 16 MiB, 16 MiB+1, 32 MiB, 2^62 (K+O), and oracle-only 16 MiB chunks: chunk size exactly 16 MiB / 16 MiB-1 with one piece of 16 MiB / 16 MiB+1 through add_data (alone, behind a small chunk, split), add_mixed_data, add_chunk (16 MiB and 16 MiB+1), compress, single_chunk in mode N; encrypted full chunks at chunk sizes 16 MiB-17, -16, -15, -1, -0 (thorough: every one of -17..0, both ciphers), add_mixed_data(Some) and add_encrypted_data with 16 MiB and 16 MiB+1; 16 MiB of noise in modes Z and 4 (thorough: and of words in Z plain and under Salsa20), single pieces of 16 MiB+1 of zeros / words through add_chunk (Z) and add_encrypted_data (Salsa20/4, ARC4/Z); one random program in six that sets a chunk size uses the validated setter at 0 / 1023 / 1024 / 1025 / 2048 / 4096 / 16 MiB / 16 MiB+1; plus the chunk-COUNT boundaries (count.*): containers of 255 / 256 / 257 chunks (K+O) and of 65535 / 65536 / 65537 / 65536+k (k random in 2..9000) / 2^17 or 2^17+1 chunks (thorough: 2^17-1, 2^17, 2^17+1, 65536+256, 3*65536+r) x routes {add_data at chunk size 1, add_data at chunk size 2 with a short last chunk, add_mixed_data at 1, add_data at 1 under Salsa20, under ARC4, two calls that reach the count together (add_data + add_chunk in either order), n add_chunk calls (`chunks`), BlteFile::compress at 1, BlteFile::multi_chunk, BlteHeader::multi_chunk_extended (`multi#`)} of LCG noise in mode N (quick: every route at 65536, 65537 and 65536+k, every other route at 65535 and 2^17(+1)); large cases are oracle-only `big` lines except 65536 through add_data and one more (count in {65536, 65537, 65536+k}, route in {compress, multi_chunk, add_data at 2, add_mixed_data}) per run which the Lean model evaluates too; the compression ratios reached are tallied (compress_chunk.ratio.*, compress_chunk.max-ratio.*, extra.max_compression_ratio_mode_*); hand-made containers with a Frame chunk (single-chunk and at every table position, both table formats) and encrypted chunks whose inner payload starts with F / E; non-trivial = every call succeeded, a container with >= 1 chunk was produced and decoded (or, for the hand-made Frame / nested containers, parsed and handed to both decoders); distinct = canonical text of the whole program / request".into();
    let mut rng = Rng::new(args.seed);

    if let Some(p) = &args.replay {
        let lines = read_case(p);
        replay(&mut s, &lines, true, true);
        let s = exit_if_hung(s);
        s.finish();
        return;
    }

    let pool: Vec<(u64, [u8; 16])> = vec![
        (0x1234_5678_90AB_CDEF, rng.bytes(16).try_into().unwrap()),
        (0, rng.bytes(16).try_into().unwrap()),
        (u64::MAX, rng.bytes(16).try_into().unwrap()),
        (0xFA50_5078_126A_CB3E, rng.bytes(16).try_into().unwrap()),
    ];

    // exhaustive two-call programs over payload classes x modes x encryption (boundary sweep)
    let cs = 4usize;
    let lens = [0usize, 1, 3, 4, 5, 8, 9];
    let firsts = [b'N', b'E', 0x00];
    let encs: [Option<u8>; 3] = [None, Some(0x53), Some(0x41)];
    let calls = ["add", "mixed", "encdata", "chunk"];
    let modes: &[&'static str] = if args.thorough() { &["N", "Z", "4"] } else { &["N", "Z"] };
    for &m in modes {
        for e in encs {
            for c1 in calls {
                for c2 in ["add", "mixed", "encdata", "chunk", "-"] {
                    for &l1 in &lens {
                        for &l2 in &lens {
                            // "-" = one-call program (single chunk / single encrypted chunk headers)
                            if c2 == "-" && l2 != 0 {
                                continue;
                            }
                            if !args.thorough() && (l1 + l2) % 3 == 1 && l1 != 0 && l2 != 0 {
                                continue;
                            }
                            let mut p = Prog::new();
                            p.mode = m;
                            p.cs = cs;
                            p.lines.push(format!("mode {m}"));
                            p.lines.push(format!("cs {cs}"));
                            if let Some(et) = e {
                                let en = Enc { et, name: pool[0].0, iv: [1, 2, 3, 4], key: pool[0].1 };
                                p.keys.insert(en.name, en.key);
                                p.lines.push(format!("enc {}", en.toks()));
                                p.enc = Some(en);
                            }
                            for (c, l) in [(c1, l1), (c2, l2)] {
                                if c == "-" {
                                    continue;
                                }
                                let mut d: Vec<u8> = (0..l).map(|i| (i as u8).wrapping_mul(37).wrapping_add(l as u8)).collect();
                                if l > 0 {
                                    d[0] = *rng.pick(&firsts);
                                }
                                let en = p.enc.clone();
                                match c {
                                    "add" => {
                                        let ch = split(p.cs, &d);
                                        let tab = p.table_for(p.mode, ch.as_deref().unwrap_or(&[]));
                                        p.lines.push(format!("add {} {}", hex(&d), tab));
                                        p.shape.push("add");
                                        p.account(&d, ch, en.as_ref(), true);
                                    }
                                    "mixed" => {
                                        let ch = split(p.cs, &d);
                                        let tab = p.table_for(p.mode, ch.as_deref().unwrap_or(&[]));
                                        match &en {
                                            Some(x) => p.lines.push(format!("mixed {} {} {}", hex(&d), x.toks(), tab)),
                                            None => p.lines.push(format!("mixed {} none {}", hex(&d), tab)),
                                        }
                                        p.shape.push("mixed");
                                        p.account(&d, ch, en.as_ref(), true);
                                    }
                                    "encdata" => {
                                        let x = en.clone().unwrap_or(Enc { et: 0x53, name: pool[1].0, iv: [9, 8, 7, 6], key: pool[1].1 });
                                        p.keys.insert(x.name, x.key);
                                        let here = p.plain_chunks.len();
                                        let tab = p.table_for(p.mode, std::slice::from_ref(&d));
                                        p.lines.push(format!("encdata {} {} {} {}", hex(&d), x.toks(), here, tab));
                                        p.shape.push("encdata");
                                        p.account(&d, Some(vec![d.clone()]), Some(&x), true);
                                    }
                                    _ => {
                                        let tab = p.table_for(p.mode, std::slice::from_ref(&d));
                                        p.lines.push(format!("chunk {} {} {}", p.mode, hex(&d), tab));
                                        p.shape.push("chunk");
                                        p.account(&d, Some(vec![d.clone()]), None, true);
                                    }
                                }
                            }
                            s.tally("sweep.two-call");
                            run_prog(&mut s, &p);
                        }
                    }
                }
            }
        }
    }

    // highly compressible payloads in large single chunks (deterministic family, before the
    // random programs so that a failure there is reported on its plainest witness)
    compressible_family(&mut s, &mut rng, args.thorough(), &pool);
    let mut s = exit_if_hung(s);

    // large chunks of content that does not shrink, around every buffer threshold of the encode /
    // decode paths, and the builder's documented 16 MiB limit (mostly oracle-only `big` lines)
    let t0 = std::time::Instant::now();
    big_family(&mut s, &mut rng, args.thorough(), &pool);
    let mut s = exit_if_hung(s);
    let t1 = std::time::Instant::now();
    limit_family(&mut s, &mut rng, args.thorough(), &pool);
    let mut s = exit_if_hung(s);
    if std::env::var_os("C01_TIMES").is_some() {
        eprintln!("c01: big_family {:.1} s, limit_family {:.1} s", (t1 - t0).as_secs_f64(), t1.elapsed().as_secs_f64());
    }
    // chunk-COUNT boundaries (255..257 K + O; 65535 .. 2^17 + 1 chunks mostly oracle-only)
    let t2 = std::time::Instant::now();
    count_family(&mut s, &mut rng, args.thorough(), &pool);
    let mut s = exit_if_hung(s);
    if std::env::var_os("C01_TIMES").is_some() {
        eprintln!("c01: count_family {:.1} s", t2.elapsed().as_secs_f64());
    }

    // seeded random programs
    let n_prog = if args.thorough() { 20000 } else { 1500 };
    for k in 0..n_prog {
        let mut p = Prog::new();
        let max = if k % 100 == 0 { 3000 } else if k % 7 == 0 { 400 } else { 48 };
        // one program in 30 is a large-chunk program: chunk sizes of 16 KiB .. 256 KiB (default),
        // payload lengths around them, constant / periodic content, compressing modes
        if k % 30 == 29 {
            p.big = true;
            p.cs = *rng.pick(&[16usize << 10, 16 << 10, 16 << 10, 32 << 10, 32 << 10, 64 << 10, 256 << 10]);
            if p.cs != 256 << 10 {
                p.lines.push(format!("cs {}", p.cs));
            }
            p.mode = *rng.pick(&["Z", "Z", "4"]);
            p.lines.push(format!("mode {}", p.mode));
            p.fill = rng.byte();
            p.kinds = *rng.pick(&[&[Kind::Zero][..], &[Kind::Const], &[Kind::Const], &[Kind::Const, Kind::Period, Kind::ModeByteFirst], &[Kind::Zero, Kind::ModeByteFirst, Kind::Sparse]]);
            if rng.chance(1, 2) {
                let e = p.some_enc(&mut rng, &pool);
                p.lines.push(format!("enc {}", e.toks()));
                p.enc = Some(e);
            }
            for _ in 0..rng.range(1, 4) {
                p.op(&mut rng, &pool, max);
            }
            s.tally("random.program.large-chunk");
            run_prog(&mut s, &p);
            continue;
        }
        // most programs fix a small chunk size and a mode first, so boundaries are reached
        if rng.chance(9, 10) {
            p.cs = *rng.pick(&[1usize, 2, 3, 5, 5, 16, 64, 64, 1024]);
            p.lines.push(format!("cs {}", p.cs));
        }
        if rng.chance(2, 3) {
            p.mode = *rng.pick(&["N", "Z", "4"]);
            p.lines.push(format!("mode {}", p.mode));
        }
        if rng.chance(1, 3) {
            let e = p.some_enc(&mut rng, &pool);
            p.lines.push(format!("enc {}", e.toks()));
            p.enc = Some(e);
        }
        let n_ops = rng.range(1, 8);
        for _ in 0..n_ops {
            p.op(&mut rng, &pool, max);
        }
        s.tally("random.program");
        run_prog(&mut s, &p);
    }

    // the encoder entry points outside the builder, Frame mode and nested containers
    entry_points(&mut s, &mut rng, args.thorough(), &pool);
    let mut s = exit_if_hung(s);

    // the default chunk size (private constant 256 KiB): one payload just above it, plain and
    // encrypted, so that the default-path chunking and a 64-byte-block-crossing keystream are hit
    for enc in [false, true] {
        if !args.thorough() && enc {
            continue;
        }
        let mut p = Prog::new();
        if enc {
            let e = Enc { et: 0x53, name: pool[0].0, iv: [7, 7, 7, 7], key: pool[0].1 };
            p.keys.insert(e.name, e.key);
            p.lines.push(format!("enc {}", e.toks()));
            p.enc = Some(e);
        }
        let d = rng.bytes(256 * 1024 + 1);
        let ch = split(p.cs, &d);
        p.lines.push(format!("add {} -", hex(&d)));
        p.shape.push("add");
        let en = p.enc.clone();
        p.account(&d, ch, en.as_ref(), true);
        s.tally("default-chunk-size.program");
        run_prog(&mut s, &p);
    }
    flush_ratios(&mut s);
    s.finish();
}
