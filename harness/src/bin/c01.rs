//! C01 — BLTE encode/decode is the identity on content.
//!
//! K: builder programs are run on the REAL `BlteBuilder` / `CascFormat::{build,parse}` /
//!    `decompress_with_keys`; every request line is also answered by the Lean model (`drv_c01`).
//!    zlib / LZ4 are parameters of the model: each request line that can reach a compressor
//!    carries the graph of the real `compress_chunk` on the chunks involved (`M:plain:comp`), so
//!    the model frames / encrypts / serialises the very same bytes and the complete container is
//!    compared byte for byte.  `dec`, `decplain`, `rows` are stateless: the model parses and
//!    decodes the bytes the implementation produced (the independent decoder of the property).
//! O: identity of decode∘parse∘serialize∘build on the added bytes, truth of every chunk-table row
//!    (sizes recomputed from the chunk as serialised and as decoded, MD5 by the independent `md5`
//!    crate), "error instead of garbage", and the compressor law used by the theorems.
use cascette_crypto::{TactKey, TactKeyStore};
use cascette_formats::CascFormat;
use cascette_formats::blte::{
    BlteBuilder, BlteError, BlteFile, ChunkData, CompressionMode, EncryptionSpec, compress_chunk,
    decompress_chunk, decrypt_chunk_with_keys,
};
use std::collections::BTreeMap;
use std::panic::AssertUnwindSafe;
use verif_harness::*;

#[allow(deprecated)]
fn mode_of(s: &str) -> Option<CompressionMode> {
    Some(match s {
        "N" => CompressionMode::None,
        "Z" => CompressionMode::ZLib,
        "4" => CompressionMode::LZ4,
        "E" => CompressionMode::Encrypted,
        "F" => CompressionMode::Frame,
        _ => return None,
    })
}

fn err_class(e: &BlteError) -> &'static str {
    match e {
        BlteError::CompressionError(_) => "err:compression",
        BlteError::InvalidChunkCount(_) => "err:chunk-count",
        BlteError::InvalidChunkSize { .. } => "err:chunk-size",
        BlteError::UnsupportedCompressionMode(_) => "err:unsupported",
        BlteError::InvalidIvSize { .. } => "err:iv",
        BlteError::NestedEncryption => "err:nested",
        BlteError::SingleChunkEncrypted => "err:single-enc",
        BlteError::BinRw(_) => "err:parse",
        _ => "err:other",
    }
}

/// the real builder under test; `None` once a call consumed it (error, panic or `build`)
struct Real {
    b: Option<BlteBuilder>,
}

fn spec_of(et: &str, name: &str, iv: &str, key: &str) -> Option<(EncryptionSpec, [u8; 16])> {
    let iv: [u8; 4] = unhex(iv)?.try_into().ok()?;
    let key: [u8; 16] = unhex(key)?.try_into().ok()?;
    Some((EncryptionSpec { key_name: name.parse().ok()?, iv, encryption_type: et.parse().ok()? }, key))
}

fn keystore(s: &str) -> Option<TactKeyStore> {
    let mut ks = TactKeyStore::empty();
    if s != "-" {
        for ent in s.split(',') {
            let (n, k) = ent.split_once(':')?;
            let key: [u8; 16] = unhex(k)?.try_into().ok()?;
            ks.add(TactKey::new(n.parse().ok()?, key));
        }
    }
    Some(ks)
}

impl Real {
    fn step(&mut self, f: impl FnOnce(BlteBuilder) -> Result<BlteBuilder, BlteError>) -> String {
        let Some(b) = self.b.take() else { return "dead".into() };
        match catch(AssertUnwindSafe(move || f(b))) {
            Ok(Ok(b)) => {
                self.b = Some(b);
                "ok".into()
            }
            Ok(Err(e)) => err_class(&e).into(),
            Err(_) => "panic".into(),
        }
    }

    fn run(&mut self, toks: &[&str]) -> Option<String> {
        Some(match toks {
            ["begin"] => {
                self.b = Some(BlteBuilder::new());
                "ok".into()
            }
            ["mode", m] => {
                let m = mode_of(m)?;
                self.step(|b| Ok(b.with_compression(m)))
            }
            ["cs", n] => {
                let n: usize = n.parse().ok()?;
                self.step(|b| Ok(b.with_chunk_size_unchecked(n)))
            }
            ["enc", et, name, iv, key] => {
                let (spec, key) = spec_of(et, name, iv, key)?;
                self.step(|b| Ok(b.with_encryption(spec, key)))
            }
            ["noenc"] => self.step(|b| Ok(b.without_encryption())),
            ["add", d, _tab] => {
                let d = unhex(d)?;
                self.step(|b| b.add_data(&d))
            }
            ["mixed", d, "none", _tab] => {
                let d = unhex(d)?;
                self.step(|b| b.add_mixed_data(&d, None))
            }
            ["mixed", d, et, name, iv, key, _tab] => {
                let d = unhex(d)?;
                let e = spec_of(et, name, iv, key)?;
                self.step(|b| b.add_mixed_data(&d, Some(e)))
            }
            ["encdata", d, et, name, iv, key, idx, _tab] => {
                let d = unhex(d)?;
                let (spec, key) = spec_of(et, name, iv, key)?;
                let idx: usize = idx.parse().ok()?;
                self.step(|b| b.add_encrypted_data(&d, spec, key, idx))
            }
            ["chunk", m, d, _tab] => {
                let m = mode_of(m)?;
                let d = unhex(d)?;
                self.step(|b| Ok(b.add_chunk(ChunkData::new(d, m)?)))
            }
            ["build"] => {
                let Some(b) = self.b.take() else { return Some("dead".into()) };
                match catch(AssertUnwindSafe(move || b.build().map(|f| CascFormat::build(&f).map_err(|e| e.to_string())))) {
                    Ok(Ok(Ok(bytes))) => format!("ok {}", hex(&bytes)),
                    Ok(Ok(Err(_))) => "err:serialize".into(),
                    Ok(Err(e)) => err_class(&e).into(),
                    Err(_) => "panic".into(),
                }
            }
            ["dec", f, keys, _tab] => {
                let f = unhex(f)?;
                let ks = keystore(keys)?;
                match catch(AssertUnwindSafe(|| <BlteFile as CascFormat>::parse(&f).map(|p| p.decompress_with_keys(&ks)).map_err(|_| ()))) {
                    Ok(Ok(Ok(out))) => format!("ok {}", hex(&out)),
                    Ok(Ok(Err(e))) => err_class(&e).into(),
                    Ok(Err(())) => "err:parse".into(),
                    Err(_) => "panic".into(),
                }
            }
            ["decplain", f, _tab] => {
                let f = unhex(f)?;
                match catch(AssertUnwindSafe(|| <BlteFile as CascFormat>::parse(&f).map(|p| p.decompress()).map_err(|_| ()))) {
                    Ok(Ok(Ok(out))) => format!("ok {}", hex(&out)),
                    Ok(Ok(Err(e))) => err_class(&e).into(),
                    Ok(Err(())) => "err:parse".into(),
                    Err(_) => "panic".into(),
                }
            }
            ["rows", f] => {
                let f = unhex(f)?;
                match catch(AssertUnwindSafe(|| <BlteFile as CascFormat>::parse(&f).map_err(|_| ()))) {
                    Ok(Ok(p)) => rows_line(&p),
                    Ok(Err(())) => "err:parse".into(),
                    Err(_) => "panic".into(),
                }
            }
            _ => return None,
        })
    }
}

fn rows_line(p: &BlteFile) -> String {
    match &p.header.extended {
        None => format!("single chunks={}", p.chunks.len()),
        Some(x) => {
            let rows: Vec<String> = x
                .chunk_infos
                .iter()
                .map(|r| format!("{}:{}:{}", r.compressed_size, r.decompressed_size, hex(&r.checksum)))
                .collect();
            format!("table hs={} n={} {}", p.header.header_size, x.chunk_count, if rows.is_empty() { "-".into() } else { rows.join(",") })
        }
    }
}

// ---------------------------------------------------------------- program generation

#[derive(Clone)]
struct Enc {
    et: u8,
    name: u64,
    iv: [u8; 4],
    key: [u8; 16],
}

impl Enc {
    fn toks(&self) -> String {
        format!("{} {} {} {}", self.et, self.name, hex(&self.iv), hex(&self.key))
    }
}

/// what the harness knows about the program it generated (computed independently of the builder)
struct Prog {
    lines: Vec<String>,
    mode: &'static str,
    cs: usize,
    enc: Option<Enc>,
    added: Vec<u8>,
    /// plain bytes of every chunk the program should have produced, and whether it is encrypted
    plain_chunks: Vec<(Vec<u8>, bool)>,
    keys: BTreeMap<u64, [u8; 16]>,
    tab: BTreeMap<(char, Vec<u8>), Vec<u8>>,
    foreign_index: bool,
    expect_err: bool,
    shape: Vec<&'static str>,
}

fn split(cs: usize, d: &[u8]) -> Option<Vec<Vec<u8>>> {
    if d.len() <= cs {
        Some(vec![d.to_vec()])
    } else if cs == 0 {
        None
    } else {
        Some(d.chunks(cs).map(|c| c.to_vec()).collect())
    }
}

fn tab_str<'a>(ents: impl Iterator<Item = (&'a (char, Vec<u8>), &'a Vec<u8>)>) -> String {
    let v: Vec<String> = ents.map(|((m, p), c)| format!("{m}:{}:{}", hex(p), hex(c))).collect();
    if v.is_empty() { "-".into() } else { v.join(",") }
}

impl Prog {
    fn new() -> Prog {
        Prog {
            lines: vec!["begin".into()],
            mode: "N",
            cs: 256 * 1024,
            enc: None,
            added: vec![],
            plain_chunks: vec![],
            keys: BTreeMap::new(),
            tab: BTreeMap::new(),
            foreign_index: false,
            expect_err: false,
            shape: vec![],
        }
    }
    /// graph of the real compressor on the given plain chunks for mode `m` (Z / 4 only)
    fn table_for(&mut self, m: &str, plains: &[Vec<u8>]) -> String {
        let (mc, cm) = match m {
            "Z" => ('Z', CompressionMode::ZLib),
            "4" => ('4', CompressionMode::LZ4),
            _ => return "-".into(),
        };
        let mut local = BTreeMap::new();
        for p in plains {
            if let Ok(c) = compress_chunk(p, cm) {
                local.insert((mc, p.clone()), c.clone());
                self.tab.insert((mc, p.clone()), c);
            }
        }
        tab_str(local.iter())
    }
    fn payload(&self, rng: &mut Rng, max: usize) -> Vec<u8> {
        let cs = self.cs.min(4096);
        let n = match rng.below(14) {
            0 => 0,
            1 => 1,
            2 => cs.saturating_sub(1),
            3 => cs,
            4 => cs + 1,
            5 => 2 * cs,
            6 => 2 * cs + 1,
            7 => 3 * cs + rng.below(cs as u64 + 1) as usize,
            8 => rng.range(2, 16) as usize,
            _ => rng.range(0, max as u64) as usize,
        }
        .min(max.max(2 * cs + 1).min(9000));
        let mut d = match rng.below(5) {
            0 => vec![rng.byte(); n],
            1 => (0..n).map(|i| (i % 7) as u8).collect(),
            _ => rng.bytes(n),
        };
        // payloads that start with a mode byte
        if n > 0 && rng.chance(1, 3) {
            d[0] = *rng.pick(&[b'N', b'Z', b'4', b'E', b'F']);
        }
        d
    }
    fn some_enc(&mut self, rng: &mut Rng, pool: &[(u64, [u8; 16])]) -> Enc {
        let (name, key) = *rng.pick(pool);
        let et = match rng.below(20) {
            0 => *rng.pick(&[0u8, 0x45, 0x73]),
            1..=7 => 0x41,
            _ => 0x53,
        };
        let iv: [u8; 4] = rng.bytes(4).try_into().unwrap();
        if et == 0x53 || et == 0x41 {
            self.keys.insert(name, key);
        }
        Enc { et, name, iv, key }
    }
    /// effect of one chunk-producing call as the property demands it
    fn account(&mut self, d: &[u8], chunks: Option<Vec<Vec<u8>>>, enc: Option<&Enc>, mode_ok: bool) {
        let enc_ok = enc.is_none_or(|e| e.et == 0x53 || e.et == 0x41);
        match chunks {
            Some(cs) if mode_ok && enc_ok => {
                self.added.extend_from_slice(d);
                for c in cs {
                    self.plain_chunks.push((c, enc.is_some()));
                }
            }
            _ => self.expect_err = true,
        }
    }
    fn op(&mut self, rng: &mut Rng, pool: &[(u64, [u8; 16])], max: usize) {
        match rng.below(100) {
            0..=7 => {
                self.mode = match rng.below(16) {
                    0 => "E",
                    1 => "F",
                    2..=5 => "N",
                    6..=10 => "Z",
                    _ => "4",
                };
                self.lines.push(format!("mode {}", self.mode));
            }
            8..=13 => {
                self.cs = *rng.pick(&[0usize, 1, 1, 2, 3, 5, 5, 16, 64, 64, 1024]);
                self.lines.push(format!("cs {}", self.cs));
            }
            14..=19 => {
                let e = self.some_enc(rng, pool);
                self.lines.push(format!("enc {}", e.toks()));
                self.enc = Some(e);
            }
            20..=22 => {
                self.enc = None;
                self.lines.push("noenc".into());
            }
            23..=57 => {
                let d = self.payload(rng, max);
                let chunks = split(self.cs, &d);
                let tab = self.table_for(self.mode, chunks.as_deref().unwrap_or(&[]));
                self.lines.push(format!("add {} {}", hex(&d), tab));
                let enc = self.enc.clone();
                // plain chunk under mode E/F is an encoder error; under encryption mode E means inner N
                let mode_ok = if enc.is_some() { self.mode != "F" } else { self.mode != "E" && self.mode != "F" };
                self.shape.push(if enc.is_some() { "add+enc" } else { "add" });
                self.account(&d, chunks, enc.as_ref(), mode_ok);
            }
            58..=79 => {
                let d = self.payload(rng, max);
                let chunks = split(self.cs, &d);
                let tab = self.table_for(self.mode, chunks.as_deref().unwrap_or(&[]));
                let enc = if rng.chance(3, 5) { Some(self.some_enc(rng, pool)) } else { None };
                match &enc {
                    Some(e) => self.lines.push(format!("mixed {} {} {}", hex(&d), e.toks(), tab)),
                    None => self.lines.push(format!("mixed {} none {}", hex(&d), tab)),
                }
                let mode_ok = if enc.is_some() { self.mode != "F" } else { self.mode != "E" && self.mode != "F" };
                self.shape.push(if enc.is_some() { "mixed+enc" } else { "mixed" });
                self.account(&d, chunks, enc.as_ref(), mode_ok);
            }
            80..=91 => {
                let d = self.payload(rng, max);
                let e = self.some_enc(rng, pool);
                let here = self.plain_chunks.len();
                let idx = match rng.below(10) {
                    0 => here + 1,
                    1 => rng.below(5) as usize,
                    2 => here + (1usize << 32),
                    _ => here,
                };
                let tab = self.table_for(self.mode, std::slice::from_ref(&d));
                self.lines.push(format!("encdata {} {} {} {}", hex(&d), e.toks(), idx, tab));
                if e.et == 0x53 && (idx as u32) != (here as u32) && self.mode != "F" {
                    self.foreign_index = true;
                }
                self.shape.push("encdata");
                let mode_ok = self.mode != "F";
                self.account(&d, Some(vec![d.clone()]), Some(&e), mode_ok);
            }
            _ => {
                let d = self.payload(rng, max);
                let m = *rng.pick(&["N", "N", "Z", "Z", "4", "4", "E", "F"]);
                let tab = self.table_for(m, std::slice::from_ref(&d));
                self.lines.push(format!("chunk {} {} {}", m, hex(&d), tab));
                self.shape.push("chunk");
                self.account(&d, Some(vec![d.clone()]), None, m != "E" && m != "F");
            }
        }
    }
    fn keys_str(&self) -> String {
        let v: Vec<String> = self.keys.iter().map(|(n, k)| format!("{n}:{}", hex(k))).collect();
        if v.is_empty() { "-".into() } else { v.join(",") }
    }
}

// ---------------------------------------------------------------- oracle

/// O: evaluated on the implementation's outputs only.
fn oracle(s: &mut Session, p: &Prog, step_resps: &[String], built: Option<&[u8]>, dec: &str) {
    let any_err = step_resps.iter().any(|r| r != "ok");
    let replay = &p.lines;
    // an encoder call that cannot honour the identity must return an error; the harness's own
    // account of which calls are honourable must agree with the implementation
    if any_err != p.expect_err && step_resps.iter().all(|r| r != "panic") {
        s.oracle_fail(
            if any_err { "encoder-refuses-honourable-call" } else { "encoder-accepts-unhonourable-call" },
            &format!("builder responses {step_resps:?}, expected error: {}", p.expect_err),
            replay,
        );
    }
    if step_resps.iter().any(|r| r == "panic") {
        s.oracle_fail("encoder-panic", &format!("builder call panicked: {step_resps:?}"), replay);
    }
    let Some(bytes) = built else { return };
    // 1. identity
    let want = format!("ok {}", hex(&p.added));
    if dec != want {
        let kind = if dec.starts_with("ok") { "decodes-to-other-bytes" } else { "decode-fails" };
        let shape = if p.foreign_index { "-salsa-foreign-block-index" } else { "" };
        let mut msg = format!("decode(parse(serialize(build p))) = {}, added bytes = {}; calls {:?}", trunc(dec), trunc(&hex(&p.added)), p.shape);
        if p.foreign_index {
            msg.push_str(" (add_encrypted_data was given a Salsa20 block index other than the chunk's position)");
        }
        s.oracle_fail(&format!("roundtrip-{kind}{shape}"), &msg, replay);
    }
    // 2. the chunk table is truthful
    let Ok(parsed) = <BlteFile as CascFormat>::parse(bytes) else {
        s.oracle_fail("built-container-does-not-parse", "parse(serialize(build p)) failed", replay);
        return;
    };
    let mut ks = TactKeyStore::empty();
    for (n, k) in &p.keys {
        ks.add(TactKey::new(*n, *k));
    }
    if let Some(x) = &parsed.header.extended {
        if x.chunk_infos.len() != parsed.chunks.len() || x.chunk_count as usize != parsed.chunks.len() {
            s.oracle_fail("table-count", &format!("{} rows, count field {}, {} chunks", x.chunk_infos.len(), x.chunk_count, parsed.chunks.len()), replay);
        }
        if parsed.header.header_size as usize != 12 + 24 * x.chunk_infos.len() {
            s.oracle_fail("table-header-size", &format!("header_size {} for {} rows", parsed.header.header_size, x.chunk_infos.len()), replay);
        }
        // chunk bodies as they sit in the file, located by the header_size field (not by the parser)
        let mut off = parsed.header.header_size as usize;
        for (i, (row, ch)) in x.chunk_infos.iter().zip(&parsed.chunks).enumerate() {
            let encrypted = ch.mode == CompressionMode::Encrypted;
            let tag = if encrypted { "-encrypted-chunk" } else { "" };
            let body = bytes.get(off..off + row.compressed_size as usize);
            off += row.compressed_size as usize;
            let mut on_disk = vec![ch.mode.as_byte()];
            on_disk.extend_from_slice(&ch.data);
            if body != Some(&on_disk[..]) {
                s.oracle_fail(&format!("table-compressed-size{tag}"), &format!("row {i}: compressed_size {} does not delimit the chunk ({} bytes)", row.compressed_size, on_disk.len()), replay);
            }
            let sum = md5::compute(&on_disk).0;
            if row.checksum != sum {
                s.oracle_fail(&format!("table-checksum{tag}"), &format!("row {i}: checksum {} but MD5(chunk) = {}", hex(&row.checksum), hex(&sum)), replay);
            }
            // decoded size of this chunk, decoded on its own at its own index
            let plain = if encrypted { decrypt_chunk_with_keys(&ch.data, &ks, i).ok() } else { decompress_chunk(&ch.data, ch.mode).ok() };
            // the content the chunk describes: the harness's own account of the chunking where it
            // has one, else the chunk decoded on its own at its own index
            let actual = match (p.plain_chunks.get(i), &plain) {
                (Some((pl, _)), _) if !p.expect_err => Some(pl.len()),
                (_, Some(pl)) => Some(pl.len()),
                _ => None,
            };
            if let Some(n) = actual
                && row.decompressed_size as usize != n
            {
                s.oracle_fail(&format!("table-decompressed-size{tag}"), &format!("row {i}: decompressed_size {} but the chunk holds {} content bytes", row.decompressed_size, n), replay);
            }
        }
        if off != bytes.len() {
            s.oracle_fail("table-compressed-size-total", &format!("rows cover {off} of {} bytes", bytes.len()), replay);
        }
    } else if parsed.chunks.len() != 1 {
        s.oracle_fail("single-chunk-count", &format!("{} chunks under a single-chunk header", parsed.chunks.len()), replay);
    }
    // 3. independent account of the chunking
    if !p.expect_err && parsed.chunks.len() != p.plain_chunks.len() {
        s.oracle_fail("chunk-count", &format!("{} chunks, expected {}", parsed.chunks.len(), p.plain_chunks.len()), replay);
    }
}

/// Decompress-graph points outside the compressor's range: when a chunk was encrypted with a
/// foreign block index, the wrongly decrypted payload may start with `Z`/`4` and the decoder then
/// runs the real decompressor on garbage. The model's `Codec.decompress` is a parameter, so the
/// harness supplies the real library's answer on exactly those inputs (`dZ:<input>:<output|!>`).
fn garbage_decompress_points(bytes: &[u8], keys: &BTreeMap<u64, [u8; 16]>) -> Vec<String> {
    let mut out = vec![];
    let Ok(parsed) = <BlteFile as CascFormat>::parse(bytes) else { return out };
    for (i, ch) in parsed.chunks.iter().enumerate() {
        let d = &ch.data;
        if ch.mode != CompressionMode::Encrypted || d.len() < 16 || d[0] != 8 || d[9] != 4 {
            continue;
        }
        let name = u64::from_le_bytes(d[1..9].try_into().unwrap());
        let Some(key) = keys.get(&name) else { continue };
        let (iv, et, ct) = (&d[10..14], d[14], &d[15..]);
        let inner = match et {
            0x53 => cascette_crypto::salsa20::decrypt_salsa20(ct, key, iv, i).ok(),
            0x41 => cascette_crypto::arc4::Arc4Cipher::new(key).ok().map(|mut c| c.decrypt(ct)),
            _ => None,
        };
        let Some(inner) = inner else { continue };
        let (mc, cm) = match inner.first() {
            Some(b'Z') => ('Z', CompressionMode::ZLib),
            Some(b'4') => ('4', CompressionMode::LZ4),
            _ => continue,
        };
        let r = decompress_chunk(&inner[1..], cm);
        out.push(format!("d{mc}:{}:{}", hex(&inner[1..]), r.map(|v| hex(&v)).unwrap_or_else(|_| "!".into())));
    }
    out
}

fn trunc(s: &str) -> String {
    if s.len() > 80 { format!("{}…({} chars)", &s[..80], s.len()) } else { s.to_string() }
}

/// run one generated program on the real code, emit lines, evaluate O
fn run_prog(s: &mut Session, p: &Prog) {
    let mut real = Real { b: None };
    let mut resps = vec![];
    for l in &p.lines {
        let toks: Vec<&str> = l.split(' ').collect();
        let r = real.run(&toks).unwrap_or_else(|| "bad-op".into());
        s.line(l, &r);
        s.tally(&format!("op.{}", toks[0]));
        if !matches!(toks[0], "begin") {
            resps.push(r);
        }
    }
    let b = real.run(&["build"]).unwrap();
    s.line("build", &b);
    s.tally(if b.starts_with("ok") { "build.ok" } else { "build.err" });
    let any_err = resps.iter().any(|r| r != "ok");
    let mut built = None;
    let mut dec = String::new();
    if let Some(h) = b.strip_prefix("ok ") {
        let bytes = unhex(h).unwrap();
        let mut tab = tab_str(p.tab.iter());
        if p.foreign_index {
            let extra = garbage_decompress_points(&bytes, &p.keys);
            if !extra.is_empty() {
                s.tally("garbage-inner-mode-byte");
                tab = if tab == "-" { extra.join(",") } else { format!("{},{}", extra.join(","), tab) };
            }
        }
        let l = format!("dec {} {} {}", h, p.keys_str(), tab);
        dec = real.run(&l.split(' ').collect::<Vec<_>>()).unwrap();
        s.line(&l, &dec);
        // the remaining views repeat the container on the line; for big containers only `dec`
        let small = bytes.len() <= 3000;
        if small {
            let l = format!("decplain {} {}", h, tab);
            let r = real.run(&l.split(' ').collect::<Vec<_>>()).unwrap();
            s.line(&l, &r);
            let l = format!("rows {}", h);
            let r = real.run(&l.split(' ').collect::<Vec<_>>()).unwrap();
            s.line(&l, &r);
        }
        if small && !p.keys.is_empty() {
            // a key store that lacks one key: K only (the property speaks of the matching store)
            let mut v: Vec<String> = p.keys.iter().map(|(n, k)| format!("{n}:{}", hex(k))).collect();
            v.remove(0);
            let l = format!("dec {} {} {}", h, if v.is_empty() { "-".into() } else { v.join(",") }, tab);
            let r = real.run(&l.split(' ').collect::<Vec<_>>()).unwrap();
            s.line(&l, &r);
        }
        s.tally(&format!("chunks.{}", match p.plain_chunks.len() { 0 => "0", 1 => "1", 2..=4 => "2-4", 5..=16 => "5-16", _ => ">16" }));
        if p.plain_chunks.iter().any(|c| c.1) {
            s.tally("has-encrypted-chunk");
        }
        if p.added.is_empty() {
            s.tally("empty-content");
        }
        built = Some(bytes);
    } else if !any_err && !p.plain_chunks.is_empty() {
        s.oracle_fail("build-fails", &format!("build returned {b} for a program whose calls all succeeded"), &p.lines);
    }
    oracle(s, p, &resps, built.as_deref(), &dec);
    let key = p.lines.join("|");
    s.case(if built.is_some() && !p.plain_chunks.is_empty() { Some(&key) } else { None });
    // the parameter law the theorems assume, on the real library
    for ((m, plain), comp) in &p.tab {
        let cm = if *m == 'Z' { CompressionMode::ZLib } else { CompressionMode::LZ4 };
        if decompress_chunk(comp, cm).ok().as_deref() != Some(&plain[..]) {
            s.oracle_fail("param-law-decompress-compress", &format!("decompress_chunk(compress_chunk(x)) != x for mode {m}, x = {}", trunc(&hex(plain))), &[]);
        }
    }
}

/// replay of request lines from a case file: lines are fed as they are; the oracle is evaluated
/// from what the lines themselves say (payloads, keys, indices), at every `build` line.
fn replay(s: &mut Session, lines: &[String]) {
    let mut real = Real { b: None };
    let mut p = Prog::new();
    p.lines.clear();
    let mut resps: Vec<String> = vec![];
    for l in lines {
        let toks: Vec<&str> = l.split(' ').collect();
        let r = real.run(&toks).unwrap_or_else(|| "bad-op".into());
        s.line(l, &r);
        println!("impl  {} -> {}", trunc(l), trunc(&r));
        if toks[0] == "begin" {
            p = Prog::new();
            p.lines.clear();
            resps.clear();
        }
        p.lines.push(l.clone());
        let enc_of = |t: &[&str]| -> Option<Enc> {
            let (sp, key) = spec_of(t[0], t[1], t[2], t[3])?;
            Some(Enc { et: sp.encryption_type, name: sp.key_name, iv: sp.iv, key })
        };
        let note_enc = |p: &mut Prog, e: &Enc| {
            if e.et == 0x53 || e.et == 0x41 {
                p.keys.insert(e.name, e.key);
            }
        };
        let plain_ok = |m: &str| m != "E" && m != "F";
        match toks.as_slice() {
            ["mode", m] => p.mode = ["N", "Z", "4", "E", "F"].into_iter().find(|x| x == m).unwrap_or("N"),
            ["cs", n] => p.cs = n.parse().unwrap_or(0),
            ["enc", et, name, iv, key] => {
                if let Some(e) = enc_of(&[et, name, iv, key]) {
                    note_enc(&mut p, &e);
                    p.enc = Some(e);
                }
            }
            ["noenc"] => p.enc = None,
            ["add", d, _] => {
                let d = unhex(d).unwrap_or_default();
                let e = p.enc.clone();
                let ok = if e.is_some() { p.mode != "F" } else { plain_ok(p.mode) };
                let ch = split(p.cs, &d);
                p.table_for(p.mode, ch.as_deref().unwrap_or(&[]));
                p.shape.push("add");
                p.account(&d, ch, e.as_ref(), ok);
            }
            ["mixed", d, "none", _] => {
                let d = unhex(d).unwrap_or_default();
                let ch = split(p.cs, &d);
                p.table_for(p.mode, ch.as_deref().unwrap_or(&[]));
                p.shape.push("mixed");
                let ok = plain_ok(p.mode);
                p.account(&d, ch, None, ok);
            }
            ["mixed", d, et, name, iv, key, _] => {
                let d = unhex(d).unwrap_or_default();
                if let Some(e) = enc_of(&[et, name, iv, key]) {
                    note_enc(&mut p, &e);
                    let ch = split(p.cs, &d);
                    p.table_for(p.mode, ch.as_deref().unwrap_or(&[]));
                    p.shape.push("mixed+enc");
                    let ok = p.mode != "F";
                    p.account(&d, ch, Some(&e), ok);
                }
            }
            ["encdata", d, et, name, iv, key, idx, _] => {
                let d = unhex(d).unwrap_or_default();
                if let Some(e) = enc_of(&[et, name, iv, key]) {
                    note_enc(&mut p, &e);
                    let here = p.plain_chunks.len();
                    let idx: usize = idx.parse().unwrap_or(0);
                    if e.et == 0x53 && (idx as u32) != (here as u32) && p.mode != "F" {
                        p.foreign_index = true;
                    }
                    p.table_for(p.mode, std::slice::from_ref(&d));
                    p.shape.push("encdata");
                    let ok = p.mode != "F";
                    p.account(&d, Some(vec![d.clone()]), Some(&e), ok);
                }
            }
            ["chunk", m, d, _] => {
                let d = unhex(d).unwrap_or_default();
                p.table_for(m, std::slice::from_ref(&d));
                p.shape.push("chunk");
                p.account(&d, Some(vec![d.clone()]), None, plain_ok(m));
            }
            _ => {}
        }
        match toks[0] {
            "begin" | "dec" | "decplain" | "rows" => {}
            "build" => {
                s.case(Some(&p.lines.join("|")));
                if let Some(h) = r.strip_prefix("ok ") {
                    let bytes = unhex(h).unwrap();
                    let tab = tab_str(p.tab.iter());
                    let dl = format!("dec {} {} {}", h, p.keys_str(), tab);
                    let dec = real.run(&dl.split(' ').collect::<Vec<_>>()).unwrap();
                    println!("impl  (oracle) decode with matching keys -> {}", trunc(&dec));
                    let mut q = Prog::new();
                    std::mem::swap(&mut q, &mut p);
                    q.lines.pop();
                    oracle(s, &q, &resps, Some(&bytes), &dec);
                    std::mem::swap(&mut q, &mut p);
                } else {
                    let mut q = Prog::new();
                    std::mem::swap(&mut q, &mut p);
                    q.lines.pop();
                    if !resps.iter().any(|r| r != "ok") && !q.plain_chunks.is_empty() {
                        s.oracle_fail("build-fails", &format!("build returned {r}"), &q.lines);
                    }
                    oracle(s, &q, &resps, None, "");
                    std::mem::swap(&mut q, &mut p);
                }
            }
            _ => resps.push(r),
        }
    }
}

fn main() {
    let args = Args::parse();
    quiet_panics();
    let mut s = Session::new(&args.out);
    s.rule = "seeded builder programs of 1..8 calls over {with_compression N/Z/4/E/F, with_chunk_size_unchecked 0/1/2/3/5/16/64/1024/default, with_encryption / without_encryption, add_data, add_mixed_data(None|Some), add_encrypted_data(index = position | foreign), add_chunk(ChunkData::new)} with Salsa20 / ARC4 / unknown cipher types, payload lengths 0, 1, cs-1, cs, cs+1, 2cs, 2cs+1, 3cs+r, random, first byte forced to N/Z/4/E/F in a third of them, constant / periodic / random content; plus an exhaustive sweep of one- and two-call programs over {add_data, add_mixed_data, add_encrypted_data, add_chunk}^2 x payload lengths {0,1,cs-1,cs,cs+1,2cs,2cs+1} x modes x {plain, Salsa20, ARC4}; non-trivial = every call succeeded, build produced a container with >= 1 chunk and it was decoded; distinct = canonical text of the whole program".into();
    let mut rng = Rng::new(args.seed);

    if let Some(p) = &args.replay {
        let lines = read_case(p);
        replay(&mut s, &lines);
        s.finish();
        return;
    }

    let pool: Vec<(u64, [u8; 16])> = vec![
        (0x1234_5678_90AB_CDEF, rng.bytes(16).try_into().unwrap()),
        (0, rng.bytes(16).try_into().unwrap()),
        (u64::MAX, rng.bytes(16).try_into().unwrap()),
        (0xFA50_5078_126A_CB3E, rng.bytes(16).try_into().unwrap()),
    ];

    // exhaustive two-call programs over payload classes x modes x encryption (boundary sweep)
    let cs = 4usize;
    let lens = [0usize, 1, 3, 4, 5, 8, 9];
    let firsts = [b'N', b'E', 0x00];
    let encs: [Option<u8>; 3] = [None, Some(0x53), Some(0x41)];
    let calls = ["add", "mixed", "encdata", "chunk"];
    let modes: &[&'static str] = if args.thorough() { &["N", "Z", "4"] } else { &["N", "Z"] };
    for &m in modes {
        for e in encs {
            for c1 in calls {
                for c2 in ["add", "mixed", "encdata", "chunk", "-"] {
                    for &l1 in &lens {
                        for &l2 in &lens {
                            // "-" = one-call program (single chunk / single encrypted chunk headers)
                            if c2 == "-" && l2 != 0 {
                                continue;
                            }
                            if !args.thorough() && (l1 + l2) % 3 == 1 && l1 != 0 && l2 != 0 {
                                continue;
                            }
                            let mut p = Prog::new();
                            p.mode = m;
                            p.cs = cs;
                            p.lines.push(format!("mode {m}"));
                            p.lines.push(format!("cs {cs}"));
                            if let Some(et) = e {
                                let en = Enc { et, name: pool[0].0, iv: [1, 2, 3, 4], key: pool[0].1 };
                                p.keys.insert(en.name, en.key);
                                p.lines.push(format!("enc {}", en.toks()));
                                p.enc = Some(en);
                            }
                            for (c, l) in [(c1, l1), (c2, l2)] {
                                if c == "-" {
                                    continue;
                                }
                                let mut d: Vec<u8> = (0..l).map(|i| (i as u8).wrapping_mul(37).wrapping_add(l as u8)).collect();
                                if l > 0 {
                                    d[0] = *rng.pick(&firsts);
                                }
                                let en = p.enc.clone();
                                match c {
                                    "add" => {
                                        let ch = split(p.cs, &d);
                                        let tab = p.table_for(p.mode, ch.as_deref().unwrap_or(&[]));
                                        p.lines.push(format!("add {} {}", hex(&d), tab));
                                        p.shape.push("add");
                                        p.account(&d, ch, en.as_ref(), true);
                                    }
                                    "mixed" => {
                                        let ch = split(p.cs, &d);
                                        let tab = p.table_for(p.mode, ch.as_deref().unwrap_or(&[]));
                                        match &en {
                                            Some(x) => p.lines.push(format!("mixed {} {} {}", hex(&d), x.toks(), tab)),
                                            None => p.lines.push(format!("mixed {} none {}", hex(&d), tab)),
                                        }
                                        p.shape.push("mixed");
                                        p.account(&d, ch, en.as_ref(), true);
                                    }
                                    "encdata" => {
                                        let x = en.clone().unwrap_or(Enc { et: 0x53, name: pool[1].0, iv: [9, 8, 7, 6], key: pool[1].1 });
                                        p.keys.insert(x.name, x.key);
                                        let here = p.plain_chunks.len();
                                        let tab = p.table_for(p.mode, std::slice::from_ref(&d));
                                        p.lines.push(format!("encdata {} {} {} {}", hex(&d), x.toks(), here, tab));
                                        p.shape.push("encdata");
                                        p.account(&d, Some(vec![d.clone()]), Some(&x), true);
                                    }
                                    _ => {
                                        let tab = p.table_for(p.mode, std::slice::from_ref(&d));
                                        p.lines.push(format!("chunk {} {} {}", p.mode, hex(&d), tab));
                                        p.shape.push("chunk");
                                        p.account(&d, Some(vec![d.clone()]), None, true);
                                    }
                                }
                            }
                            s.tally("sweep.two-call");
                            run_prog(&mut s, &p);
                        }
                    }
                }
            }
        }
    }

    // seeded random programs
    let n_prog = if args.thorough() { 20000 } else { 1500 };
    for k in 0..n_prog {
        let mut p = Prog::new();
        let max = if k % 100 == 0 { 3000 } else if k % 7 == 0 { 400 } else { 48 };
        // most programs fix a small chunk size and a mode first, so boundaries are reached
        if rng.chance(9, 10) {
            p.cs = *rng.pick(&[1usize, 2, 3, 5, 5, 16, 64, 64, 1024]);
            p.lines.push(format!("cs {}", p.cs));
        }
        if rng.chance(2, 3) {
            p.mode = *rng.pick(&["N", "Z", "4"]);
            p.lines.push(format!("mode {}", p.mode));
        }
        if rng.chance(1, 3) {
            let e = p.some_enc(&mut rng, &pool);
            p.lines.push(format!("enc {}", e.toks()));
            p.enc = Some(e);
        }
        let n_ops = rng.range(1, 8);
        for _ in 0..n_ops {
            p.op(&mut rng, &pool, max);
        }
        s.tally("random.program");
        run_prog(&mut s, &p);
    }

    // the default chunk size (private constant 256 KiB): one payload just above it, plain and
    // encrypted, so that the default-path chunking and a 64-byte-block-crossing keystream are hit
    for enc in [false, true] {
        if !args.thorough() && enc {
            continue;
        }
        let mut p = Prog::new();
        if enc {
            let e = Enc { et: 0x53, name: pool[0].0, iv: [7, 7, 7, 7], key: pool[0].1 };
            p.keys.insert(e.name, e.key);
            p.lines.push(format!("enc {}", e.toks()));
            p.enc = Some(e);
        }
        let d = rng.bytes(256 * 1024 + 1);
        let ch = split(p.cs, &d);
        p.lines.push(format!("add {} -", hex(&d)));
        p.shape.push("add");
        let en = p.enc.clone();
        p.account(&d, ch, en.as_ref(), true);
        s.tally("default-chunk-size.program");
        run_prog(&mut s, &p);
    }
    s.finish();
}
