//! C07 — integrity checks reject every corruption of what they protect.
//!
//! K: every acceptor of the anchored code (EncodingFile::parse, ArchiveIndex::parse /
//! ChunkedArchiveIndex::open, lru_file::deserialize, UpdateSection::from_bytes +
//! UpdateEntry::validate_hash_guard, LocalHeader::validate_checksums, SegmentHeader::from_bytes,
//! parse_v1_mime_response, MultiLayerCacheImpl::{put,get}_with_validation,
//! ContentAddressedCache::{put,get}_validated) is run on a valid base artifact and on its
//! mutations (bit flips, byte substitutions, truncations, insertions); the Lean model
//! (Model/Integrity with the executable MD5 / SHA-256 / lookup3) answers the same lines.
//! O: a mutation inside the protected region is rejected, or the logical content returned is the
//! base artifact's; a validating read returns only bytes whose MD5 is the requested key and a
//! failed validation leaves the key in no layer — also when the backing store changes between the
//! reads of ONE call (`cagetf`: harness-owned inner cache; `getvf`: the disk layer's file rewritten at
//! the verif-hooks schedule points inside DiskCache::get). Every comparison is equality: all byte
//! values at every stored-digest position and fold-cancelling byte pairs (`sub2`); IndexFooter::
//! is_valid is also observed by itself (`fvalid`). V1: an input whose LAST `Checksum: ` line is
//! well-formed is accepted only with exactly that line's digits, which are SHA-256 of all bytes
//! before the line (own SHA-256) — whatever the protected bytes contain.
use bytes::Bytes;
use cascette_cache::config::{DiskCacheConfig, MemoryCacheConfig, MultiLayerCacheConfig};
use cascette_cache::disk_cache::DiskCache;
use cascette_cache::key::{BlteBlockKey, ContentCacheKey};
use cascette_cache::multi_layer::MultiLayerCacheImpl;
use cascette_cache::ngdp::ContentAddressedCache;
use cascette_cache::traits::{AsyncCache, MultiLayerCache};
use cascette_cache::{CacheResult, CacheStats};
use cascette_cache::validation::{Md5ValidationHooks, NgdpValidationHooks};
use cascette_client_storage::index::ArchiveLocation;
use cascette_client_storage::index::update::{UpdateEntry, UpdateSection, UpdateStatus};
use cascette_client_storage::lru::lru_file::{self, LruFileEntry, LruFileHeader};
use cascette_client_storage::storage::local_header::LocalHeader;
use cascette_client_storage::storage::segment::SegmentHeader;
use cascette_crypto::{ContentKey, EncodingKey};
use cascette_formats::archive::{ArchiveError, ArchiveIndex, ArchiveIndexBuilder, ChunkedArchiveIndex, IndexFooter};
use cascette_formats::encoding::{CKeyEntryData, EKeyEntryData, EncodingBuilder, EncodingError, EncodingFile};
use cascette_protocol::mime_parser::parse_v1_mime_response;
use std::io::Cursor;
use std::panic::AssertUnwindSafe;
use std::sync::atomic::{AtomicUsize, Ordering};
use std::sync::{Arc, Mutex};
use verif_harness::*;

/// `Md5ValidationHooks::should_skip_validation`: `data_size > 100 MiB` (a private const in the crate;
/// the `big` lines below tie it: exactly this size is validated, one byte more is not).
const SKIP_ABOVE: usize = 100 * 1024 * 1024;

// ---------------------------------------------------------------- small helpers

fn fold32(acc: u64, xs: &[u64]) -> u64 {
    xs.iter().fold(acc, |a, x| (a * 31 + x) % 4_294_967_296)
}

fn sha256(msg: &[u8]) -> [u8; 32] {
    const K: [u32; 64] = [
        0x428a2f98, 0x71374491, 0xb5c0fbcf, 0xe9b5dba5, 0x3956c25b, 0x59f111f1, 0x923f82a4, 0xab1c5ed5, 0xd807aa98, 0x12835b01,
        0x243185be, 0x550c7dc3, 0x72be5d74, 0x80deb1fe, 0x9bdc06a7, 0xc19bf174, 0xe49b69c1, 0xefbe4786, 0x0fc19dc6, 0x240ca1cc,
        0x2de92c6f, 0x4a7484aa, 0x5cb0a9dc, 0x76f988da, 0x983e5152, 0xa831c66d, 0xb00327c8, 0xbf597fc7, 0xc6e00bf3, 0xd5a79147,
        0x06ca6351, 0x14292967, 0x27b70a85, 0x2e1b2138, 0x4d2c6dfc, 0x53380d13, 0x650a7354, 0x766a0abb, 0x81c2c92e, 0x92722c85,
        0xa2bfe8a1, 0xa81a664b, 0xc24b8b70, 0xc76c51a3, 0xd192e819, 0xd6990624, 0xf40e3585, 0x106aa070, 0x19a4c116, 0x1e376c08,
        0x2748774c, 0x34b0bcb5, 0x391c0cb3, 0x4ed8aa4a, 0x5b9cca4f, 0x682e6ff3, 0x748f82ee, 0x78a5636f, 0x84c87814, 0x8cc70208,
        0x90befffa, 0xa4506ceb, 0xbef9a3f7, 0xc67178f2,
    ];
    let mut h: [u32; 8] = [0x6a09e667, 0xbb67ae85, 0x3c6ef372, 0xa54ff53a, 0x510e527f, 0x9b05688c, 0x1f83d9ab, 0x5be0cd19];
    let mut p = msg.to_vec();
    p.push(0x80);
    while p.len() % 64 != 56 {
        p.push(0);
    }
    p.extend_from_slice(&((msg.len() as u64) * 8).to_be_bytes());
    for blk in p.chunks(64) {
        let mut w = [0u32; 64];
        for i in 0..16 {
            w[i] = u32::from_be_bytes([blk[4 * i], blk[4 * i + 1], blk[4 * i + 2], blk[4 * i + 3]]);
        }
        for i in 16..64 {
            let s0 = w[i - 15].rotate_right(7) ^ w[i - 15].rotate_right(18) ^ (w[i - 15] >> 3);
            let s1 = w[i - 2].rotate_right(17) ^ w[i - 2].rotate_right(19) ^ (w[i - 2] >> 10);
            w[i] = w[i - 16].wrapping_add(s0).wrapping_add(w[i - 7]).wrapping_add(s1);
        }
        let mut v = h;
        for i in 0..64 {
            let s1 = v[4].rotate_right(6) ^ v[4].rotate_right(11) ^ v[4].rotate_right(25);
            let ch = (v[4] & v[5]) ^ (!v[4] & v[6]);
            let t1 = v[7].wrapping_add(s1).wrapping_add(ch).wrapping_add(K[i]).wrapping_add(w[i]);
            let s0 = v[0].rotate_right(2) ^ v[0].rotate_right(13) ^ v[0].rotate_right(22);
            let maj = (v[0] & v[1]) ^ (v[0] & v[2]) ^ (v[1] & v[2]);
            let t2 = s0.wrapping_add(maj);
            v = [t1.wrapping_add(t2), v[0], v[1], v[2], v[3].wrapping_add(t1), v[4], v[5], v[6]];
        }
        for i in 0..8 {
            h[i] = h[i].wrapping_add(v[i]);
        }
    }
    let mut out = [0u8; 32];
    for i in 0..8 {
        out[4 * i..4 * i + 4].copy_from_slice(&h[i].to_be_bytes());
    }
    out
}

// ---------------------------------------------------------------- evaluation of one artifact

/// outcome of one acceptor call on the real code
struct Eval {
    resp: String,
    /// the load/validate accepted the bytes as good
    accepted: bool,
    /// logical content derived from the protected bytes (compared with the base artifact's)
    content: String,
    /// second-level observation: per-record validity etc. (kind specific)
    aux: String,
    /// follow-up request lines emitted after this one (`fields`, `fvalid`, `v1ck`, `encmap`) with their responses
    follow: Vec<(String, String)>,
}

fn ev(resp: impl Into<String>, accepted: bool, content: impl Into<String>) -> Eval {
    Eval { resp: resp.into(), accepted, content: content.into(), aux: String::new(), follow: vec![] }
}

fn eval_enc(d: &[u8]) -> Eval {
    match catch(AssertUnwindSafe(|| EncodingFile::parse(d))) {
        Err(_) => ev("panic", false, ""),
        Ok(Ok(f)) => {
            let mut c = String::new();
            for p in &f.ckey_pages {
                for e in &p.entries {
                    c.push_str(&format!("C{}:{}:", hex(e.content_key.as_bytes()), e.file_size));
                    for k in &e.encoding_keys {
                        c.push_str(&hex(k.as_bytes()));
                        c.push(',');
                    }
                    c.push(';');
                }
                c.push('|');
            }
            for p in &f.ekey_pages {
                for e in &p.entries {
                    c.push_str(&format!("E{}:{}:{};", hex(e.encoding_key.as_bytes()), e.espec_index, e.file_size));
                }
                c.push('|');
            }
            let mut e = ev(format!("ok c={} e={}", f.ckey_count(), f.ekey_count()), true, c);
            // what the REAL parser read as index entries and page bytes, in file order: rolling
            // digest of (first key, stored checksum, MD5 of `original_data`) per page; the model
            // computes the same from the input bytes at ITS offsets (Enc.layout / pageMap)
            let mut x = 7u64;
            let own = protected_ranges("enc", d);
            let own_pages: Vec<(usize, usize)> = own.iter().filter(|(lo, hi)| hi - lo != 16).copied().collect();
            let mut aux = String::new();
            let tables: [(&[cascette_formats::encoding::IndexEntry], Vec<&[u8]>, Option<&(usize, usize)>, usize); 2] = [
                (&f.ckey_index, f.ckey_pages.iter().map(|p| p.original_data.as_slice()).collect(), own_pages.first(), f.header.ckey_page_size()),
                (&f.ekey_index, f.ekey_pages.iter().map(|p| p.original_data.as_slice()).collect(), own_pages.get(1), f.header.ekey_page_size()),
            ];
            for (index, pages, own_range, ps) in tables {
                for (i, ie) in index.iter().enumerate() {
                    let page = pages.get(i).copied().unwrap_or(&[]);
                    let digest = md5::compute(page).0;
                    let mut v: Vec<u64> = ie.first_key.iter().map(|b| u64::from(*b)).collect();
                    v.extend(ie.checksum.iter().map(|b| u64::from(*b)));
                    v.extend(digest.iter().map(|b| u64::from(*b)));
                    x = fold32(x, &v);
                    // O: an accepted table has EVERY page verified — the page bytes handed out are the
                    // input bytes at the documented offset and hash to the stored checksum
                    let at_own = own_range.and_then(|(lo, hi)| d.get(lo + i * ps..(lo + (i + 1) * ps).min(*hi)));
                    aux.push(if digest == ie.checksum && at_own == Some(page) { '1' } else { '0' });
                }
                aux.push('|');
            }
            e.aux = aux;
            e.follow.push(("encmap".into(), format!("ok ck={} ek={} especs={} x={x}", f.ckey_index.len(), f.ekey_index.len(), f.espec_table.entries.len())));
            e
        }
        Ok(Err(e)) => {
            let cls = match e {
                EncodingError::ChecksumMismatch => "err:checksum",
                EncodingError::InvalidMagic(_) => "err:magic",
                EncodingError::UnsupportedVersion(_)
                | EncodingError::InvalidFlags(_)
                | EncodingError::InvalidHashSize { .. }
                | EncodingError::InvalidPageSize(_)
                | EncodingError::InvalidPageCount { .. }
                | EncodingError::InvalidESpecBlockSize(_) => "err:header",
                EncodingError::EmptyESpec | EncodingError::UnterminatedESpec | EncodingError::InvalidESpec(_) => "err:espec",
                EncodingError::Io(_) => "err:io",
                EncodingError::BinRw(_) => "err:binrw",
                _ => "err:other",
            };
            let mut e = ev(cls, false, "");
            e.follow.push(("encmap".into(), "rejected".into()));
            e
        }
    }
}

fn aidx_class(e: &ArchiveError) -> &'static str {
    match e {
        ArchiveError::ChecksumMismatch { .. } => "err:checksum",
        ArchiveError::UnsupportedVersion(_) | ArchiveError::InvalidFormat(_) => "err:format",
        ArchiveError::FileSizeMismatch { .. } => "err:size",
        ArchiveError::IoError(_) => "err:io",
        // everything after the footer stage (unsorted entries, TOC consistency …)
        _ => "pass",
    }
}

/// `IndexFooter::is_valid` BY ITSELF on the last 28 bytes of the file, read field by field into the
/// public struct exactly as `ArchiveIndex::parse` does for a footer with 8 hash bytes: what the
/// hash comparison alone says, whatever `validate_format` / `validate_file_size` think afterwards
fn footer_valid(d: &[u8]) -> String {
    if d.len() < 28 {
        return "short".into();
    }
    let f = &d[d.len() - 28..];
    let ft = IndexFooter {
        toc_hash: f[0..8].try_into().unwrap(),
        version: f[8],
        reserved: [f[9], f[10]],
        page_size_kb: f[11],
        offset_bytes: f[12],
        size_bytes: f[13],
        ekey_length: f[14],
        footer_hash_bytes: f[15],
        element_count: u32::from_le_bytes(f[16..20].try_into().unwrap()),
        footer_hash: f[20..28].to_vec(),
    };
    match catch(AssertUnwindSafe(|| ft.is_valid())) {
        Ok(true) => "valid=1".into(),
        Ok(false) => "valid=0".into(),
        Err(_) => "panic".into(),
    }
}

fn eval_aidx(d: &[u8]) -> Eval {
    let fv = footer_valid(d);
    let mut e = match catch(AssertUnwindSafe(|| ArchiveIndex::parse(Cursor::new(d)))) {
        Err(_) => ev("panic", false, ""),
        Ok(Ok(ix)) => {
            let f = &ix.footer;
            let fields = format!("v={} ob={} ekl={} cnt={}", f.version, f.offset_bytes, f.ekey_length, f.element_count);
            let content = format!("{fields} ps={} sb={} hb={} res={:?}", f.page_size_kb, f.size_bytes, f.footer_hash_bytes, f.reserved);
            let mut e = ev("pass", true, content);
            e.follow.push(("fields".into(), fields));
            e
        }
        Ok(Err(e)) => ev(aidx_class(&e), false, ""),
    };
    e.follow.push(("fvalid".into(), fv.clone()));
    e.aux = fv;
    e
}

fn eval_aidxc(d: &[u8], dir: &std::path::Path) -> Eval {
    let p = dir.join("x.index");
    std::fs::write(&p, d).expect("write tmp index");
    let fv = footer_valid(d);
    let mut e = match catch(AssertUnwindSafe(|| ChunkedArchiveIndex::open(&p))) {
        Err(_) => ev("panic", false, ""),
        // the struct's fields are private: acceptance is the only observable
        Ok(Ok(_)) => ev("pass", true, "-"),
        Ok(Err(e)) => ev(aidx_class(&e), false, ""),
    };
    e.follow.push(("fvalid".into(), fv.clone()));
    e.aux = fv;
    e
}

fn eval_lru(d: &[u8]) -> Eval {
    match catch(AssertUnwindSafe(|| lru_file::deserialize(d))) {
        Err(_) => ev("panic", false, ""),
        Ok(None) => ev("none", false, ""),
        Ok(Some((h, es))) => {
            let mut x = 7u64;
            let mut c = format!("{}:{}:{}:", h.version, h.mru_head, h.lru_tail);
            for e in &es {
                let mut v = vec![u64::from(e.prev), u64::from(e.next)];
                v.extend(e.ekey.iter().map(|b| u64::from(*b)));
                v.push(u64::from(e.flags));
                x = fold32(x, &v);
                c.push_str(&format!("{}:{}:{}:{};", e.prev, e.next, hex(&e.ekey), e.flags));
            }
            ev(format!("ok v={} h={} t={} n={} x={}", h.version, h.mru_head, h.lru_tail, es.len(), x), true, c)
        }
    }
}

fn upd_fields(e: &UpdateEntry) -> String {
    format!("{}:{}:{}:{}:{}", hex(&e.ekey), e.archive_location.archive_id, e.archive_location.archive_offset, e.encoded_size, e.status as u8)
}

fn eval_upd(d: &[u8]) -> Eval {
    match catch(AssertUnwindSafe(|| {
        let s = UpdateSection::from_bytes(d);
        let es: Vec<UpdateEntry> = s.all_entries().cloned().collect();
        es
    })) {
        Err(_) => ev("panic", false, ""),
        Ok(es) => {
            let mut x = 7u64;
            let mut bad = 0;
            let mut c = String::new();
            let mut aux = String::new();
            for e in &es {
                let ok = e.validate_hash_guard();
                if !ok {
                    bad += 1;
                }
                let mut v = vec![u64::from(e.hash_guard)];
                v.extend(e.ekey.iter().map(|b| u64::from(*b)));
                v.extend([u64::from(e.archive_location.archive_id), u64::from(e.archive_location.archive_offset), u64::from(e.encoded_size), e.status as u64]);
                x = fold32(x, &v);
                c.push_str(&upd_fields(e));
                c.push(';');
                aux.push(if ok { '1' } else { '0' });
            }
            // the load never fails: it "accepts" whatever it returns
            let mut r = ev(format!("n={} bad={} x={}", es.len(), bad, x), true, c);
            r.aux = aux;
            r
        }
    }
}

fn eval_lhdr(d: &[u8], base_offset: usize) -> Eval {
    match catch(AssertUnwindSafe(|| LocalHeader::from_bytes(d).map(|h| (h.validate_checksums(base_offset), h)))) {
        Err(_) => ev("panic", false, ""),
        Ok(None) => ev("none", false, ""),
        Ok(Some((valid, h))) => {
            let c = format!("{}:{}:{}", hex(&h.original_encoding_key()), h.size_with_header, h.flags);
            ev(format!("valid={} key={} size={} flags={}", u8::from(valid), hex(&h.original_encoding_key()), h.size_with_header, h.flags), valid, c)
        }
    }
}

fn eval_seg(d: &[u8]) -> Eval {
    match catch(AssertUnwindSafe(|| SegmentHeader::from_bytes(d))) {
        Err(_) => ev("panic", false, ""),
        Ok(None) => ev("none", false, ""),
        Ok(Some(s)) => {
            let mut x = 7u64;
            let mut bad = 0;
            let mut c = String::new();
            let mut aux = String::new();
            for i in 0..16u8 {
                let h = s.bucket_header(i);
                let ok = h.validate_checksums(usize::from(i) * 30);
                if !ok {
                    bad += 1;
                }
                aux.push(if ok { '1' } else { '0' });
                let b = h.to_bytes();
                x = fold32(x, &b[..22].iter().map(|v| u64::from(*v)).collect::<Vec<_>>());
                c.push_str(&format!("{}:{}:{};", hex(&h.original_encoding_key()), h.size_with_header, h.flags));
            }
            let mut r = ev(format!("ok bad={bad} x={x}"), true, c);
            r.aux = aux;
            r
        }
    }
}

fn eval_v1(d: &[u8]) -> Eval {
    match catch(AssertUnwindSafe(|| parse_v1_mime_response(d))) {
        Err(_) => ev("panic", false, ""),
        Ok(Ok(r)) => {
            let ck = match &r.checksum {
                Some(c) => hex(c.as_bytes()),
                None => "none".to_string(),
            };
            let mut e = ev("pass", true, r.data.clone());
            e.aux = if r.checksum.is_some() { "checked".into() } else { "unchecked".into() };
            e.follow.push(("v1ck".into(), ck));
            e
        }
        Ok(Err(e)) => {
            let m = e.to_string();
            if m.contains("Checksum validation failed") { ev("err:checksum", false, "") } else { ev("pass", false, "") }
        }
    }
}

// ---------------------------------------------------------------- protected regions (from the BASE artifact)

fn be(d: &[u8]) -> usize {
    d.iter().fold(0usize, |a, b| a * 256 + usize::from(*b))
}

/// byte ranges [lo,hi) of the base artifact that a checksum/hash is supposed to protect
/// (the hashed bytes and the stored digest itself)
fn protected_ranges(kind: &str, d: &[u8]) -> Vec<(usize, usize)> {
    match kind {
        "enc" => {
            // pages + the checksum half of every index entry
            let mut v = vec![];
            if d.len() < 22 {
                return v;
            }
            let (ckkb, ekkb, ckc, ekc, es) = (be(&d[5..7]), be(&d[7..9]), be(&d[9..13]), be(&d[13..17]), be(&d[18..22]));
            let off2 = 22 + es;
            for i in 0..ckc {
                v.push((off2 + 32 * i + 16, off2 + 32 * i + 32));
            }
            let off3 = off2 + 32 * ckc;
            v.push((off3, off3 + ckc * ckkb * 1024));
            let off4 = off3 + ckc * ckkb * 1024;
            for i in 0..ekc {
                v.push((off4 + 32 * i + 16, off4 + 32 * i + 32));
            }
            let off5 = off4 + 32 * ekc;
            v.push((off5, off5 + ekc * ekkb * 1024));
            v
        }
        // footer fields [8,20) of the 28-byte footer and the 8 hash bytes; the TOC hash is not
        // covered by the footer hash and is not verified on parse (documented in the crate)
        "aidx" | "aidxc" => {
            if d.len() >= 28 { vec![(d.len() - 20, d.len())] } else { vec![] }
        }
        "lru" | "lhdr" | "seg" => vec![(0, d.len())],
        // used slots: guard + hashed bytes [0,23) of each 24-byte slot (byte 23 is padding)
        "upd" => {
            let mut v = vec![];
            let mut page = 0;
            'outer: while page + 512 <= d.len() {
                if d[page..page + 4] == [0, 0, 0, 0] {
                    break;
                }
                let mut o = page;
                while o + 24 <= page + 512 {
                    if d[o..o + 4] == [0, 0, 0, 0] {
                        break 'outer;
                    }
                    v.push((o, o + 23));
                    o += 24;
                }
                page += 512;
            }
            v
        }
        // message bytes and the checksum line
        "v1" => vec![(0, d.len())],
        _ => vec![],
    }
}

/// the stored digest fields inside the protected ranges
fn stored_ranges(kind: &str, d: &[u8]) -> Vec<(usize, usize)> {
    match kind {
        "enc" => protected_ranges(kind, d).into_iter().filter(|(lo, hi)| hi - lo == 16).collect(),
        "aidx" | "aidxc" if d.len() >= 28 => vec![(d.len() - 8, d.len())],
        "lru" if d.len() >= 20 => vec![(4, 20)],
        // the 64 hex digits after the last "Checksum: "
        "v1" => match d.windows(10).rposition(|w| w == b"Checksum: ") {
            Some(p) => vec![(p + 10, (p + 74).min(d.len()))],
            None => vec![],
        },
        _ => vec![],
    }
}

/// The documented rule of the V1 epilogue, restated independently of the crate: the LAST
/// `Checksum: ` in the input starts the checksum line; the line is well-formed iff what follows up
/// to the next `\n` (or the end of the input), less one trailing `\r`, is exactly 64 ASCII hex
/// digits. Returns (position of that last occurrence, the 64 digits when well-formed).
fn v1_last_line(d: &[u8]) -> Option<(usize, Option<&[u8]>)> {
    let p = d.windows(10).rposition(|w| w == b"Checksum: ")?;
    let rest = &d[p + 10..];
    let mut line = match rest.iter().position(|b| *b == b'\n') {
        Some(i) => &rest[..i],
        None => rest,
    };
    if line.last() == Some(&b'\r') {
        line = &line[..line.len() - 1];
    }
    let ok = line.len() == 64 && line.iter().all(u8::is_ascii_hexdigit);
    Some((p, if ok { Some(line) } else { None }))
}

/// positions of every `Checksum: ` in the input
fn v1_occurrences(d: &[u8]) -> Vec<usize> {
    (0..d.len().saturating_sub(9)).filter(|i| &d[*i..*i + 10] == b"Checksum: ").collect()
}

fn in_ranges(r: &[(usize, usize)], p: usize) -> bool {
    r.iter().any(|(lo, hi)| *lo <= p && p < *hi)
}

// ---------------------------------------------------------------- caches

/// One planned misbehaviour of the backing store during a single validating call: at the `n`-th
/// read of `key` made by that call the store answers `alt` (`None` = the entry is gone) instead of
/// what it holds — `put`: the store really is rewritten just before that read (a concurrent put /
/// another process rewriting the DiskCache file / an entry that expired: later reads and later
/// calls see it too); otherwise only that one read is affected (a transient read fault).
struct Fault {
    key: String,
    n: usize,
    put: bool,
    alt: Option<Vec<u8>>,
}

/// Harness-owned `AsyncCache` around the REAL `DiskCache`: `ContentAddressedCache` is generic over
/// its inner cache, so every read it makes of the backing store goes through here, is counted, and
/// can be made to see a store that changed since the previous read of the same call.
struct Faulty {
    inner: DiskCache<BlteBlockKey>,
    fault: Mutex<Option<Fault>>,
    reads: AtomicUsize,
}

type BoxFut<'a, T> = std::pin::Pin<Box<dyn std::future::Future<Output = T> + Send + 'a>>;

// (the expansion of `#[async_trait]`, written out: the harness crate has no async-trait dependency)
impl AsyncCache<BlteBlockKey> for Faulty {
    fn get<'life0, 'life1, 'async_trait>(&'life0 self, key: &'life1 BlteBlockKey) -> BoxFut<'async_trait, CacheResult<Option<Bytes>>>
    where
        'life0: 'async_trait,
        'life1: 'async_trait,
        Self: 'async_trait,
    {
        Box::pin(async move {
            let k = self.reads.fetch_add(1, Ordering::SeqCst) + 1;
            let plan = self.fault.lock().expect("fault plan").as_ref().filter(|f| f.key == key.as_cache_key() && f.n == k).map(|f| (f.put, f.alt.clone()));
            if let Some((put, alt)) = plan {
                if !put {
                    return Ok(alt.map(Bytes::from));
                }
                match alt {
                    Some(b) => self.inner.put(key.clone(), Bytes::from(b)).await?,
                    None => {
                        self.inner.remove(key).await?;
                    }
                }
            }
            self.inner.get(key).await
        })
    }
    fn put<'life0, 'async_trait>(&'life0 self, key: BlteBlockKey, value: Bytes) -> BoxFut<'async_trait, CacheResult<()>>
    where
        'life0: 'async_trait,
        Self: 'async_trait,
    {
        Box::pin(async move { self.inner.put(key, value).await })
    }
    fn put_with_ttl<'life0, 'async_trait>(&'life0 self, key: BlteBlockKey, value: Bytes, ttl: std::time::Duration) -> BoxFut<'async_trait, CacheResult<()>>
    where
        'life0: 'async_trait,
        Self: 'async_trait,
    {
        Box::pin(async move { self.inner.put_with_ttl(key, value, ttl).await })
    }
    fn contains<'life0, 'life1, 'async_trait>(&'life0 self, key: &'life1 BlteBlockKey) -> BoxFut<'async_trait, CacheResult<bool>>
    where
        'life0: 'async_trait,
        'life1: 'async_trait,
        Self: 'async_trait,
    {
        Box::pin(async move { self.inner.contains(key).await })
    }
    fn remove<'life0, 'life1, 'async_trait>(&'life0 self, key: &'life1 BlteBlockKey) -> BoxFut<'async_trait, CacheResult<bool>>
    where
        'life0: 'async_trait,
        'life1: 'async_trait,
        Self: 'async_trait,
    {
        Box::pin(async move { self.inner.remove(key).await })
    }
    fn clear<'life0, 'async_trait>(&'life0 self) -> BoxFut<'async_trait, CacheResult<()>>
    where
        'life0: 'async_trait,
        Self: 'async_trait,
    {
        Box::pin(async move { self.inner.clear().await })
    }
    fn stats<'life0, 'async_trait>(&'life0 self) -> BoxFut<'async_trait, CacheResult<CacheStats>>
    where
        'life0: 'async_trait,
        Self: 'async_trait,
    {
        Box::pin(async move { self.inner.stats().await })
    }
    fn size<'life0, 'async_trait>(&'life0 self) -> BoxFut<'async_trait, CacheResult<usize>>
    where
        'life0: 'async_trait,
        Self: 'async_trait,
    {
        Box::pin(async move { self.inner.size().await })
    }
}

struct Caches {
    rt: tokio::runtime::Runtime,
    _dir: tempfile::TempDir,
    ml: MultiLayerCacheImpl<ContentCacheKey>,
    layers: usize,
    disk_dir: std::path::PathBuf,
    ca: ContentAddressedCache<Faulty>,
    ca_store: Arc<Faulty>,
    ca_dir: std::path::PathBuf,
    hooks: bool,
}

impl Caches {
    fn new(hooks: bool, layers: usize) -> Option<Caches> {
        if layers == 0 || layers > 2 {
            return None;
        }
        let rt = tokio::runtime::Builder::new_current_thread().enable_all().build().expect("rt");
        let dir = tempfile::tempdir().expect("tempdir");
        let disk_dir = dir.path().join("l2");
        let ca_dir = dir.path().join("ca");
        let mut cfg = MultiLayerCacheConfig::new().add_memory_layer(MemoryCacheConfig::new().with_max_entries(100_000).with_max_memory(1 << 31));
        if layers == 2 {
            cfg = cfg.add_disk_layer(DiskCacheConfig::new(disk_dir.clone()).with_subdirectories(false, 0));
        }
        let (ml, ca, ca_store) = rt.block_on(async {
            let mut ml = MultiLayerCacheImpl::<ContentCacheKey>::new(cfg).expect("multi-layer cache");
            if hooks {
                ml.set_validation_hooks(Some(Arc::new(Md5ValidationHooks::new())));
            }
            let inner = Arc::new(Faulty { inner: DiskCache::<BlteBlockKey>::new(DiskCacheConfig::new(ca_dir.clone()).with_subdirectories(false, 0)).expect("disk cache"), fault: Mutex::new(None), reads: AtomicUsize::new(0) });
            (ml, ContentAddressedCache::new(inner.clone(), Arc::new(NgdpValidationHooks::new())), inner)
        });
        Some(Caches { rt, _dir: dir, ml, layers, disk_dir, ca, ca_store, ca_dir, hooks })
    }
}

fn key16(b: &[u8]) -> Option<[u8; 16]> {
    b.try_into().ok()
}

// ---------------------------------------------------------------- interpreter (generation and replay share it)

struct Interp {
    kind: String,
    param: usize,
    base: Vec<u8>,
    base_eval: Option<Eval>,
    prot: Vec<(usize, usize)>,
    case_lines: Vec<String>,
    tmp: tempfile::TempDir,
    caches: Option<Caches>,
    /// what `putv`/`caput` stored with a matching key, for the liveness half of the oracle
    accepted_any: bool,
}

enum Mutation {
    None,
    At(usize),
    /// two bytes substituted at once (differences that cancel under XOR / sum / difference folds)
    At2(usize, usize),
    Trunc(usize),
    Ins(usize),
}

impl Interp {
    fn new() -> Interp {
        Interp { kind: String::new(), param: 0, base: vec![], base_eval: None, prot: vec![], case_lines: vec![], tmp: tempfile::tempdir().expect("tmp"), caches: None, accepted_any: false }
    }

    fn eval(&self, d: &[u8]) -> Eval {
        match self.kind.as_str() {
            "enc" => eval_enc(d),
            "aidx" => eval_aidx(d),
            "aidxc" => eval_aidxc(d, self.tmp.path()),
            "lru" => eval_lru(d),
            "upd" => eval_upd(d),
            "lhdr" => eval_lhdr(d, self.param),
            "seg" => eval_seg(d),
            "v1" => eval_v1(d),
            _ => ev("bad-op", false, ""),
        }
    }

    /// the property's oracle on one mutated artifact
    fn oracle(&mut self, s: &mut Session, m: &Mutation, d: &[u8], e: &Eval) {
        // file-level checks (hold for the base artifact too)
        {
            let mut replay = self.case_lines.clone();
            if matches!(m, Mutation::None) && replay.len() == 1 {
                replay.push("load".into());
            }
            match self.kind.as_str() {
                "aidx" | "aidxc" if e.accepted && d.len() >= 13 && d[d.len() - 13] < 8 => {
                    s.oracle_fail("aidx-footer-hash-bytes-lt-8-accepted", &format!("footer accepted although the hash-size byte at End(-13) is {} (fewer than 8 hash bytes compared)", d[d.len() - 13]), &replay);
                    return;
                }
                "enc" if e.accepted && e.aux.contains('0') => {
                    s.oracle_fail("enc-accepted-page-not-verified", &format!("EncodingFile::parse accepted a table in which a page does not hash to its index checksum (or the page bytes handed out are not the input bytes at the documented offset): per-page verdicts {}", e.aux), &replay);
                    return;
                }
                "upd" if matches!(m, Mutation::None) && e.aux.contains('0') => {
                    s.oracle_fail("load-ignores-update-guard", &format!("UpdateSection::from_bytes returned entries that fail validate_hash_guard (validity {})", e.aux), &replay);
                }
                "seg" if matches!(m, Mutation::None) && e.accepted && e.aux.contains('0') => {
                    s.oracle_fail("load-ignores-local-header-checksums", &format!("SegmentHeader::from_bytes returned bucket headers that fail validate_checksums (validity {})", e.aux), &replay);
                }
                // "the LAST `Checksum: ` line governs and covers everything before it" on the
                // implementation alone: an input whose last `Checksum: ` line is well-formed may
                // only be accepted after THAT line's 64 digits were compared with SHA-256 of all
                // bytes before it — whatever the protected bytes themselves contain (earlier
                // occurrences of the text `Checksum: `, well-formed or not)
                "v1" if e.accepted => {
                    if let Some((p, Some(c))) = v1_last_line(d) {
                        let occ = v1_occurrences(d);
                        let shape = format!("{} occurrence(s) of `Checksum: ` at {:?}, the last one (at {p}) is a well-formed line", occ.len(), occ);
                        let used = e.follow.first().map(|f| f.1.clone()).unwrap_or_default();
                        let altered = self.base_eval.as_ref().is_some_and(|b| b.accepted && b.content != e.content);
                        let mut what = if altered { "ALTERED data is returned as good".to_string() } else { "no corruption of the protected bytes can be noticed".to_string() };
                        let mut replay = replay.clone();
                        if matches!(m, Mutation::None) && (e.aux == "unchecked" || used != hex(c)) {
                            // name a failing input in the property's own terms: the first single-bit
                            // corruption of the bytes before the line that comes back as good data
                            for q in 0..p.min(8192) {
                                let mut d2 = d.to_vec();
                                d2[q] ^= 1;
                                let e2 = self.eval(&d2);
                                if e2.accepted && e2.content != e.content {
                                    what = format!("e.g. `flip {}` (byte {q} {:?} -> {:?}, checksum line untouched) returns ALTERED data as good", q * 8, char::from(d[q]), char::from(d2[q]));
                                    replay.push(format!("flip {}", q * 8));
                                    replay.push("v1ck".into());
                                    break;
                                }
                            }
                        }
                        if e.aux == "unchecked" {
                            s.oracle_fail("v1-wellformed-checksum-line-ignored", &format!("accepted UNCHECKED (V1MimeResponse.checksum = None) although the input ends in a well-formed Checksum line: {what}; {shape}"), &replay);
                            return;
                        }
                        if used != hex(c) {
                            s.oracle_fail("v1-last-checksum-line-not-used", &format!("accepted after a check against `{}`, which is not the text of the last Checksum line `{}`: {what}; {shape}", String::from_utf8_lossy(&unhex(&used).unwrap_or_default()), String::from_utf8_lossy(c)), &replay);
                            return;
                        }
                        if hex(&sha256(&d[..p])).as_bytes() != c {
                            s.oracle_fail("v1-checked-digest-mismatch", &format!("accepted as checked although SHA-256 of the {p} bytes before the last Checksum line is not the stated digest (the comparison does not cover the whole protected region / the whole digest); {shape}"), &replay);
                            return;
                        }
                    }
                }
                // … and the same for an input that got PAST the checksum stage and was refused
                // only later (by the MIME parser: e.g. a response that is nothing but its checksum
                // line, protected region = 0 bytes): the stage ran before the parser, so a
                // well-formed last line whose digits are not the SHA-256 of the bytes before it
                // must have ended in a checksum error
                "v1" if !e.accepted && e.resp == "pass" => {
                    if let Some((p, Some(c))) = v1_last_line(d) {
                        if hex(&sha256(&d[..p])).as_bytes() != c {
                            s.oracle_fail("v1-checksum-stage-passed-digest-mismatch", &format!("the input ends in a well-formed Checksum line whose 64 digits are not the SHA-256 of the {p} byte(s) before it, and it is not refused with a checksum error (it got past the checksum stage and was refused later, by the MIME parser): the check is skipped for this protected region"), &replay);
                            return;
                        }
                    }
                }
                _ => {}
            }
        }
        let Some(b) = &self.base_eval else { return };
        if d == self.base.as_slice() {
            return;
        }
        let n = self.base.len();
        let prot_end = self.prot.iter().map(|r| r.1).max().unwrap_or(0);
        let protected = match m {
            Mutation::None => false,
            Mutation::At(p) => in_ranges(&self.prot, *p),
            Mutation::At2(p, q) => in_ranges(&self.prot, *p) || in_ranges(&self.prot, *q),
            Mutation::Trunc(k) => *k < prot_end,
            Mutation::Ins(p) => *p < prot_end || (matches!(self.kind.as_str(), "aidx" | "aidxc") && *p <= n),
        };
        s.tally(&format!("{}:{}", self.kind, if protected { "protected" } else { "unprotected" }));
        if !protected {
            return;
        }
        let replay = self.case_lines.clone();
        // "compared over its full length": a change of one byte of the STORED digest must be
        // rejected — acceptance means that byte is not compared
        if let Mutation::At(p) = m {
            if e.accepted && in_ranges(&stored_ranges(&self.kind, &self.base), *p) {
                if self.kind == "v1" && e.aux == "unchecked" {
                    // reported below / as the fail-open finding
                    if e.content == b.content {
                        s.oracle_fail("v1-checksum-line-lost-unchecked", "a damaged Checksum line is treated as no checksum: the response is accepted unchecked", &replay);
                    }
                } else {
                    s.oracle_fail(&format!("{}-stored-digest-byte-not-compared", self.kind), &format!("changing byte {p} of the stored digest is accepted: {}", e.resp), &replay);
                }
            }
        }
        // … and a change of SEVERAL stored-digest bytes whose differences cancel under an XOR / sum /
        // difference fold must be rejected just the same: acceptance means the comparison folds the
        // byte differences instead of requiring every one of them to be zero
        if let Mutation::At2(p, q) = m {
            let st = stored_ranges(&self.kind, &self.base);
            if e.accepted && in_ranges(&st, *p) && in_ranges(&st, *q) {
                if self.kind == "v1" && e.aux == "unchecked" {
                    if e.content == b.content {
                        s.oracle_fail("v1-checksum-line-lost-unchecked", "a damaged Checksum line is treated as no checksum: the response is accepted unchecked", &replay);
                    }
                } else {
                    s.oracle_fail(&format!("{}-stored-digest-pair-accepted", self.kind), &format!("changing bytes {p} and {q} of the stored digest together ({:02x}->{:02x}, {:02x}->{:02x}: differences that cancel under a fold) is accepted — the comparison is weaker than equality: {}", self.base[*p], d[*p], self.base[*q], d[*q], e.resp), &replay);
                }
            }
        }
        // update entries: a slot whose hashed bytes [4,23) are unchanged validates under ONE guard only
        if self.kind == "upd" {
            let ps: Vec<usize> = match m {
                Mutation::At(p) => vec![*p],
                Mutation::At2(p, q) => vec![*p, *q],
                _ => vec![],
            };
            let mut slots: Vec<usize> = ps.iter().filter(|p| in_ranges(&self.prot, **p) && **p % 512 % 24 < 4).map(|p| p / 512 * 21 + p % 512 / 24).collect();
            slots.dedup();
            for slot in slots {
                let o = slot / 21 * 512 + slot % 21 * 24;
                if d.get(o + 4..o + 23) == self.base.get(o + 4..o + 23) && d.get(o..o + 4) != self.base.get(o..o + 4) && e.aux.chars().nth(slot) == Some('1') && b.aux.chars().nth(slot) == Some('1') {
                    s.oracle_fail("upd-stored-digest-byte-not-compared", &format!("changing the stored hash guard of slot {slot} ({} -> {}) still validates", hex(&self.base[o..o + 4]), hex(&d[o..o + 4])), &replay);
                }
            }
        }
        match self.kind.as_str() {
            "enc" | "lru" => {
                if e.accepted && e.content != b.content {
                    s.oracle_fail(&format!("{}-corruption-accepted", self.kind), &format!("mutated artifact accepted with different content: {}", e.resp), &replay);
                }
            }
            "aidx" | "aidxc" => {
                if e.accepted && e.content != b.content {
                    s.oracle_fail("aidx-footer-corruption-accepted", &format!("mutated footer accepted with different fields: {}", e.content), &replay);
                }
                // the hash comparison BY ITSELF ("or report invalid"): a footer whose hashed fields or
                // stored hash differ from the valid base footer's must not be reported valid by
                // IndexFooter::is_valid, whether or not validate_format / validate_file_size would
                // stop the file afterwards. (Footers whose own size field says < 8 hash bytes are the
                // documented short comparison of is_valid, unreachable through parse/open since 6b0ee35.)
                if matches!(m, Mutation::At(_) | Mutation::At2(..)) && n >= 28 && d.len() == n && b.aux == "valid=1" && e.aux == "valid=1" && d[n - 13] >= 8 && d[n - 20..] != self.base[n - 20..] {
                    s.oracle_fail("aidx-isvalid-accepts-corrupt-footer", &format!("IndexFooter::is_valid reports a corrupted footer valid: fields‖hash {} (valid base: {}); the file-level answer was {}", hex(&d[n - 20..]), hex(&self.base[n - 20..]), e.resp), &replay);
                }
            }
            "upd" => {
                // validate level: a slot whose parsed fields changed must not validate
                let be_: Vec<&str> = b.content.split(';').collect();
                let me: Vec<&str> = e.content.split(';').collect();
                let aux: Vec<char> = e.aux.chars().collect();
                // (the guard covers an entry's content, not its position: an insertion of a whole
                // slot shifts valid entries, so membership in the base list is what is checked)
                for i in 0..me.len() {
                    if !me[i].is_empty() && !be_.contains(&me[i]) && aux.get(i) == Some(&'1') {
                        s.oracle_fail("upd-guard-corruption-validates", &format!("slot {i}: fields {} (not an entry of the base section) pass validate_hash_guard", me[i]), &replay);
                    }
                }
                // load level: the section loader returns altered entries as if good
                if e.content != b.content {
                    s.oracle_fail("load-ignores-update-guard", &format!("UpdateSection::from_bytes returned altered entries without error ({} of them fail validate_hash_guard)", aux.iter().filter(|c| **c == '0').count()), &replay);
                }
            }
            "lhdr" => {
                if e.accepted {
                    s.oracle_fail("lhdr-corruption-validates", &format!("mutated local header passes validate_checksums: {}", e.resp), &replay);
                }
            }
            "seg" => {
                if e.accepted && e.aux.contains('0') && b.aux.chars().all(|c| c == '1') {
                    if e.content != b.content {
                        s.oracle_fail("load-ignores-local-header-checksums", &format!("SegmentHeader::from_bytes returned altered bucket headers without error (validity {})", e.aux), &replay);
                    }
                } else if e.accepted && e.content != b.content {
                    s.oracle_fail("seg-corruption-validates", &format!("altered bucket headers all pass validate_checksums: {}", e.aux), &replay);
                }
            }
            "v1" => {
                if e.accepted && e.content != b.content {
                    if e.aux == "unchecked" {
                        s.oracle_fail("v1-checksum-line-lost-unchecked", "response whose Checksum line was cut off or damaged is parsed without any check and returns altered data", &replay);
                    } else {
                        // the mutation destroyed the response's own checksum line and an EARLIER
                        // well-formed `Checksum: ` line of the protected bytes (unchanged by the
                        // mutation, valid for its own prefix) has become the last one
                        let earlier = match (m, v1_last_line(&self.base), v1_last_line(d)) {
                            (Mutation::At(_) | Mutation::Trunc(_), Some((pb, Some(_))), Some((pd, Some(cd)))) => pd < pb && self.base.get(pd..pd + 74) == Some(&d[pd..pd + 74]) && hex(&sha256(&d[..pd])).as_bytes() == cd,
                            _ => false,
                        };
                        if earlier {
                            s.oracle_fail("v1-checksum-line-lost-earlier-line-governs", "the response's own Checksum line was cut off or damaged; an earlier well-formed Checksum line inside the protected bytes became the last one, validates for its own prefix, and the truncated data is returned as checked", &replay);
                        } else {
                            s.oracle_fail("v1-corruption-accepted", "altered data returned although a checksum was verified", &replay);
                        }
                    }
                }
            }
            _ => {}
        }
    }

    fn run_mut(&mut self, s: &mut Session, req: &str, m: Mutation, d: Vec<u8>) {
        let e = self.eval(&d);
        self.case_lines.push(req.to_string());
        s.line(req, &e.resp);
        for (q, r) in &e.follow {
            self.case_lines.push(q.clone());
            s.line(q, r);
        }
        self.oracle(s, &m, &d, &e);
        let key = format!("{}|{}|{}", self.kind, hex(&self.base[..self.base.len().min(24)]), req);
        // non-trivial = the mutation is inside the protected region or the acceptor got past its
        // length guards (any response but io / none)
        let nontrivial = !matches!(e.resp.as_str(), "err:io" | "none" | "bad-op");
        s.case(if nontrivial { Some(&key) } else { None });
        {
            let first = e.resp.split(' ').next().unwrap_or("");
            let first = if first.starts_with("n=") { "loaded" } else { first };
            s.tally(&format!("{}:{}", self.kind, first));
        }
        self.case_lines.truncate(1);
        if matches!(m, Mutation::None) {
            self.base_eval = Some(e);
        }
    }

    fn exec(&mut self, s: &mut Session, req: &str) {
        let t: Vec<&str> = req.split(' ').collect();
        let art = !self.kind.is_empty() && self.kind != "cache" && self.kind != "consts";
        match t.as_slice() {
            ["begin", "cache", h, sk, ly] => {
                let (h, sk, ly) = (h.strip_prefix("hooks=").and_then(|x| x.parse::<u8>().ok()), sk.strip_prefix("skip=").and_then(|x| x.parse::<usize>().ok()), ly.strip_prefix("layers=").and_then(|x| x.parse::<usize>().ok()));
                match (h, sk, ly) {
                    (Some(h), Some(_), Some(ly)) => match Caches::new(h == 1, ly) {
                        Some(c) => {
                            self.caches = Some(c);
                            self.kind = "cache".into();
                            self.case_lines = vec![req.to_string()];
                            s.line(req, "ok");
                        }
                        None => s.line(req, "bad-op"),
                    },
                    _ => s.line(req, "bad-op"),
                }
            }
            ["begin", "consts"] => {
                self.kind = "consts".into();
                self.case_lines = vec![req.to_string()];
                s.line(req, "ok");
            }
            // the compiled crates' constants; the model side prints what lib/rs2lean_integrity.py
            // extracted from the source text (the 100 MiB exemption is private: stated, not read)
            ["consts"] if self.kind == "consts" => {
                use cascette_client_storage::index::update::{UPDATE_ENTRY_SIZE, UPDATE_PAGE_SIZE};
                use cascette_client_storage::storage::local_header::LOCAL_HEADER_SIZE;
                use cascette_client_storage::storage::segment::SEGMENT_HEADER_SIZE;
                s.line(req, &format!("lru={},{},{} upd={},{} lhdr={} seg={} skip={}", lru_file::LRU_HEADER_SIZE, lru_file::LRU_ENTRY_SIZE, lru_file::LRU_MAX_VERSION, UPDATE_ENTRY_SIZE, UPDATE_PAGE_SIZE, LOCAL_HEADER_SIZE, SEGMENT_HEADER_SIZE, SKIP_ABOVE));
                s.case(Some("consts"));
            }
            ["begin", "lhdr", p, hx] => match (p.parse::<usize>().ok(), unhex(hx)) {
                (Some(p), Some(b)) => self.begin(s, req, "lhdr", p, b),
                _ => s.line(req, "bad-op"),
            },
            ["begin", kind, hx] if ["enc", "aidx", "aidxc", "lru", "upd", "seg", "v1"].contains(kind) => match unhex(hx) {
                Some(b) => self.begin(s, req, kind, 0, b),
                None => s.line(req, "bad-op"),
            },
            ["load"] if art => {
                let d = self.base.clone();
                self.run_mut(s, req, Mutation::None, d);
            }
            ["flip", bit] if art => match bit.parse::<usize>().ok() {
                Some(bit) if bit / 8 < self.base.len() => {
                    let mut d = self.base.clone();
                    d[bit / 8] ^= 1 << (bit % 8);
                    self.run_mut(s, req, Mutation::At(bit / 8), d);
                }
                _ => s.line(req, "bad-op"),
            },
            ["sub", pos, byte] if art => match (pos.parse::<usize>().ok(), byte.parse::<usize>().ok()) {
                (Some(p), Some(x)) if p < self.base.len() && x < 256 => {
                    let mut d = self.base.clone();
                    d[p] = x as u8;
                    self.run_mut(s, req, Mutation::At(p), d);
                }
                _ => s.line(req, "bad-op"),
            },
            ["sub2", p1, x1, p2, x2] if art => match (p1.parse::<usize>().ok(), x1.parse::<usize>().ok(), p2.parse::<usize>().ok(), x2.parse::<usize>().ok()) {
                (Some(p), Some(x), Some(q), Some(y)) if p < self.base.len() && q < self.base.len() && p != q && x < 256 && y < 256 => {
                    let mut d = self.base.clone();
                    d[p] = x as u8;
                    d[q] = y as u8;
                    self.run_mut(s, req, Mutation::At2(p, q), d);
                }
                _ => s.line(req, "bad-op"),
            },
            ["trunc", n] if art => match n.parse::<usize>().ok() {
                Some(n) if n <= self.base.len() => {
                    let d = self.base[..n].to_vec();
                    self.run_mut(s, req, Mutation::Trunc(n), d);
                }
                _ => s.line(req, "bad-op"),
            },
            ["ext", pos, hx] if art => match (pos.parse::<usize>().ok(), unhex(hx)) {
                (Some(p), Some(x)) if p <= self.base.len() => {
                    let mut d = self.base[..p].to_vec();
                    d.extend_from_slice(&x);
                    d.extend_from_slice(&self.base[p..]);
                    self.run_mut(s, req, Mutation::Ins(p), d);
                }
                _ => s.line(req, "bad-op"),
            },
            // follow-up lines are emitted by run_mut; in a replay file they are skipped here
            ["fields"] | ["fvalid"] | ["v1ck"] | ["encmap"] => {}
            _ if self.kind == "cache" => self.exec_cache(s, req, &t),
            _ => s.line(req, "bad-op"),
        }
    }

    fn begin(&mut self, s: &mut Session, req: &str, kind: &str, param: usize, b: Vec<u8>) {
        self.kind = kind.to_string();
        self.param = param;
        self.prot = protected_ranges(kind, &b);
        self.base = b;
        // the base artifact's own evaluation (no line emitted: `load` does that) so that a replay
        // of `begin` + one mutation has something to compare with
        self.base_eval = Some(self.eval(&self.base));
        self.case_lines = vec![req.to_string()];
        s.line(req, "ok");
    }

    fn exec_cache(&mut self, s: &mut Session, req: &str, t: &[&str]) {
        self.case_lines.push(req.to_string());
        let replay = self.case_lines.clone();
        let Some(c) = self.caches.as_mut() else {
            s.line(req, "bad-op");
            return;
        };
        let ckey = |b: &[u8]| key16(b).map(|k| ContentCacheKey::new(ContentKey::from_bytes(k)));
        let resp: String = match t {
            ["putv", k, ck, v] => match (unhex(k).and_then(|b| ckey(&b)), unhex(ck).and_then(|b| key16(&b)), unhex(v)) {
                (Some(k), Some(ck), Some(v)) => match c.rt.block_on(c.ml.put_with_validation(k, ContentKey::from_bytes(ck), Bytes::from(v.clone()))) {
                    Ok(_) => {
                        if c.hooks && v.len() <= SKIP_ABOVE && md5::compute(&v).0 != ck {
                            s.oracle_fail("validated-put-accepted-wrong-bytes", &format!("put_with_validation stored {} bytes whose MD5 {} is not the content key {} (the comparison is weaker than equality)", v.len(), hex(&md5::compute(&v).0), hex(&ck)), &replay);
                        }
                        "ok".into()
                    }
                    Err(cascette_cache::error::CacheError::ContentValidationFailed(_)) => "err:validation".into(),
                    Err(_) => "err:other".into(),
                },
                _ => "bad-op".into(),
            },
            ["putl", i, k, v] => match (i.parse::<usize>().ok(), unhex(k).and_then(|b| ckey(&b)), unhex(v)) {
                (Some(i), Some(k), Some(v)) => match c.rt.block_on(c.ml.put_to_layer(k, Bytes::from(v), i)) {
                    Ok(()) => "ok".into(),
                    Err(cascette_cache::error::CacheError::InvalidConfiguration(_)) => "err:layer".into(),
                    Err(_) => "err:other".into(),
                },
                _ => "bad-op".into(),
            },
            ["corrupt", i, k, v] => match (i.parse::<usize>().ok(), unhex(k).and_then(|b| ckey(&b)), unhex(v)) {
                (Some(1), Some(k), Some(v)) if c.layers == 2 => {
                    let p = c.disk_dir.join(k.as_cache_key());
                    if p.is_file() {
                        std::fs::write(&p, &v).expect("corrupt backing file");
                        "ok".into()
                    } else {
                        "none".into()
                    }
                }
                _ => "bad-op".into(),
            },
            ["getv", k, ck] => {
                let exp = if *ck == "none" { Some(None) } else { unhex(ck).and_then(|b| key16(&b)).map(Some) };
                match (unhex(k).and_then(|b| ckey(&b)), exp) {
                    (Some(k), Some(exp)) => match c.rt.block_on(c.ml.get_with_validation(&k, exp.map(ContentKey::from_bytes))) {
                        Ok(None) => "none".into(),
                        Ok(Some(nb)) => {
                            let v = nb.as_bytes().to_vec();
                            if let Some(e) = exp {
                                if c.hooks && md5::compute(&v).0 != e {
                                    let sig = if v.len() > SKIP_ABOVE { "validated-get-skips-large" } else { "validated-get-returned-wrong-bytes" };
                                    s.oracle_fail(sig, &format!("get_with_validation returned {} bytes whose MD5 is not the requested content key", v.len()), &replay);
                                }
                            }
                            format!("hit {}", hex(&v))
                        }
                        Err(cascette_cache::error::CacheError::Corruption(_)) => {
                            // a failed validation must leave the key in no layer
                            for i in 0..c.layers {
                                if let Ok(Some(_)) = c.rt.block_on(c.ml.get_from_layer(&k, i)) {
                                    s.oracle_fail("corrupt-entry-not-removed", &format!("after a failed validation the key is still in layer {i}"), &replay);
                                }
                            }
                            "err:corruption".into()
                        }
                        Err(_) => "err:other".into(),
                    },
                    _ => "bad-op".into(),
                }
            }
            ["has", k] => match unhex(k).and_then(|b| ckey(&b)) {
                Some(k) => (0..c.layers).map(|i| if matches!(c.rt.block_on(c.ml.get_from_layer(&k, i)), Ok(Some(_))) { '1' } else { '0' }).collect(),
                None => "bad-op".into(),
            },
            ["caput", ck, v] => match (unhex(ck).and_then(|b| key16(&b)), unhex(v)) {
                (Some(ck), Some(v)) => match c.rt.block_on(c.ca.put_validated(ContentKey::from_bytes(ck), Bytes::from(v.clone()))) {
                    Ok(()) => {
                        if md5::compute(&v).0 != ck {
                            s.oracle_fail("validated-put-accepted-wrong-bytes", &format!("ContentAddressedCache::put_validated stored {} bytes whose MD5 {} is not the content key {} (the comparison is weaker than equality)", v.len(), hex(&md5::compute(&v).0), hex(&ck)), &replay);
                        }
                        "ok".into()
                    }
                    Err(cascette_cache::error::NgdpCacheError::ContentValidationFailed(_)) => "err:validation".into(),
                    Err(_) => "err:other".into(),
                },
                _ => "bad-op".into(),
            },
            ["cacorrupt", ck, v] => match (unhex(ck).and_then(|b| key16(&b)), unhex(v)) {
                (Some(ck), Some(v)) => {
                    let p = c.ca_dir.join(BlteBlockKey::new_raw(ContentKey::from_bytes(ck), 0).as_cache_key());
                    if p.is_file() {
                        std::fs::write(&p, &v).expect("corrupt backing file");
                        "ok".into()
                    } else {
                        "none".into()
                    }
                }
                _ => "bad-op".into(),
            },
            ["caget", ck] => match unhex(ck).and_then(|b| key16(&b)) {
                Some(ck) => match c.rt.block_on(c.ca.get_validated(ContentKey::from_bytes(ck))) {
                    Ok(None) => "none".into(),
                    Ok(Some(v)) => {
                        if md5::compute(&v).0 != ck {
                            s.oracle_fail("validated-get-returned-wrong-bytes", "ContentAddressedCache::get_validated returned bytes whose MD5 is not the content key", &replay);
                        }
                        format!("hit {}", hex(&v))
                    }
                    Err(cascette_cache::error::NgdpCacheError::ContentValidationFailed(_)) => "err:validation".into(),
                    Err(_) => "err:other".into(),
                },
                None => "bad-op".into(),
            },
            // get_with_validation while the backing file of the disk layer is rewritten DURING the call,
            // at the crate's own schedule points inside DiskCache::get (cargo feature `hooks` →
            // cascette-cache/verif-hooks): m = 0 at the first `disk.get.before_read`, m = 1, 2 at the
            // m-th `disk.get.before_touch` (= right after the m-th completed read of the file)
            ["getvf", k, ck, m, alt] => {
                match (unhex(k).and_then(|b| ckey(&b)), unhex(ck).and_then(|b| key16(&b)), m.parse::<usize>().ok(), unhex(alt)) {
                    (Some(k), Some(ck), Some(m), Some(alt)) if c.layers == 2 && m <= 2 => {
                        #[cfg(feature = "hooks")]
                        {
                            let path = c.disk_dir.join(k.as_cache_key());
                            let reads = Arc::new(AtomicUsize::new(0));
                            let touches = Arc::new(AtomicUsize::new(0));
                            let (r2, t2) = (reads.clone(), touches.clone());
                            cascette_cache::verif_hooks::install(Some(Arc::new(move |site: &'static str| match site {
                                "disk.get.before_read" => {
                                    if r2.fetch_add(1, Ordering::SeqCst) == 0 && m == 0 {
                                        std::fs::write(&path, &alt).expect("rewrite backing file");
                                    }
                                }
                                "disk.get.before_touch" => {
                                    if t2.fetch_add(1, Ordering::SeqCst) + 1 == m {
                                        std::fs::write(&path, &alt).expect("rewrite backing file");
                                    }
                                }
                                _ => {}
                            })));
                            let r = c.rt.block_on(c.ml.get_with_validation(&k, Some(ContentKey::from_bytes(ck))));
                            cascette_cache::verif_hooks::install(None);
                            let dreads = reads.load(Ordering::SeqCst);
                            let out = match r {
                                Ok(None) => "none".to_string(),
                                Ok(Some(nb)) => {
                                    let v = nb.as_bytes().to_vec();
                                    if c.hooks && v.len() <= SKIP_ABOVE && md5::compute(&v).0 != ck {
                                        s.oracle_fail("validated-get-returned-unvalidated-bytes", &format!("get_with_validation read the disk layer's file {dreads} time(s) while it was rewritten ({}) and handed out {} bytes whose MD5 {} is not the content key {}: the bytes returned are not the bytes that were hashed", if m == 0 { "before the first read".to_string() } else { format!("after read {m}") }, v.len(), hex(&md5::compute(&v).0), hex(&ck)), &replay);
                                    }
                                    format!("hit {}", hex(&v))
                                }
                                Err(cascette_cache::error::CacheError::Corruption(_)) => {
                                    for i in 0..c.layers {
                                        if let Ok(Some(_)) = c.rt.block_on(c.ml.get_from_layer(&k, i)) {
                                            s.oracle_fail("corrupt-entry-not-removed", &format!("after a failed validation the key is still in layer {i}"), &replay);
                                        }
                                    }
                                    "err:corruption".into()
                                }
                                Err(_) => "err:other".into(),
                            };
                            format!("{out} dreads={dreads}")
                        }
                        #[cfg(not(feature = "hooks"))]
                        {
                            let _ = (k, ck, m, alt);
                            "no-hooks-feature".to_string()
                        }
                    }
                    _ => "bad-op".into(),
                }
            }
            // get_validated while the backing store changes DURING the call: at the n-th read of the
            // key the store answers `alt`. Whatever is handed out must hash to the requested key — it
            // has to be the very buffer that was hashed, not a later read of the store
            ["cagetf", ck, n, mode, alt] => {
                let altv = if *alt == "none" { Some(None) } else { unhex(alt).map(Some) };
                match (unhex(ck).and_then(|b| key16(&b)), n.parse::<usize>().ok(), *mode == "put" || *mode == "once", altv) {
                    (Some(ck), Some(n), true, Some(altv)) if (1..=3).contains(&n) => {
                        let key = BlteBlockKey::new_raw(ContentKey::from_bytes(ck), 0);
                        *c.ca_store.fault.lock().expect("fault plan") = Some(Fault { key: key.as_cache_key().to_string(), n, put: *mode == "put", alt: altv });
                        c.ca_store.reads.store(0, Ordering::SeqCst);
                        let r = c.rt.block_on(c.ca.get_validated(ContentKey::from_bytes(ck)));
                        let reads = c.ca_store.reads.load(Ordering::SeqCst);
                        *c.ca_store.fault.lock().expect("fault plan") = None;
                        let out = match r {
                            Ok(None) => "none".to_string(),
                            Ok(Some(v)) => {
                                if md5::compute(&v).0 != ck {
                                    s.oracle_fail("validated-get-returned-unvalidated-bytes", &format!("ContentAddressedCache::get_validated made {reads} read(s) of the backing store, which answered differently at read {n}, and handed out {} bytes whose MD5 {} is not the content key {}: the bytes returned are not the bytes that were hashed", v.len(), hex(&md5::compute(&v).0), hex(&ck)), &replay);
                                }
                                format!("hit {}", hex(&v))
                            }
                            Err(cascette_cache::error::NgdpCacheError::ContentValidationFailed(_)) => "err:validation".into(),
                            Err(_) => "err:other".into(),
                        };
                        format!("{out} reads={reads}")
                    }
                    _ => "bad-op".into(),
                }
            }
            // size exemption of the validating read: a value of `n` zero bytes is written raw into
            // layer 0 and read back under a content key that is NOT its MD5
            ["big", n] => match n.parse::<usize>().ok() {
                Some(n) if n <= SKIP_ABOVE + 16 => {
                    let k = ContentCacheKey::new(ContentKey::from_bytes([0xB1; 16]));
                    let v = Bytes::from(vec![0u8; n]);
                    let wrong = ContentKey::from_bytes([0x5A; 16]);
                    let _ = c.rt.block_on(c.ml.put_to_layer(k.clone(), v, 0));
                    let r = match c.rt.block_on(c.ml.get_with_validation(&k, Some(wrong))) {
                        Ok(Some(nb)) => {
                            if c.hooks {
                                let sig = if nb.as_bytes().len() > SKIP_ABOVE { "validated-get-skips-large" } else { "validated-get-returned-wrong-bytes" };
                                s.oracle_fail(sig, &format!("get_with_validation returned {} bytes whose MD5 is not the requested content key (no validation above 100 MiB)", nb.as_bytes().len()), &replay);
                            }
                            format!("hit len={}", nb.as_bytes().len())
                        }
                        Ok(None) => "none".into(),
                        Err(cascette_cache::error::CacheError::Corruption(_)) => "err:corruption".into(),
                        Err(_) => "err:other".into(),
                    };
                    let _ = c.rt.block_on(c.ml.remove(&k));
                    r
                }
                _ => "bad-op".into(),
            },
            _ => "bad-op".into(),
        };
        s.line(req, &resp);
        s.tally(&format!("cache:{}:{}", t[0], resp.split(' ').next().unwrap_or("")));
        if resp.starts_with("hit") || resp.starts_with("err:") {
            self.accepted_any = true;
        }
    }
}

// ---------------------------------------------------------------- base artifacts (builders of the crates)

fn gen_enc(rng: &mut Rng, small: bool) -> Vec<u8> {
    let mut b = EncodingBuilder::new().with_page_sizes(1, 1);
    let n = if small { rng.range(1, 4) } else { rng.range(20, 60) } as usize;
    let especs = ["z", "n", "b:{256K*=z}"];
    for i in 0..n {
        let ck = ContentKey::from_bytes(rng.bytes(16).try_into().unwrap());
        let nk = if rng.chance(1, 5) { 2 } else { 1 };
        let eks: Vec<EncodingKey> = (0..nk).map(|_| EncodingKey::from_bytes(rng.bytes(16).try_into().unwrap())).collect();
        for ek in &eks {
            b.add_ekey_entry(EKeyEntryData { encoding_key: *ek, espec: especs[(i + rng.below(2) as usize) % 3].to_string(), file_size: rng.range(1, 1 << 33) });
        }
        b.add_ckey_entry(CKeyEntryData { content_key: ck, file_size: rng.range(1, 1 << 33), encoding_keys: eks });
    }
    let b = if rng.chance(1, 3) { b.with_trailing_espec("b:{22=n,*=z}".to_string()) } else { b };
    b.build().expect("encoding build").build().expect("encoding serialise")
}

fn gen_aidx(rng: &mut Rng, key_size: u8, offset_bytes: u8, n: usize) -> Vec<u8> {
    let mut b = ArchiveIndexBuilder::with_config(key_size, offset_bytes, 4);
    for _ in 0..n {
        let mut k = rng.bytes(usize::from(key_size));
        k[0] |= 1; // never the all-zero padding entry
        b.add_entry(k, rng.range(1, 1 << 30) as u32, rng.below(1 << 31));
    }
    let mut out = Cursor::new(Vec::new());
    b.build(&mut out).expect("archive index build");
    out.into_inner()
}

fn gen_lru(rng: &mut Rng, n: usize, version: u16) -> Vec<u8> {
    let h = LruFileHeader { version, hash: [0; 16], mru_head: if n == 0 { 0xFFFF_FFFF } else { 0 }, lru_tail: if n == 0 { 0xFFFF_FFFF } else { (n - 1) as u32 } };
    let es: Vec<LruFileEntry> = (0..n)
        .map(|i| LruFileEntry { prev: if i + 1 < n { (i + 1) as u32 } else { 0xFFFF_FFFF }, next: if i > 0 { (i - 1) as u32 } else { 0xFFFF_FFFF }, ekey: rng.bytes(9).try_into().unwrap(), flags: rng.byte() & 3 })
        .collect();
    lru_file::serialize(&h, &es)
}

fn gen_upd(rng: &mut Rng, n: usize) -> Vec<u8> {
    let mut sec = UpdateSection::new();
    for _ in 0..n {
        let st = *rng.pick(&[UpdateStatus::Normal, UpdateStatus::Normal, UpdateStatus::Delete, UpdateStatus::HeaderNonResident, UpdateStatus::DataNonResident]);
        let e = UpdateEntry::new(rng.bytes(9).try_into().unwrap(), ArchiveLocation { archive_id: rng.below(1023) as u16, archive_offset: rng.below(1 << 30) as u32 }, rng.below(1 << 32) as u32, st);
        assert!(sec.append(e));
    }
    let mut b = sec.to_bytes();
    // keep the used pages and one empty page (from_bytes accepts any length)
    b.truncate((sec.page_count() + 1) * 512);
    b
}

fn gen_v1(rng: &mut Rng, shape: u64) -> Vec<u8> {
    let rows = rng.range(1, 4);
    let mut body = String::from("Region!STRING:0|BuildConfig!HEX:16|BuildId!DEC:4\r\n## seqn = 12345\r\n");
    for _ in 0..rows {
        body.push_str(&format!("{}|{}|{}\r\n", rng.pick(&["us", "eu", "kr", "cn"]), hex(&rng.bytes(16)), rng.below(100_000)));
    }
    let mut msg = match shape {
        0 => format!("Content-Type: text/plain\r\n\r\n{body}"),
        _ => format!(
            "MIME-Version: 1.0\r\nContent-Type: multipart/alternative; boundary=\"bnd{0}\"\r\n\r\n--bnd{0}\r\nContent-Type: text/plain\r\nContent-Disposition: version\r\n\r\n{body}\r\n--bnd{0}--\r\n",
            rng.below(100_000)
        ),
    }
    .into_bytes();
    let ck = sha256(&msg);
    let ck = if shape == 2 { hex(&ck).to_uppercase() } else { hex(&ck) };
    msg.extend_from_slice(format!("Checksum: {ck}").as_bytes());
    msg.extend_from_slice(if shape == 0 { b"\n" } else { b"\r\n" });
    msg
}

/// an occurrence of the text `Checksum: ` INSIDE the checksummed part of a V1 response
#[derive(Clone, Copy, PartialEq, Debug)]
enum Occ {
    /// `Checksum: see epilogue line` (free text)
    Text,
    /// `Checksum: ` and nothing else
    Empty,
    Hex63,
    Hex65,
    /// 64 random lower-case hex digits: a well-formed line when it ends its line (wrong digest)
    Hex64,
    Hex64Upper,
    Zero64,
    /// 64 hex digits that ARE the SHA-256 of everything before the occurrence (a nested, signed
    /// response): a well-formed line that validates for its own prefix
    ValidForPrefix,
}

#[derive(Clone, Copy, PartialEq, Debug)]
enum Place {
    /// value of a top-level MIME header
    TopHeader,
    /// own line in the multipart preamble (plain shape: first body line)
    Preamble,
    /// value of a header of the data part (plain shape: a `## ` comment line)
    PartHeader,
    /// own line between the BPSV rows (line start)
    RowStart,
    /// last column of a BPSV row, the occurrence ends the row (mid-line, rest of line = the text)
    NoteCol,
    /// inside a free-text column, more text and another column follow on the same line
    NoteColTail,
    /// own line after the closing boundary, more epilogue text follows
    Epilogue,
    /// immediately in front of the real checksum line, no line break between
    Adjacent,
}

struct V1x {
    multipart: bool,
    occs: Vec<(Place, Occ)>,
    /// line end of the real checksum line (`""` = the input ends after the 64 digits)
    eol: &'static str,
}

const OCCS: [Occ; 8] = [Occ::Text, Occ::Empty, Occ::Hex63, Occ::Hex65, Occ::Hex64, Occ::Hex64Upper, Occ::Zero64, Occ::ValidForPrefix];
const PLACES: [Place; 8] = [Place::TopHeader, Place::Preamble, Place::PartHeader, Place::RowStart, Place::NoteCol, Place::NoteColTail, Place::Epilogue, Place::Adjacent];

fn hexdigits(rng: &mut Rng, n: usize) -> String {
    (0..n).map(|_| char::from(b"0123456789abcdef"[rng.below(16) as usize])).collect()
}

/// V1 response with a valid checksum epilogue whose protected bytes contain `Checksum: ` at the
/// given places; returns the bytes and the positions of the interior occurrences
fn gen_v1x(rng: &mut Rng, x: &V1x) -> (Vec<u8>, Vec<usize>) {
    let mut m: Vec<u8> = vec![];
    let mut at: Vec<usize> = vec![];
    fn emit(m: &mut Vec<u8>, at: &mut Vec<usize>, rng: &mut Rng, x: &V1x, place: Place, pre: &dyn Fn(&mut Rng) -> String, post: &str) -> usize {
        let mut k = 0;
        for (p, o) in &x.occs {
            if *p != place {
                continue;
            }
            m.extend_from_slice(pre(rng).as_bytes());
            at.push(m.len());
            let t = match o {
                Occ::Text => "Checksum: see epilogue line".to_string(),
                Occ::Empty => "Checksum: ".to_string(),
                Occ::Hex63 => format!("Checksum: {}", hexdigits(rng, 63)),
                Occ::Hex65 => format!("Checksum: {}", hexdigits(rng, 65)),
                Occ::Hex64 => format!("Checksum: {}", hexdigits(rng, 64)),
                Occ::Hex64Upper => format!("Checksum: {}", hexdigits(rng, 64).to_uppercase()),
                Occ::Zero64 => format!("Checksum: {}", "0".repeat(64)),
                Occ::ValidForPrefix => format!("Checksum: {}", hex(&sha256(m))),
            };
            m.extend_from_slice(t.as_bytes());
            m.extend_from_slice(post.as_bytes());
            k += 1;
        }
        k
    }
    let fixed = |t: &'static str| move |_: &mut Rng| t.to_string();
    let row = |rng: &mut Rng| format!("{}|{}|{}|", rng.pick(&["us", "eu", "kr", "cn"]), hex(&rng.bytes(16)), rng.below(100_000));
    let bnd = format!("bnd{}", rng.below(100_000));
    if x.multipart {
        m.extend_from_slice(b"MIME-Version: 1.0\r\n");
        emit(&mut m, &mut at, rng, x, Place::TopHeader, &fixed("X-Ribbit-Note: "), "\r\n");
        m.extend_from_slice(format!("Content-Type: multipart/alternative; boundary=\"{bnd}\"\r\n\r\n").as_bytes());
        emit(&mut m, &mut at, rng, x, Place::Preamble, &fixed(""), "\r\n");
        m.extend_from_slice(format!("--{bnd}\r\nContent-Type: text/plain\r\nContent-Disposition: version\r\n").as_bytes());
        emit(&mut m, &mut at, rng, x, Place::PartHeader, &fixed("X-Note: "), "\r\n");
        m.extend_from_slice(b"\r\n");
    } else {
        m.extend_from_slice(b"Content-Type: text/plain\r\n");
        emit(&mut m, &mut at, rng, x, Place::TopHeader, &fixed("X-Ribbit-Note: "), "\r\n");
        m.extend_from_slice(b"\r\n");
        emit(&mut m, &mut at, rng, x, Place::Preamble, &fixed(""), "\r\n");
    }
    m.extend_from_slice(b"Region!STRING:0|BuildConfig!HEX:16|BuildId!DEC:4|Note!STRING:0\r\n## seqn = 12345\r\n");
    if !x.multipart {
        emit(&mut m, &mut at, rng, x, Place::PartHeader, &fixed("## note = "), "\r\n");
    }
    m.extend_from_slice(format!("{}-\r\n", row(rng)).as_bytes());
    emit(&mut m, &mut at, rng, x, Place::RowStart, &fixed(""), "\r\n");
    emit(&mut m, &mut at, rng, x, Place::NoteCol, &row, "\r\n");
    emit(&mut m, &mut at, rng, x, Place::NoteColTail, &|rng: &mut Rng| format!("{}see ", row(rng)), " (superseded)|x\r\n");
    // rows AFTER the occurrences: the bytes between an interior occurrence and the real line carry data
    for _ in 0..rng.range(1, 2) {
        m.extend_from_slice(format!("{}-\r\n", row(rng)).as_bytes());
    }
    if x.multipart {
        m.extend_from_slice(format!("\r\n--{bnd}--\r\n").as_bytes());
    }
    if emit(&mut m, &mut at, rng, x, Place::Epilogue, &fixed(""), "\r\n") > 0 {
        m.extend_from_slice(b"-- end of response --\r\n");
    }
    emit(&mut m, &mut at, rng, x, Place::Adjacent, &fixed(""), "");
    let ck = hex(&sha256(&m));
    m.extend_from_slice(format!("Checksum: {ck}{}", x.eol).as_bytes());
    (m, at)
}

// ---------------------------------------------------------------- mutation schedules

struct Plan {
    /// exhaustive single-bit flips over these byte ranges
    exhaustive: Vec<(usize, usize)>,
    sampled_flips: usize,
    subs: usize,
    truncs: usize,
    exts: usize,
    /// every byte value at every position (only tiny artifacts)
    all_subs: bool,
    /// explicit truncation points (structure boundaries of the artifact)
    truncs_at: Vec<usize>,
}

fn mutate_case(s: &mut Session, it: &mut Interp, rng: &mut Rng, begin: String, plan: &Plan, must_accept: bool) {
    it.exec(s, &begin);
    it.exec(s, "load");
    let n = it.base.len();
    if must_accept {
        let ok = it.base_eval.as_ref().map(|e| e.accepted).unwrap_or(false);
        if !ok {
            s.oracle_fail("base-artifact-rejected", &format!("a valid {} artifact from the crate's builder is rejected: {}", it.kind, it.base_eval.as_ref().map(|e| e.resp.clone()).unwrap_or_default()), &[begin.clone(), "load".into()]);
        }
    }
    if n == 0 {
        return;
    }
    let prot = it.prot.clone();
    let pick_pos = |rng: &mut Rng| -> usize {
        // 70 % inside / at the edges of the protected ranges, 30 % anywhere
        if !prot.is_empty() && rng.chance(7, 10) {
            let (lo, hi) = *rng.pick(&prot);
            if hi <= lo {
                return rng.below(n as u64) as usize;
            }
            match rng.below(6) {
                0 => lo,
                1 => hi - 1,
                2 => lo.saturating_sub(1),
                3 => hi.min(n - 1),
                _ => rng.range(lo as u64, hi as u64 - 1) as usize,
            }
        } else {
            rng.below(n as u64) as usize
        }
    };
    for (lo, hi) in &plan.exhaustive {
        for p in *lo..(*hi).min(n) {
            for b in 0..8 {
                it.exec(s, &format!("flip {}", p * 8 + b));
            }
        }
    }
    for _ in 0..plan.sampled_flips {
        let p = pick_pos(rng);
        it.exec(s, &format!("flip {}", p * 8 + rng.below(8) as usize));
    }
    if plan.all_subs {
        for p in 0..n {
            for x in 0..256usize {
                if x as u8 != it.base[p] {
                    it.exec(s, &format!("sub {p} {x}"));
                }
            }
        }
    }
    for _ in 0..plan.subs {
        let p = pick_pos(rng);
        let x = match rng.below(4) {
            0 => 0,
            1 => 0xFF,
            2 => it.base[p].wrapping_add(1),
            _ => rng.byte(),
        };
        it.exec(s, &format!("sub {p} {x}"));
    }
    for i in 0..plan.truncs {
        let k = match i {
            0 => n - 1,
            1 => 0,
            _ => {
                if rng.chance(1, 2) { n - 1 - rng.below((n as u64).min(80)) as usize } else { pick_pos(rng) }
            }
        };
        it.exec(s, &format!("trunc {k}"));
    }
    for k in &plan.truncs_at {
        if *k <= n {
            it.exec(s, &format!("trunc {k}"));
        }
    }
    for i in 0..plan.exts {
        let p = match i {
            0 => n,
            _ => if rng.chance(1, 3) { n } else { pick_pos(rng) },
        };
        let len = *rng.pick(&[1usize, 1, 2, 8, 20, 24, 28, 30, 64]);
        let x = if rng.chance(1, 3) { vec![0u8; len] } else { rng.bytes(len) };
        it.exec(s, &format!("ext {p} {}", hex(&x)));
    }
}

/// "Comparison weaker than equality" families on one artifact: at every position of `all_at`
/// every one of the 255 other byte values; for every pair of `pairs` three two-byte substitutions
/// whose differences cancel under an XOR fold (`a^d, b^d`), a sum fold (`a+d, b-d`) and a
/// difference fold (`a+d, b+d`). Every accepted corruption is an oracle failure with its replay.
fn family_case(s: &mut Session, it: &mut Interp, rng: &mut Rng, begin: String, all_at: &[usize], pairs: &[(usize, usize)]) {
    family_case_with(s, it, rng, begin, all_at, &[], pairs);
}

/// … `some_at`: positions with an explicit list of substituted values
fn family_case_with(s: &mut Session, it: &mut Interp, rng: &mut Rng, begin: String, all_at: &[usize], some_at: &[(usize, Vec<u8>)], pairs: &[(usize, usize)]) {
    it.exec(s, &begin);
    it.exec(s, "load");
    let ok = it.base_eval.as_ref().map(|e| e.accepted).unwrap_or(false);
    if !ok {
        s.oracle_fail("base-artifact-rejected", &format!("a valid {} artifact from the crate's builder is rejected: {}", it.kind, it.base_eval.as_ref().map(|e| e.resp.clone()).unwrap_or_default()), &[begin.clone(), "load".into()]);
    }
    let n = it.base.len();
    for p in all_at.iter().copied().filter(|p| *p < n) {
        for x in 0..256usize {
            if x as u8 != it.base[p] {
                it.exec(s, &format!("sub {p} {x}"));
            }
        }
        s.tally(&format!("family:{}:all-values-at-position", it.kind));
    }
    for (p, vals) in some_at.iter().filter(|(p, _)| *p < n) {
        for x in vals {
            if *x != it.base[*p] {
                it.exec(s, &format!("sub {p} {x}"));
            }
        }
        s.tally(&format!("family:{}:value-classes-at-position", it.kind));
    }
    for (i, j) in pairs.iter().copied().filter(|(i, j)| *i < n && *j < n && i != j) {
        let d = rng.range(1, 255) as u8;
        let (a, b) = (it.base[i], it.base[j]);
        it.exec(s, &format!("sub2 {i} {} {j} {}", a ^ d, b ^ d));
        it.exec(s, &format!("sub2 {i} {} {j} {}", a.wrapping_add(d), b.wrapping_sub(d)));
        it.exec(s, &format!("sub2 {i} {} {j} {}", a.wrapping_add(d), b.wrapping_add(d)));
        s.tally(&format!("family:{}:cancelling-pair", it.kind));
    }
}

/// all pairs inside [lo,hi)
fn pairs_in(lo: usize, hi: usize) -> Vec<(usize, usize)> {
    (lo..hi).flat_map(|i| (i + 1..hi).map(move |j| (i, j))).collect()
}

/// `k` random pairs inside [lo,hi)
fn random_pairs(rng: &mut Rng, lo: usize, hi: usize, k: usize) -> Vec<(usize, usize)> {
    (0..k).map(|_| (rng.range(lo as u64, hi as u64 - 1) as usize, rng.range(lo as u64, hi as u64 - 1) as usize)).filter(|(i, j)| i != j).collect()
}

/// `k` distinct random positions inside [lo,hi)
fn random_positions(rng: &mut Rng, lo: usize, hi: usize, k: usize) -> Vec<usize> {
    let mut v: Vec<usize> = (0..k).map(|_| rng.range(lo as u64, hi as u64 - 1) as usize).collect();
    v.sort_unstable();
    v.dedup();
    v
}

/// the content-key comparison of the validating caches under the same families: every single-byte
/// substitution of the KEY (put side) and of the VALUE (get side, written behind the cache's back),
/// and cancelling pairs of both
fn cache_equality_families(s: &mut Session, it: &mut Interp, rng: &mut Rng, th: bool) {
    it.exec(s, &format!("begin cache hooks=1 skip={SKIP_ABOVE} layers=1"));
    let k = hex(&rng.bytes(16));
    let v = rng.bytes(12);
    let c = md5::compute(&v).0.to_vec();
    let mut keys: Vec<Vec<u8>> = vec![];
    for p in 0..16 {
        for x in 0..256usize {
            if x as u8 != c[p] {
                let mut c2 = c.clone();
                c2[p] = x as u8;
                keys.push(c2);
            }
        }
    }
    for (i, j) in pairs_in(0, 16) {
        let d = rng.range(1, 255) as u8;
        for (a, b) in [(c[i] ^ d, c[j] ^ d), (c[i].wrapping_add(d), c[j].wrapping_sub(d)), (c[i].wrapping_add(d), c[j].wrapping_add(d))] {
            let mut c2 = c.clone();
            c2[i] = a;
            c2[j] = b;
            keys.push(c2);
        }
    }
    let mut vals: Vec<Vec<u8>> = vec![];
    for p in 0..v.len() {
        for x in 0..256usize {
            if x as u8 != v[p] {
                let mut v2 = v.clone();
                v2[p] = x as u8;
                vals.push(v2);
            }
        }
    }
    for (i, j) in pairs_in(0, v.len()) {
        let d = rng.range(1, 255) as u8;
        for (a, b) in [(v[i] ^ d, v[j] ^ d), (v[i].wrapping_add(d), v[j].wrapping_sub(d)), (v[i].wrapping_add(d), v[j].wrapping_add(d))] {
            let mut v2 = v.clone();
            v2[i] = a;
            v2[j] = b;
            vals.push(v2);
        }
    }
    // every key substitution on both put paths; every value substitution on the multi-layer read,
    // in quick every third one on the (file-backed) content-addressed read
    for c2 in &keys {
        it.exec(s, &format!("putv {k} {} {}", hex(c2), hex(&v)));
        it.exec(s, &format!("caput {} {}", hex(c2), hex(&v)));
    }
    s.tally("family:cache:key-substitutions");
    // honest entries, then every corruption of the stored value behind the caches' backs
    it.exec(s, &format!("putv {k} {} {}", hex(&c), hex(&v)));
    it.exec(s, &format!("caput {} {}", hex(&c), hex(&v)));
    for (idx, v2) in vals.iter().enumerate() {
        it.exec(s, &format!("putl 0 {k} {}", hex(v2)));
        it.exec(s, &format!("getv {k} {}", hex(&c)));
        if th || idx % 3 == 0 {
            it.exec(s, &format!("cacorrupt {} {}", hex(&c), hex(v2)));
            it.exec(s, &format!("caget {}", hex(&c)));
        }
    }
    s.tally("family:cache:value-substitutions");
    // the honest value still reads back
    it.exec(s, &format!("putv {k} {} {}", hex(&c), hex(&v)));
    it.exec(s, &format!("getv {k} {}", hex(&c)));
    it.exec(s, &format!("cacorrupt {} {}", hex(&c), hex(&v)));
    it.exec(s, &format!("caget {}", hex(&c)));
    s.case(Some(&format!("cache-equality {k}")));
    it.accepted_any = false;
}

/// ContentAddressedCache::get_validated while the backing store changes DURING the call: for the
/// n-th read (n = 1, 2, 3) × {the store is rewritten before it, only that read is affected} × what
/// the store answers instead (one bit flipped, truncated, extended, another value, the entry gone,
/// the same bytes) × {the store holds the honest entry at the start, it was already damaged}.
/// Each plan is followed by a plain read.
fn cache_fault_family(s: &mut Session, it: &mut Interp, rng: &mut Rng, rounds: usize) {
    let mut text = String::new();
    for _ in 0..rounds {
        let v = { let n = rng.range(1, 60) as usize; rng.bytes(n) };
        let c = hex(&md5::compute(&v).0);
        let mut alts: Vec<String> = vec![];
        let mut w = v.clone();
        let p = rng.below(w.len() as u64) as usize;
        w[p] ^= 1 << rng.below(8);
        alts.push(hex(&w));
        alts.push(hex(&v[..v.len() / 2]));
        let mut w = v.clone();
        w.push(rng.byte());
        alts.push(hex(&w));
        alts.push(hex(&{ let n = rng.range(1, 60) as usize; rng.bytes(n) }));
        alts.push("none".into());
        alts.push(hex(&v));
        for n in 1..=3usize {
            // (a case of its own per read index keeps a replay short)
            it.exec(s, &format!("begin cache hooks=1 skip={SKIP_ABOVE} layers=1"));
            for mode in ["put", "once"] {
                for alt in &alts {
                    // the store holds the honest entry when the call starts — or was already damaged
                    // (differently from `alt`) behind the cache's back
                    for damaged in [false, true] {
                        let mut lines = vec![format!("caput {c} {}", hex(&v))];
                        if damaged {
                            let mut w0 = v.clone();
                            w0.extend_from_slice(&[0xAA, 0x55]);
                            lines.push(format!("cacorrupt {c} {}", hex(&w0)));
                        }
                        lines.push(format!("cagetf {c} {n} {mode} {alt}"));
                        lines.push(format!("caget {c}"));
                        for line in lines {
                            text.push_str(&line);
                            text.push('\n');
                            it.exec(s, &line);
                        }
                        s.tally(&format!("family:cache:store-changes-at-read-{n}:{mode}:{}", if damaged { "start-damaged" } else { "start-honest" }));
                    }
                }
            }
        }
        // a key that was never stored, and one whose entry appears only at the n-th read
        let other = { let n = rng.range(1, 60) as usize; rng.bytes(n) };
        let oc = hex(&md5::compute(&other).0);
        it.exec(s, &format!("begin cache hooks=1 skip={SKIP_ABOVE} layers=1"));
        for n in 1..=3usize {
            for (mode, alt) in [("put", hex(&other)), ("once", hex(&other)), ("once", hex(&v)), ("put", "none".to_string())] {
                for line in [format!("cagetf {oc} {n} {mode} {alt}"), format!("caget {oc}"), format!("cacorrupt {oc} {}", hex(&v)), format!("caget {oc}")] {
                    text.push_str(&line);
                    text.push('\n');
                    it.exec(s, &line);
                }
            }
        }
    }
    s.case(Some(&text));
    it.accepted_any = false;
}

/// MultiLayerCacheImpl::get_with_validation (memory + disk, MD5 hooks) while the disk layer's
/// backing file is rewritten DURING the call: before its first read of the file / after its first /
/// after a second read × what is written (one bit flipped, truncated, extended, another value, the
/// same bytes) × {honest file at the start, already damaged file, key also in the memory layer}.
fn ml_fault_family(s: &mut Session, it: &mut Interp, rng: &mut Rng, rounds: usize) {
    let mut text = String::new();
    for _ in 0..rounds {
        let k = hex(&rng.bytes(16));
        let k2 = hex(&rng.bytes(16));
        let v = { let n = rng.range(1, 60) as usize; rng.bytes(n) };
        let c = hex(&md5::compute(&v).0);
        let mut alts: Vec<String> = vec![];
        let mut w = v.clone();
        let p = rng.below(w.len() as u64) as usize;
        w[p] ^= 1 << rng.below(8);
        alts.push(hex(&w));
        alts.push(hex(&v[..v.len() / 2]));
        let mut w = v.clone();
        w.push(rng.byte());
        alts.push(hex(&w));
        alts.push(hex(&{ let n = rng.range(1, 60) as usize; rng.bytes(n) }));
        alts.push(hex(&v));
        let mut w0 = v.clone();
        w0.extend_from_slice(&[0xAA, 0x55]);
        for m in 0..=2usize {
            it.exec(s, &format!("begin cache hooks=1 skip={SKIP_ABOVE} layers=2"));
            for alt in &alts {
                for start in ["honest", "damaged", "in-memory"] {
                    // (a key of its own for the in-memory start: it stays in the memory layer)
                    let k = if start == "in-memory" { &k2 } else { &k };
                    let mut lines = vec![format!("putl 1 {k} {}", hex(&v))];
                    match start {
                        "damaged" => lines.push(format!("corrupt 1 {k} {}", hex(&w0))),
                        "in-memory" => lines.push(format!("putv {k} {c} {}", hex(&v))),
                        _ => {}
                    }
                    lines.push(format!("getvf {k} {c} {m} {alt}"));
                    lines.push(format!("has {k}"));
                    lines.push(format!("getv {k} {c}"));
                    lines.push(format!("getv {k} {c}"));
                    for line in lines {
                        text.push_str(&line);
                        text.push('\n');
                        it.exec(s, &line);
                    }
                    s.tally(&format!("family:cache:disk-file-rewritten:{}:{start}", if m == 0 { "before-read".to_string() } else { format!("after-read-{m}") }));
                }
            }
        }
    }
    s.case(Some(&text));
    it.accepted_any = false;
}

/// 'Degenerate payloads' behind every validating cache entry point (after seeded change C07-2d, a
/// fast path that reports a zero-length payload valid without hashing it): the EMPTY value is a
/// member of every damaged-variant family, and the genuinely empty content under MD5("") is served.
///  * every truncation length 0..=n of a stored value (0 = the 0-byte file a crash between create
///    and write leaves behind; n = the honest value) written behind the cache's back into the disk
///    layer's file, the memory layer and the ContentAddressedCache file, then a validated read;
///  * the empty value offered to both validated puts under keys that are not MD5("") (the key of
///    another value, zeros, ones, random, MD5("") with one bit flipped, MD5 of one zero byte) and
///    non-empty values (1 byte: 00, a random one) offered under MD5("");
///  * the empty value served DURING a validating read: by the harness-owned store at read 1 / 2 / 3
///    (rewritten / that read only; honest / damaged / already empty at the start), by the disk
///    layer's file rewritten at the schedule points;
///  * the genuinely empty content under MD5(""): both validated puts, both validated reads from
///    every layer, an empty file restored after damage, the store answering empty during the call.
fn cache_degenerate_family(s: &mut Session, it: &mut Interp, rng: &mut Rng, rounds: usize) {
    let mut text = String::new();
    let e_raw = md5::compute(b"").0.to_vec();
    let e = hex(&e_raw);
    fn run(s: &mut Session, it: &mut Interp, text: &mut String, line: String) {
        text.push_str(&line);
        text.push('\n');
        it.exec(s, &line);
    }
    for r in 0..rounds {
        let n = if r == 0 { 8 } else { rng.range(1, 14) as usize };
        let v = rng.bytes(n);
        let c = hex(&md5::compute(&v).0);
        let k = hex(&rng.bytes(16));
        // ---- every truncation length behind the validated reads (one case per store: short replays)
        run(s, it, &mut text, format!("begin cache hooks=1 skip={SKIP_ABOVE} layers=2"));
        for l in 0..=n {
            run(s, it, &mut text, format!("putl 1 {k} {}", hex(&v)));
            run(s, it, &mut text, format!("corrupt 1 {k} {}", hex(&v[..l])));
            run(s, it, &mut text, format!("getv {k} {c}"));
            run(s, it, &mut text, format!("has {k}"));
            s.tally(&format!("family:cache:truncated-to:{}:disk-file", if l == 0 { "0" } else if l == n { "full" } else { "1..n-1" }));
        }
        run(s, it, &mut text, format!("begin cache hooks=1 skip={SKIP_ABOVE} layers=2"));
        for l in 0..=n {
            for layer in [0usize, 1] {
                run(s, it, &mut text, format!("putl {layer} {k} {}", hex(&v[..l])));
                run(s, it, &mut text, format!("getv {k} {c}"));
                run(s, it, &mut text, format!("has {k}"));
            }
            s.tally(&format!("family:cache:truncated-to:{}:raw-layer-put", if l == 0 { "0" } else if l == n { "full" } else { "1..n-1" }));
        }
        run(s, it, &mut text, format!("begin cache hooks=1 skip={SKIP_ABOVE} layers=1"));
        for l in 0..=n {
            run(s, it, &mut text, format!("caput {c} {}", hex(&v)));
            run(s, it, &mut text, format!("cacorrupt {c} {}", hex(&v[..l])));
            run(s, it, &mut text, format!("caget {c}"));
            s.tally(&format!("family:cache:truncated-to:{}:ca-file", if l == 0 { "0" } else if l == n { "full" } else { "1..n-1" }));
        }
        // ---- the empty value offered to the validated puts under keys that are not MD5(""), and
        // non-empty values offered under MD5("")
        let mut wrong: Vec<Vec<u8>> = vec![md5::compute(&v).0.to_vec(), vec![0u8; 16], vec![0xFF; 16], rng.bytes(16), md5::compute([0u8]).0.to_vec()];
        for _ in 0..3 {
            let mut e2 = e_raw.clone();
            e2[rng.below(16) as usize] ^= 1 << rng.below(8);
            wrong.push(e2);
        }
        for layers in [2usize, 1] {
            run(s, it, &mut text, format!("begin cache hooks=1 skip={SKIP_ABOVE} layers={layers}"));
            for w in &wrong {
                run(s, it, &mut text, format!("putv {k} {} -", hex(w)));
                run(s, it, &mut text, format!("has {k}"));
                run(s, it, &mut text, format!("getv {k} {}", hex(w)));
                run(s, it, &mut text, format!("caput {} -", hex(w)));
                run(s, it, &mut text, format!("caget {}", hex(w)));
            }
            s.tally("family:cache:empty-value-under-other-key");
            for w in [vec![0u8], vec![rng.byte()], v.clone()] {
                run(s, it, &mut text, format!("putv {k} {e} {}", hex(&w)));
                run(s, it, &mut text, format!("getv {k} {e}"));
                run(s, it, &mut text, format!("caput {e} {}", hex(&w)));
                run(s, it, &mut text, format!("caget {e}"));
            }
            s.tally("family:cache:nonempty-value-under-md5-of-empty");
            // ---- the genuinely empty content under MD5(""): stored, served from every layer, damaged, restored
            run(s, it, &mut text, format!("putv {k} {e} -"));
            run(s, it, &mut text, format!("has {k}"));
            run(s, it, &mut text, format!("getv {k} {e}"));
            run(s, it, &mut text, format!("getv {k} {c}"));
            for layer in 0..layers {
                let k3 = hex(&rng.bytes(16));
                run(s, it, &mut text, format!("putl {layer} {k3} -"));
                run(s, it, &mut text, format!("getv {k3} {e}"));
                run(s, it, &mut text, format!("has {k3}"));
                run(s, it, &mut text, format!("putl {layer} {k3} 00"));
                run(s, it, &mut text, format!("getv {k3} {e}"));
                run(s, it, &mut text, format!("has {k3}"));
            }
            if layers == 2 {
                let k3 = hex(&rng.bytes(16));
                run(s, it, &mut text, format!("putl 1 {k3} -"));
                run(s, it, &mut text, format!("corrupt 1 {k3} {}", hex(&v)));
                run(s, it, &mut text, format!("corrupt 1 {k3} -"));
                run(s, it, &mut text, format!("getv {k3} {e}"));
                for m in 0..=2usize {
                    let k4 = hex(&rng.bytes(16));
                    run(s, it, &mut text, format!("putl 1 {k4} -"));
                    run(s, it, &mut text, format!("getvf {k4} {e} {m} {}", hex(&v)));
                    run(s, it, &mut text, format!("has {k4}"));
                    run(s, it, &mut text, format!("putl 1 {k4} {}", hex(&v)));
                    run(s, it, &mut text, format!("getvf {k4} {e} {m} -"));
                    run(s, it, &mut text, format!("has {k4}"));
                    run(s, it, &mut text, format!("getv {k4} {e}"));
                }
            }
            run(s, it, &mut text, format!("caput {e} -"));
            run(s, it, &mut text, format!("caget {e}"));
            run(s, it, &mut text, format!("cacorrupt {e} 00"));
            run(s, it, &mut text, format!("caget {e}"));
            run(s, it, &mut text, format!("cacorrupt {e} -"));
            run(s, it, &mut text, format!("caget {e}"));
            for nn in 1..=3usize {
                for mode in ["put", "once"] {
                    run(s, it, &mut text, format!("caput {e} -"));
                    run(s, it, &mut text, format!("cagetf {e} {nn} {mode} {}", hex(&v)));
                    run(s, it, &mut text, format!("caget {e}"));
                    run(s, it, &mut text, format!("cacorrupt {e} {}", hex(&v)));
                    run(s, it, &mut text, format!("cagetf {e} {nn} {mode} -"));
                    run(s, it, &mut text, format!("caget {e}"));
                }
            }
            s.tally("family:cache:genuinely-empty-content");
        }
        // ---- the empty value served DURING a validating read of a non-empty content key
        for nn in 1..=3usize {
            run(s, it, &mut text, format!("begin cache hooks=1 skip={SKIP_ABOVE} layers=1"));
            for mode in ["put", "once"] {
                for start in ["honest", "damaged", "empty"] {
                    run(s, it, &mut text, format!("caput {c} {}", hex(&v)));
                    match start {
                        "damaged" => run(s, it, &mut text, format!("cacorrupt {c} {}aa55", hex(&v))),
                        "empty" => run(s, it, &mut text, format!("cacorrupt {c} -")),
                        _ => {}
                    }
                    run(s, it, &mut text, format!("cagetf {c} {nn} {mode} -"));
                    run(s, it, &mut text, format!("caget {c}"));
                    s.tally(&format!("family:cache:store-answers-empty-at-read-{nn}:{mode}:start-{start}"));
                }
            }
        }
        for m in 0..=2usize {
            run(s, it, &mut text, format!("begin cache hooks=1 skip={SKIP_ABOVE} layers=2"));
            for start in ["honest", "damaged", "empty", "in-memory"] {
                let k5 = hex(&rng.bytes(16));
                run(s, it, &mut text, format!("putl 1 {k5} {}", hex(&v)));
                match start {
                    "damaged" => run(s, it, &mut text, format!("corrupt 1 {k5} {}aa55", hex(&v))),
                    "empty" => run(s, it, &mut text, format!("corrupt 1 {k5} -")),
                    "in-memory" => run(s, it, &mut text, format!("putv {k5} {c} {}", hex(&v))),
                    _ => {}
                }
                run(s, it, &mut text, format!("getvf {k5} {c} {m} -"));
                run(s, it, &mut text, format!("has {k5}"));
                run(s, it, &mut text, format!("getv {k5} {c}"));
                s.tally(&format!("family:cache:disk-file-emptied:{}:{start}", if m == 0 { "before-read".to_string() } else { format!("after-read-{m}") }));
            }
        }
    }
    s.case(Some(&text));
    it.accepted_any = false;
}

fn cache_history(s: &mut Session, it: &mut Interp, rng: &mut Rng, hooks: bool, layers: usize, ops: usize) {
    it.exec(s, &format!("begin cache hooks={} skip={} layers={}", u8::from(hooks), SKIP_ABOVE, layers));
    let keys: Vec<Vec<u8>> = (0..3).map(|_| rng.bytes(16)).collect();
    // the value last validated-put under each key (what an honest store holds)
    let mut good: Vec<Vec<u8>> = (0..3).map(|_| { let n = rng.below(24) as usize; rng.bytes(n) }).collect();
    let mut ca_vals: Vec<Vec<u8>> = vec![];
    let mut text = String::new();
    for _ in 0..ops {
        let i = rng.below(3) as usize;
        let k = hex(&keys[i]);
        let line = match rng.below(14) {
            0 | 1 => {
                let v = { let n = rng.below(40) as usize; rng.bytes(n) };
                let c = if rng.chance(4, 5) { md5::compute(&v).0.to_vec() } else { rng.bytes(16) };
                if md5::compute(&v).0.to_vec() == c {
                    good[i] = v.clone();
                }
                format!("putv {k} {} {}", hex(&c), hex(&v))
            }
            2 => {
                // honest raw write into a lower layer
                let v = good[i].clone();
                format!("putl {} {k} {}", rng.below(layers as u64 + 1), hex(&v))
            }
            3 => {
                // raw write of other bytes (a corrupted backing store)
                let mut v = good[i].clone();
                if v.is_empty() { v.push(rng.byte()) } else { let p = rng.below(v.len() as u64) as usize; v[p] ^= 1 << rng.below(8); }
                format!("putl {} {k} {}", rng.below(layers as u64), hex(&v))
            }
            4 | 5 if layers == 2 => {
                let mut v = good[i].clone();
                match rng.below(3) {
                    0 if !v.is_empty() => { let p = rng.below(v.len() as u64) as usize; v[p] ^= 1 << rng.below(8); }
                    1 => { v.truncate(v.len() / 2); }
                    _ => v.push(rng.byte()),
                }
                format!("corrupt 1 {k} {}", hex(&v))
            }
            6..=8 => format!("getv {k} {}", hex(&md5::compute(&good[i]).0)),
            9 => format!("getv {k} {}", if rng.chance(1, 2) { "none".to_string() } else { hex(&rng.bytes(16)) }),
            10 => format!("has {k}"),
            11 => {
                let v = { let n = rng.below(40) as usize; rng.bytes(n) };
                let c = if rng.chance(4, 5) { md5::compute(&v).0.to_vec() } else { rng.bytes(16) };
                if md5::compute(&v).0.to_vec() == c {
                    ca_vals.push(v.clone());
                }
                format!("caput {} {}", hex(&c), hex(&v))
            }
            12 if !ca_vals.is_empty() => {
                let v = rng.pick(&ca_vals).clone();
                let mut w = v.clone();
                match rng.below(3) {
                    0 if !w.is_empty() => { let p = rng.below(w.len() as u64) as usize; w[p] ^= 1 << rng.below(8); }
                    1 => w.push(0),
                    _ => { w.truncate(w.len() / 2); }
                }
                format!("cacorrupt {} {}", hex(&md5::compute(&v).0), hex(&w))
            }
            _ => {
                if ca_vals.is_empty() || rng.chance(1, 5) { format!("caget {}", hex(&rng.bytes(16))) } else { format!("caget {}", hex(&md5::compute(rng.pick(&ca_vals)).0)) }
            }
        };
        text.push_str(&line);
        text.push('\n');
        it.exec(s, &line);
    }
    s.case(if it.accepted_any { Some(&text) } else { None });
    it.accepted_any = false;
}

fn main() {
    let args = Args::parse();
    quiet_panics();
    let mut s = Session::new(&args.out);
    let mut it = Interp::new();
    if let Some(p) = &args.replay {
        for l in read_case(p) {
            it.exec(&mut s, &l);
        }
        s.rule = "replay".into();
        s.finish();
        return;
    }
    let th = args.thorough();
    let mut rng = Rng::new(args.seed);
    let q = |quick: usize, thorough: usize| if th { thorough } else { quick };

    // ---- constants: compiled crates vs the values extracted from the source text
    it.exec(&mut s, "begin consts");
    it.exec(&mut s, "consts");
    // ---- LRU checkpoint files: every byte is protected; always exhaustive
    for (n, ver) in [(0usize, 1u16), (1, 1), (3, 0), (q(6, 20), 1)] {
        let d = gen_lru(&mut rng, n, ver);
        let plan = Plan { exhaustive: vec![(0, d.len())], sampled_flips: 0, subs: q(40, 400), truncs: q(12, 60), exts: q(10, 60), all_subs: false, truncs_at: vec![] };
        mutate_case(&mut s, &mut it, &mut rng, format!("begin lru {}", hex(&d)), &plan, true);
    }
    // ---- local headers: 30 bytes, every base offset class; exhaustive flips, thorough: every byte value
    for base in [0usize, 30, 61, 90, 1_000_003] {
        let h = LocalHeader::new(rng.bytes(16).try_into().unwrap(), rng.below(1 << 31) as u32, base);
        let d = h.to_bytes().to_vec();
        let plan = Plan { exhaustive: vec![(0, 30)], sampled_flips: 0, subs: q(60, 0), truncs: 4, exts: 4, all_subs: th, truncs_at: vec![] };
        mutate_case(&mut s, &mut it, &mut rng, format!("begin lhdr {base} {}", hex(&d)), &plan, true);
    }
    // ---- segment header block (16 local headers, the load path)
    for _ in 0..q(1, 3) {
        let d = SegmentHeader::generate(rng.below(1023) as u16, &rng.bytes(16).try_into().unwrap()).to_bytes().to_vec();
        let plan = Plan { exhaustive: if th { vec![(0, 480)] } else { vec![(0, 30), (450, 480)] }, sampled_flips: q(150, 0), subs: q(40, 300), truncs: 6, exts: 4, all_subs: false, truncs_at: vec![] };
        mutate_case(&mut s, &mut it, &mut rng, format!("begin seg {}", hex(&d)), &plan, true);
    }
    // ---- update sections
    for n in [1usize, 5, 21, 23] {
        let d = gen_upd(&mut rng, n);
        let used = n.min(21) * 24;
        let plan = Plan { exhaustive: if th { vec![(0, d.len().min(1024))] } else { vec![(0, 24), (used.saturating_sub(24), used)] }, sampled_flips: q(120, 0), subs: q(40, 400), truncs: q(6, 20), exts: q(4, 20), all_subs: false, truncs_at: vec![] };
        mutate_case(&mut s, &mut it, &mut rng, format!("begin upd {}", hex(&d)), &plan, true);
    }
    // ---- archive index: the footer is always flipped exhaustively (incl. the unprotected TOC hash)
    for (ks, ob, n) in [(16u8, 4u8, 5usize), (16, 5, 1), (9, 4, 40), (16, 6, 3), (16, 4, 0), (7, 4, 2)] {
        let d = gen_aidx(&mut rng, ks, ob, n);
        let len = d.len();
        let plan = Plan { exhaustive: vec![(len.saturating_sub(28), len)], sampled_flips: q(40, 600), subs: q(60, 600), truncs: q(16, 60), exts: q(12, 60), all_subs: false, truncs_at: vec![] };
        mutate_case(&mut s, &mut it, &mut rng, format!("begin aidx {}", hex(&d)), &plan, true);
        if n > 0 && (ks, ob) != (9, 4) {
            let plan = Plan { exhaustive: vec![(len.saturating_sub(28), len)], sampled_flips: q(10, 100), subs: q(20, 200), truncs: q(8, 30), exts: q(6, 30), all_subs: false, truncs_at: vec![] };
            mutate_case(&mut s, &mut it, &mut rng, format!("begin aidxc {}", hex(&d)), &plan, true);
        }
    }
    // ---- V1 responses with a checksum line
    for shape in [0u64, 1, 1, 2] {
        let d = gen_v1(&mut rng, shape);
        let len = d.len();
        // shape 2 carries an upper-case checksum: accepted by extract_checksum, never equal to the
        // lower-case digest text, so the base itself is (correctly) rejected
        let plan = Plan { exhaustive: if th { vec![(0, len)] } else { vec![(len.saturating_sub(80), len)] }, sampled_flips: q(100, 0), subs: q(40, 300), truncs: q(30, 120), exts: q(12, 60), all_subs: false, truncs_at: vec![] };
        mutate_case(&mut s, &mut it, &mut rng, format!("begin v1 {}", hex(&d)), &plan, shape != 2);
    }
    // ---- V1 responses whose PROTECTED bytes contain the text `Checksum: ` (1..n interior
    // occurrences: free text / empty / 63, 64, 65 digits / upper case / all zero / a nested line
    // that is valid for its own prefix; in a header value, at a line start, mid-line at the end of a
    // row, mid-line followed by more text, in the MIME preamble / epilogue, glued to the real line):
    // the LAST line governs, every corruption of the bytes before it must still be rejected
    {
        use Occ::*;
        use Place::*;
        let mut specs = vec![
            V1x { multipart: true, occs: vec![(NoteColTail, Text)], eol: "\r\n" },
            V1x { multipart: true, occs: vec![(RowStart, Hex64)], eol: "\r\n" },
            V1x { multipart: false, occs: vec![(NoteCol, Hex64)], eol: "\n" },
            V1x { multipart: true, occs: vec![(TopHeader, Hex63), (PartHeader, Hex65)], eol: "\r\n" },
            V1x { multipart: true, occs: vec![(Epilogue, ValidForPrefix)], eol: "\r\n" },
            V1x { multipart: true, occs: vec![(RowStart, ValidForPrefix)], eol: "\r\n" },
            V1x { multipart: false, occs: vec![(RowStart, Empty), (NoteCol, Hex64Upper), (RowStart, Zero64)], eol: "" },
            V1x { multipart: true, occs: vec![(Adjacent, Empty)], eol: "\n" },
            V1x { multipart: true, occs: vec![(Preamble, Hex64), (NoteCol, Text), (Epilogue, Hex64)], eol: "\r\n" },
        ];
        for _ in 0..q(4, 24) {
            let n = rng.range(1, 4) as usize;
            let occs = (0..n).map(|_| (*rng.pick(&PLACES), *rng.pick(&OCCS))).collect();
            specs.push(V1x { multipart: rng.chance(2, 3), occs, eol: *rng.pick(&["\r\n", "\r\n", "\n", ""]) });
        }
        for x in &specs {
            let (d, at) = gen_v1x(&mut rng, x);
            let len = d.len();
            let last = d.windows(10).rposition(|w| w == b"Checksum: ").unwrap_or(0);
            s.tally(&format!("v1x:occurrences={}", at.len()));
            for (p, o) in &x.occs {
                s.tally(&format!("v1x:{p:?}:{o:?}"));
            }
            // always exhaustive: every interior occurrence of the prefix (and its neighbours), the
            // real prefix, the first and last digits; truncations at every structure boundary
            let mut ex: Vec<(usize, usize)> = at.iter().map(|p| (p.saturating_sub(1), p + 12)).collect();
            ex.push((last.saturating_sub(2), last + 12));
            ex.push((len.saturating_sub(4), len));
            let mut cuts: Vec<usize> = vec![last, last + 10, last + 73, last + 74];
            for p in &at {
                let eol = d[*p..].iter().position(|b| *b == b'\n').map_or(len, |i| p + i + 1);
                cuts.extend([*p, p + 10, eol.saturating_sub(1), eol]);
            }
            let plan = Plan { exhaustive: if th { vec![(0, len)] } else { ex }, sampled_flips: q(60, 0), subs: q(30, 300), truncs: q(12, 60), exts: q(8, 40), all_subs: false, truncs_at: cuts };
            mutate_case(&mut s, &mut it, &mut rng, format!("begin v1 {}", hex(&d)), &plan, true);
        }
    }
    // ---- encoding tables (1 KiB pages): exhaustive over everything after the header in thorough
    for small in [true, false] {
        let d = gen_enc(&mut rng, small);
        let len = d.len();
        let prot = protected_ranges("enc", &d);
        // the checksum halves of the index entries are always exhaustive
        let mut ex: Vec<(usize, usize)> = prot.iter().filter(|(lo, hi)| hi - lo == 16).copied().collect();
        if th && small {
            ex = vec![(22, len)];
        }
        let plan = Plan { exhaustive: ex, sampled_flips: q(150, 1500), subs: q(40, 400), truncs: q(10, 40), exts: q(8, 40), all_subs: false, truncs_at: vec![] };
        mutate_case(&mut s, &mut it, &mut rng, format!("begin enc {}", hex(&d)), &plan, true);
    }
    // header bytes 0..22 (magic, version, hash sizes, page sizes, page COUNTS, flags, ESpec size):
    // unprotected, compared by K only (the counts/sizes reach the data_size guard of fix a1e7c2a)
    {
        let d = gen_enc(&mut rng, true);
        let plan = Plan { exhaustive: vec![(0, 22)], sampled_flips: 0, subs: 0, truncs: 0, exts: 0, all_subs: false, truncs_at: vec![] };
        mutate_case(&mut s, &mut it, &mut rng, format!("begin enc {}", hex(&d)), &plan, true);
    }
    // ---- validating caches: histories of put / raw put / corrupt-backing-file / validated get
    for h in 0..q(24, 300) {
        let hooks = h % 6 != 5;
        let layers = if h % 4 == 3 { 1 } else { 2 };
        cache_history(&mut s, &mut it, &mut rng, hooks, layers, q(40, 60));
    }
    // the size exemption of the validating read (private const 100 MiB): at the limit the value is
    // still validated, one byte above it is returned unchecked
    it.exec(&mut s, &format!("begin cache hooks=1 skip={SKIP_ABOVE} layers=1"));
    it.exec(&mut s, &format!("big {SKIP_ABOVE}"));
    it.exec(&mut s, &format!("big {}", SKIP_ABOVE + 1));
    s.case(Some("big"));

    // ---- "comparison weaker than equality": for every integrity check, every byte VALUE at every
    // position of the stored digest and of a small protected region (sampled positions of larger
    // ones), and two-byte substitutions whose differences cancel under XOR / sum / difference folds.
    // (Placed after the sections above so that their random streams are unchanged.)
    {
        let cat = |a: Vec<(usize, usize)>, b: Vec<(usize, usize)>| -> Vec<(usize, usize)> { a.into_iter().chain(b).collect() };
        // .lru: 0 entries — the whole 28-byte file; 1 entry — the stored MD5 and sampled other bytes
        let d = gen_lru(&mut rng, 0, 1);
        let pr = cat(pairs_in(4, 20), random_pairs(&mut rng, 0, d.len(), 24));
        family_case(&mut s, &mut it, &mut rng, format!("begin lru {}", hex(&d)), &(0..d.len()).collect::<Vec<_>>(), &pr);
        let d = gen_lru(&mut rng, 1, 1);
        let mut at: Vec<usize> = if th { (0..d.len()).collect() } else { (4..20).collect() };
        if !th {
            at.extend(random_positions(&mut rng, 0, 4, 1));
            at.extend(random_positions(&mut rng, 20, d.len(), 8));
        }
        let pr = cat(random_pairs(&mut rng, 4, 20, 30), random_pairs(&mut rng, 0, d.len(), 40));
        family_case(&mut s, &mut it, &mut rng, format!("begin lru {}", hex(&d)), &at, &pr);
        // local headers: all 30 bytes; pairs inside the two checksums, pairs in the same XOR lane
        // (positions 4 apart: they cancel in checksum B by design and must be caught by checksum A)
        for base in if th { vec![0usize, 30, 61, 90, 1_000_003] } else { vec![0usize, 61, 1_000_003] } {
            let h = LocalHeader::new(rng.bytes(16).try_into().unwrap(), rng.below(1 << 31) as u32, base);
            let d = h.to_bytes().to_vec();
            let lanes: Vec<(usize, usize)> = (0..26usize).flat_map(|i| (1..=6usize).map(move |k| (i, i + 4 * k))).filter(|(_, j)| *j < 30).collect();
            let pr = cat(cat(pairs_in(22, 30), lanes), random_pairs(&mut rng, 0, 30, 20));
            family_case(&mut s, &mut it, &mut rng, format!("begin lhdr {base} {}", hex(&d)), &(0..30).collect::<Vec<_>>(), &pr);
        }
        // segment header block: one sampled position per bucket header, pairs inside one header
        {
            let d = SegmentHeader::generate(rng.below(1023) as u16, &rng.bytes(16).try_into().unwrap()).to_bytes().to_vec();
            let at: Vec<usize> = (0..16usize).map(|i| i * 30 + rng.below(30) as usize).collect();
            let pr: Vec<(usize, usize)> = (0..16usize).flat_map(|i| random_pairs(&mut rng, i * 30, i * 30 + 30, 2)).collect();
            family_case(&mut s, &mut it, &mut rng, format!("begin seg {}", hex(&d)), &at, &pr);
        }
        // update sections: every byte of the first slot (guard + hashed bytes); guard of a later slot
        {
            let d = gen_upd(&mut rng, 1);
            let pr = cat(pairs_in(0, 4), random_pairs(&mut rng, 0, 23, 24));
            family_case(&mut s, &mut it, &mut rng, format!("begin upd {}", hex(&d)), &(0..23).collect::<Vec<_>>(), &pr);
            let d = gen_upd(&mut rng, 5);
            let mut at: Vec<usize> = (48..52).collect();
            at.extend(random_positions(&mut rng, 52, 71, 4));
            let pr = cat(pairs_in(48, 52), random_pairs(&mut rng, 48, 71, 12));
            family_case(&mut s, &mut it, &mut rng, format!("begin upd {}", hex(&d)), &at, &pr);
        }
        // archive-index footers: the 12 hashed field bytes and the 8 stored hash bytes, both entry
        // points, plus IndexFooter::is_valid by itself (`fvalid`) on every mutated footer
        for (ks, ob, n, chunked) in [(16u8, 4u8, 0usize, false), (9, 5, 50, false), (16, 4, 58, true)] {
            let d = gen_aidx(&mut rng, ks, ob, n);
            let len = d.len();
            let pr = cat(pairs_in(len - 8, len), random_pairs(&mut rng, len - 20, len, 30));
            family_case(&mut s, &mut it, &mut rng, format!("begin {} {}", if chunked { "aidxc" } else { "aidx" }, hex(&d)), &(len - 20..len).collect::<Vec<_>>(), &pr);
        }
        // encoding table (two 1 KiB pages): the whole stored checksum of the CKey page, sampled bytes of
        // the EKey checksum and of both pages
        {
            let d = gen_enc(&mut rng, true);
            let prot = protected_ranges("enc", &d);
            let sums: Vec<(usize, usize)> = prot.iter().filter(|(lo, hi)| hi - lo == 16).copied().collect();
            let pages: Vec<(usize, usize)> = prot.iter().filter(|(lo, hi)| hi - lo != 16).copied().collect();
            let mut at: Vec<usize> = (sums[0].0..sums[0].1).collect();
            let mut pr = if th { pairs_in(sums[0].0, sums[0].1) } else { random_pairs(&mut rng, sums[0].0, sums[0].1, 40) };
            if let Some((lo, hi)) = sums.last().copied().filter(|_| sums.len() > 1) {
                at.extend(random_positions(&mut rng, lo, hi, if th { 16 } else { 3 }));
                pr.extend(random_pairs(&mut rng, lo, hi, 12));
            }
            for (lo, hi) in &pages {
                // (the used part of a page is at its start; the rest is padding, hashed all the same)
                at.extend(random_positions(&mut rng, *lo, lo + 64, 2));
                at.extend(random_positions(&mut rng, *lo, *hi, 1));
                pr.extend(random_pairs(&mut rng, *lo, *hi, 6));
            }
            family_case(&mut s, &mut it, &mut rng, format!("begin enc {}", hex(&d)), &at, &pr);
        }
        // V1 response: every value at each of the 64 stored digits (non-hex values damage the line:
        // the fail-open finding), sampled message bytes, cancelling pairs of digits
        {
            let d = gen_v1(&mut rng, 0);
            let st = stored_ranges("v1", &d)[0];
            // the digits are text: at every one of the 64 positions every other hex digit in both
            // cases and the characters next to the digit ranges; all 255 values at sampled positions
            let mut at: Vec<usize> = if th { (st.0..st.1).collect() } else { random_positions(&mut rng, st.0, st.1, 6) };
            let classes: Vec<u8> = b"0123456789abcdefABCDEF/:@G`g \r\n".iter().copied().chain([0u8, 0x80, 0xFF]).collect();
            let some: Vec<(usize, Vec<u8>)> = (st.0..st.1).filter(|p| !at.contains(p)).map(|p| (p, classes.clone())).collect();
            at.extend(random_positions(&mut rng, 0, st.0 - 10, if th { 24 } else { 4 }));
            let pr = cat(random_pairs(&mut rng, st.0, st.1, if th { 400 } else { 60 }), random_pairs(&mut rng, 0, st.0 - 10, 10));
            family_case_with(&mut s, &mut it, &mut rng, format!("begin v1 {}", hex(&d)), &at, &some, &pr);
        }
        cache_equality_families(&mut s, &mut it, &mut rng, th);
        // ---- "the bytes returned are not the bytes that were validated"
        cache_fault_family(&mut s, &mut it, &mut rng, q(2, 12));
        ml_fault_family(&mut s, &mut it, &mut rng, q(2, 12));
        // ---- "degenerate payloads": the empty value in every damaged-variant family of the
        // validating caches, the genuinely empty content under MD5("")
        cache_degenerate_family(&mut s, &mut it, &mut rng, q(2, 8));
        // ---- the same boundary for the in-memory acceptors: artifacts with an EMPTY protected
        // region / zero entries, and every short prefix (0..=48 bytes, the last 16 cuts) of one
        // artifact of each kind
        {
            // V1: a response that is nothing but its checksum line (protected region = 0 bytes:
            // SHA-256 of the empty string), and one with a 1-byte region; every bit of both
            for msg in [&b""[..], &b"\n"[..], &b"x"[..]] {
                for eol in ["\r\n", "\n", ""] {
                    let mut d = msg.to_vec();
                    d.extend_from_slice(format!("Checksum: {}{eol}", hex(&sha256(msg))).as_bytes());
                    let len = d.len();
                    let plan = Plan { exhaustive: vec![(0, len)], sampled_flips: 0, subs: 8, truncs: 2, exts: 3, all_subs: false, truncs_at: (0..=len).collect() };
                    mutate_case(&mut s, &mut it, &mut rng, format!("begin v1 {}", hex(&d)), &plan, false);
                    s.tally("family:degenerate:v1-empty-or-1-byte-region");
                }
            }
            // update section with zero entries (one empty page)
            {
                let d = gen_upd(&mut rng, 0);
                let plan = Plan { exhaustive: vec![(0, 48)], sampled_flips: 20, subs: 10, truncs: 4, exts: 2, all_subs: false, truncs_at: vec![0, 1, 23, 24, 25] };
                mutate_case(&mut s, &mut it, &mut rng, format!("begin upd {}", hex(&d)), &plan, false);
                s.tally("family:degenerate:upd-zero-entries");
            }
            let heads = |kind: &str, d: Vec<u8>| -> (String, Plan) {
                let n = d.len();
                let mut cuts: Vec<usize> = (0..=n.min(48)).collect();
                cuts.extend(n.saturating_sub(16)..n);
                cuts.sort_unstable();
                cuts.dedup();
                (format!("begin {kind} {}", hex(&d)), Plan { exhaustive: vec![], sampled_flips: 0, subs: 0, truncs: 0, exts: 0, all_subs: false, truncs_at: cuts })
            };
            let lh = LocalHeader::new(rng.bytes(16).try_into().unwrap(), rng.below(1 << 31) as u32, 61);
            let bases: Vec<(String, Vec<u8>)> = vec![
                ("lru".into(), gen_lru(&mut rng, 0, 1)),
                ("lru".into(), gen_lru(&mut rng, 2, 1)),
                ("lhdr 61".into(), lh.to_bytes().to_vec()),
                ("seg".into(), SegmentHeader::generate(rng.below(1023) as u16, &rng.bytes(16).try_into().unwrap()).to_bytes().to_vec()),
                ("upd".into(), gen_upd(&mut rng, 1)),
                ("aidx".into(), gen_aidx(&mut rng, 16, 4, 0)),
                ("aidx".into(), gen_aidx(&mut rng, 16, 4, 1)),
                ("aidxc".into(), gen_aidx(&mut rng, 16, 4, 1)),
                ("v1".into(), gen_v1(&mut rng, 0)),
                ("enc".into(), gen_enc(&mut rng, true)),
            ];
            for (kind, d) in bases {
                let (b, plan) = heads(&kind, d);
                mutate_case(&mut s, &mut it, &mut rng, b, &plan, true);
                s.tally("family:degenerate:short-prefixes");
            }
        }
    }

    s.rule = "valid artifacts from the crates' builders (encoding tables with 1 KiB pages, archive indices with key sizes 7/9/16 and offset sizes 4/5/6, .lru files with 0–20 entries, update sections with 1–23 entries, local headers at five base offsets, segment header blocks, V1 responses plain/multipart/upper-case checksum, and V1 responses whose checksummed bytes themselves contain 1–4 occurrences of the text `Checksum: ` — free text / empty / 63, 64, 65 digits / upper case / all zero / a nested line valid for its own prefix, placed in a header value, at a line start, mid-line at the end of a row, mid-line followed by more text, in the MIME preamble / epilogue or glued to the real line, with line ends CRLF / LF / none: 9 fixed shapes + random ones) × single-bit flips (exhaustive over the protected region for artifacts ≤ 4 KiB in thorough; always exhaustive over .lru files, local headers, index footers, checksum fields, the 22 encoding header bytes and every `Checksum: ` occurrence of a V1 response), byte substitutions (0x00, 0xFF, +1, random; every value for local headers in thorough), truncations and insertions at protected-range boundaries (V1: cuts at the start / end of every `Checksum: ` occurrence and line); cache histories of put_with_validation / put_to_layer / overwrite-backing-file / get_with_validation / ContentAddressedCache put/corrupt/get; 'comparison weaker than equality' families: all 255 other byte values at every position of each stored digest and small protected region (.lru with 0 / 1 entries, local headers, first update slot, archive-index footers through parse / open / is_valid alone, first CKey page checksum; sampled positions of pages, segment block, V1 message; V1 digits: all values at sampled positions, every hex digit in both cases + neighbouring characters at the others; content-key bytes on both validated puts, value bytes behind both validated gets) and two-byte substitutions whose differences cancel under XOR / sum / difference folds (all pairs inside stored digests, same-lane pairs of local headers, sampled pairs elsewhere); 'returned bytes are the validated bytes' families: get_validated through a harness-owned inner cache that answers differently at the 1st / 2nd / 3rd read of the call (rewritten from then on / that read only; bit flip, truncation, extension, other value, entry gone, same bytes; honest / already damaged store), get_with_validation with the disk layer's file rewritten at the DiskCache schedule points before the first / after the first / after a second read; 'degenerate payload' families: every truncation length 0..=n (0 = empty file) of a stored value behind both validated reads (disk file, memory layer, content-addressed file), the empty value offered to both validated puts under keys other than MD5(\"\") and non-empty values under MD5(\"\"), the empty value served at read 1 / 2 / 3 and at the DiskCache schedule points, the genuinely empty content under MD5(\"\") stored / served / damaged / restored, V1 responses with a 0- or 1-byte protected region (every bit, every cut), a zero-entry update section, every prefix of 0..=48 bytes and the last 16 cuts of one artifact of each kind; evaluations = mutated artifacts + cache histories; non-trivial = acceptor got past its length guards (any response except err:io / none) resp. history reached a hit or a validation error; distinct = canonical (kind, base prefix, request) text".into();
    s.finish();
}
