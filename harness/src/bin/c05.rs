//! C05 — key index (`IndexManager`) and residency database (`ResidencyDb`) as persistent maps.
//! Runs the REAL code on protocol lines (K, compared with the Lean model `drv_c05`) and checks
//! every response against a reference `HashMap` / `HashSet` (O).
use cascette_client_storage::index::update::{ENTRIES_PER_PAGE, MIN_UPDATE_SECTION_SIZE, UPDATE_PAGE_SIZE};
use cascette_client_storage::index::{IndexManager, UpdateStatus};
use cascette_client_storage::kmt::key_state::{BATCH_DELETE_THRESHOLD, RESIDENCY_ENTRIES_PER_PAGE, ResidencyDb};
use cascette_crypto::EncodingKey;
use std::collections::{BTreeSet, HashMap, HashSet};
use std::panic::AssertUnwindSafe;
use verif_harness::*;

type K9 = [u8; 9];
type Loc = (u16, u32, u32);

fn bucket9(k: &[u8]) -> u8 {
    let h = k[..9].iter().fold(0u8, |a, b| a ^ b);
    (h & 0x0F) ^ (h >> 4)
}

fn mix(k: &K9, v: &Loc) -> u64 {
    // order-independent set hash component (for "reload = some earlier snapshot")
    let mut h = 0xcbf2_9ce4_8422_2325u64;
    for b in k.iter().copied().chain(v.0.to_le_bytes()).chain(v.1.to_le_bytes()).chain(v.2.to_le_bytes()) {
        h ^= b as u64;
        h = h.wrapping_mul(0x1000_0000_01b3);
    }
    h ^ (h >> 29)
}

/// real index + reference map
struct Idx {
    dir: tempfile::TempDir,
    mgr: IndexManager,
    refm: HashMap<K9, Loc>,
    /// no mutation since the last `save` (then a reload must reproduce the map exactly)
    clean: bool,
    /// per bucket: set hashes of every state the bucket's map went through since it was last
    /// known to be written (a reload without a save must land on one of them)
    snaps: Vec<HashSet<u64>>,
    cur: Vec<u64>,
    /// the same for bucket 0 with the all-zero key left out (to recognise the recorded finding)
    snaps_nz: HashSet<u64>,
    cur_nz: u64,
    /// the case used an id > 1023 or an offset >= 2^30 (outside the property's field limits):
    /// reload results are compared with the model only
    oor: bool,
    /// the case stored a key with an all-zero 9-byte prefix (file bytes then differ from the
    /// entry-level model image, which drops such records): no `file` requests
    zero_used: bool,
    /// exact mirror of the directory: the map each bucket's file holds (= the reference map of
    /// that bucket when the file was last written: save_all, flush with pending updates, or the
    /// flush a mutator performs on a full update section) and the number of update-section
    /// entries in that file
    disk_map: HashMap<K9, Loc>,
    disk_log_len: Vec<usize>,
    failed: bool,
    trace: Vec<String>,
    // mirror of the update-section lengths (exact: every append, flush, clear and reload is tracked)
    log_len: Vec<usize>,
    full_hits: u64,
    flushes: u64,
    tomb_gets: u64,
    reloads: u64,
}

impl Idx {
    fn new() -> Idx {
        let dir = tempfile::tempdir().expect("tempdir");
        let mgr = IndexManager::new(dir.path());
        Idx {
            dir, mgr, refm: HashMap::new(), clean: true,
            snaps: (0..16).map(|_| HashSet::from([0u64])).collect(), cur: vec![0; 16],
            snaps_nz: HashSet::from([0u64]), cur_nz: 0,
            oor: false, zero_used: false, disk_map: HashMap::new(), disk_log_len: vec![0; 16],
            failed: false, trace: vec![], log_len: vec![0; 16],
            full_hits: 0, flushes: 0, tomb_gets: 0, reloads: 0,
        }
    }
    fn touch(&mut self, b: usize) {
        self.clean = false;
        let c = self.cur[b];
        self.snaps[b].insert(c);
        if b == 0 { self.snaps_nz.insert(self.cur_nz); }
    }
    fn ref_set(&mut self, k: K9, v: Option<Loc>) {
        let b = bucket9(&k) as usize;
        let nz = b == 0 && k != [0u8; 9];
        if let Some(old) = self.refm.get(&k) {
            self.cur[b] ^= mix(&k, old);
            if nz { self.cur_nz ^= mix(&k, old); }
        }
        match v {
            Some(v) => { self.cur[b] ^= mix(&k, &v); if nz { self.cur_nz ^= mix(&k, &v); } self.refm.insert(k, v); }
            None => { self.refm.remove(&k); }
        }
        self.touch(b);
    }
    /// bucket `b`'s file is (re)written from the current reference map
    fn wrote_bucket(&mut self, b: usize, log_len: usize) {
        self.disk_map.retain(|k, _| bucket9(k) as usize != b);
        for (k, v) in &self.refm { if bucket9(k) as usize == b { self.disk_map.insert(*k, *v); } }
        self.disk_log_len[b] = log_len;
    }
    fn appended(&mut self, b: usize, cap: usize) {
        if self.log_len[b] >= cap {
            self.full_hits += 1;
            self.flushes += 1;
            self.wrote_bucket(b, 0);
            self.log_len[b] = 0;
            // the bucket was written with the map as it was BEFORE this mutation: that state is
            // already in snaps
        }
        self.log_len[b] += 1;
    }
}

struct Res {
    dir: tempfile::TempDir,
    db: ResidencyDb,
    resident: HashSet<[u8; 16]>,
    span_marked: HashSet<[u8; 16]>,
    saved: HashSet<[u8; 16]>,
    saved_span: HashSet<[u8; 16]>,
    failed: bool,
    trace: Vec<String>,
}

impl Res {
    fn new() -> Res {
        let dir = tempfile::tempdir().expect("tempdir");
        let db = ResidencyDb::new(dir.path().join("key_state_v8"));
        Res { dir, db, resident: HashSet::new(), span_marked: HashSet::new(), saved: HashSet::new(), saved_span: HashSet::new(), failed: false, trace: vec![] }
    }
}

enum Mode { None, Idx(Box<Idx>), Res(Box<Res>) }

struct H {
    mode: Mode,
    rt: tokio::runtime::Runtime,
    cap: usize,
}

fn key16(s: &str) -> Option<[u8; 16]> {
    unhex(s)?.try_into().ok()
}
fn k9(k: &[u8; 16]) -> K9 {
    let mut a = [0u8; 9];
    a.copy_from_slice(&k[..9]);
    a
}
fn show_loc(k: &K9, v: &Loc) -> String {
    format!("{} {} {} {}", hex::encode(k), v.0, v.1, v.2)
}
fn pad_key(i: usize) -> [u8; 16] {
    // 0xFEED * 2^112 + i, big-endian (same formula as Model.Residency.padKey)
    let mut k = [0u8; 16];
    k[0] = 0xFE;
    k[1] = 0xED;
    k[8..16].copy_from_slice(&(i as u64).to_be_bytes());
    k
}

impl H {
    fn fail(s: &mut Session, failed: &mut bool, trace: &[String], sig: &str, msg: String) {
        if !*failed {
            *failed = true;
            s.oracle_fail(sig, &msg, trace);
        }
    }

    /// run one request line on the real code, return the canonical response, check it against
    /// the reference
    fn exec(&mut self, s: &mut Session, line: &str) -> String {
        let toks: Vec<&str> = line.split(' ').filter(|t| !t.is_empty()).collect();
        if toks.first() == Some(&"begin") {
            let want_idx = format!("begin idx cap_pages={} per_page={}", MIN_UPDATE_SECTION_SIZE / UPDATE_PAGE_SIZE, ENTRIES_PER_PAGE);
            let want_res = format!("begin res per_page={} batch={}", RESIDENCY_ENTRIES_PER_PAGE, BATCH_DELETE_THRESHOLD);
            if line == want_idx {
                let mut i = Idx::new();
                i.trace.push(line.to_string());
                self.mode = Mode::Idx(Box::new(i));
                return "ok".into();
            } else if line == want_res {
                let mut r = Res::new();
                r.trace.push(line.to_string());
                self.mode = Mode::Res(Box::new(r));
                return "ok".into();
            } else if toks.get(1) == Some(&"idx") || toks.get(1) == Some(&"res") {
                // a case recorded with other constants than the compiled crate's: the model would
                // follow the line, the code cannot — report it instead of comparing apples and pears
                s.oracle_fail("constants-changed", &format!("case was recorded for `{line}`, the crate now has `{want_idx}` / `{want_res}`"), &[line.to_string()]);
                self.mode = Mode::None;
                return "ok".into();
            }
            return "bad-op".into();
        }
        let cap = self.cap;
        match &mut self.mode {
            Mode::None => "bad-op".into(),
            Mode::Idx(ix) => {
                ix.trace.push(line.to_string());
                let r = catch(AssertUnwindSafe(|| Self::exec_idx(ix, &self.rt, s, &toks, cap)));
                match r {
                    Ok(Some(r)) => r,
                    Ok(None) => { ix.trace.pop(); "bad-op".into() }
                    Err(p) => {
                        let (mut f, t) = (ix.failed, ix.trace.clone());
                        Self::fail(s, &mut f, &t, "panic", format!("panic in index op `{line}`: {p}"));
                        ix.failed = true;
                        "panic".into()
                    }
                }
            }
            Mode::Res(rs) => {
                rs.trace.push(if line.len() > 2000 { format!("{}", line) } else { line.to_string() });
                let r = catch(AssertUnwindSafe(|| Self::exec_res(rs, s, &toks)));
                match r {
                    Ok(Some(r)) => r,
                    Ok(None) => { rs.trace.pop(); "bad-op".into() }
                    Err(p) => {
                        let (mut f, t) = (rs.failed, rs.trace.clone());
                        Self::fail(s, &mut f, &t, "panic", format!("panic in residency op `{line}`: {p}"));
                        rs.failed = true;
                        "panic".into()
                    }
                }
            }
        }
    }

    fn iter_sorted(mgr: &IndexManager) -> Vec<(u8, K9, Loc)> {
        let mut v: Vec<(u8, K9, Loc)> = mgr.iter_entries().map(|(b, e)| (b, e.key, (e.archive_id(), e.archive_offset(), e.size))).collect();
        v.sort();
        v
    }

    fn exec_idx(ix: &mut Idx, rt: &tokio::runtime::Runtime, s: &mut Session, toks: &[&str], cap: usize) -> Option<String> {
        let bool_s = |b: bool| if b { "true".to_string() } else { "false".to_string() };
        let resp = match toks {
            ["add", k, id, off, size] | ["upd", k, id, off, size] => {
                let key = key16(k)?;
                let (id, off, size): (u16, u32, u32) = (id.parse().ok()?, off.parse().ok()?, size.parse().ok()?);
                let ek = EncodingKey::from_bytes(key);
                let kk = k9(&key);
                let b = bucket9(&kk) as usize;
                if id > 1023 || off >= (1 << 30) { ix.oor = true; }
                if kk == [0u8; 9] { ix.zero_used = true; }
                if toks[0] == "add" {
                    let r = ix.mgr.add_entry(&ek, id, off, size);
                    ix.appended(b, cap);
                    ix.ref_set(kk, Some((id, off, size)));
                    if r.is_err() {
                        Self::fail(s, &mut ix.failed, &ix.trace, "add-err", format!("add_entry returned Err for key {}", hex::encode(kk)));
                    }
                    if r.is_ok() { "ok".into() } else { "err".into() }
                } else {
                    let present = ix.refm.contains_key(&kk);
                    let r = ix.mgr.update_entry(&ek, id, off, size);
                    if r { ix.appended(b, cap); }
                    if present { ix.ref_set(kk, Some((id, off, size))); }
                    if r != present {
                        let shape = if ix.log_len[b] >= cap { "full-log" } else { "log-has-room" };
                        Self::fail(s, &mut ix.failed, &ix.trace, &format!("upd-returns-{r}-key-{}-{shape}", if present { "present" } else { "absent" }),
                            format!("update_entry({}) returned {r}, reference map says present={present}", hex::encode(kk)));
                    }
                    bool_s(r)
                }
            }
            ["rm", k] => {
                let key = key16(k)?;
                let kk = k9(&key);
                let b = bucket9(&kk) as usize;
                let present = ix.refm.contains_key(&kk);
                let r = ix.mgr.remove_entry(&EncodingKey::from_bytes(key));
                let was_full = ix.log_len[b] >= cap;
                if r { ix.appended(b, cap); }
                if present { ix.ref_set(kk, None); }
                if r != present {
                    Self::fail(s, &mut ix.failed, &ix.trace, &format!("rm-returns-{r}-key-{}", if present { "present" } else { "absent" }),
                        format!("remove_entry({}) returned {r}, reference map says present={present}", hex::encode(kk)));
                } else if r && ix.mgr.has_entry(&EncodingKey::from_bytes(key)) {
                    let shape = if was_full { "full-log" } else { "log-has-room" };
                    Self::fail(s, &mut ix.failed, &ix.trace, &format!("rm-true-key-still-visible-{shape}"),
                        format!("remove_entry({}) returned true but the key is still found by lookup", hex::encode(kk)));
                }
                bool_s(r)
            }
            ["st", k, st] => {
                let key = key16(k)?;
                let kk = k9(&key);
                let b = bucket9(&kk) as usize;
                let status = match *st { "0" => UpdateStatus::Normal, "3" => UpdateStatus::Delete, "6" => UpdateStatus::HeaderNonResident, "7" => UpdateStatus::DataNonResident, _ => return None };
                let present = ix.refm.contains_key(&kk);
                let r = ix.mgr.update_entry_status(&EncodingKey::from_bytes(key), status);
                if r { ix.appended(b, cap); }
                if present {
                    if *st == "3" { ix.ref_set(kk, None); } else { ix.touch(b); }
                }
                if r != present {
                    let shape = if ix.log_len[b] >= cap { "full-log" } else { "log-has-room" };
                    Self::fail(s, &mut ix.failed, &ix.trace, &format!("st-returns-{r}-key-{}-{shape}", if present { "present" } else { "absent" }),
                        format!("update_entry_status({}, {st}) returned {r}, reference map says present={present}", hex::encode(kk)));
                }
                bool_s(r)
            }
            ["get", k] | ["has", k] => {
                let key = key16(k)?;
                let kk = k9(&key);
                let got = ix.mgr.lookup(&EncodingKey::from_bytes(key)).map(|e| (e.key, (e.archive_id(), e.archive_offset(), e.size)));
                let want = ix.refm.get(&kk).copied();
                if want.is_none() { ix.tomb_gets += 1; }
                let got_v = got.map(|g| g.1);
                if got_v != want || got.is_some_and(|g| g.0 != kk) {
                    let sig = match (got_v, want) {
                        (Some(_), None) => "get-stale-entry-for-removed-or-absent-key",
                        (None, Some(_)) => if kk == [0u8; 9] { "get-zero-key-lost" } else { "get-entry-missing" },
                        _ => "get-wrong-location",
                    };
                    Self::fail(s, &mut ix.failed, &ix.trace, sig, format!("lookup({}) = {:?}, reference map has {:?}", hex::encode(kk), got, want));
                }
                if toks[0] == "has" {
                    let h = ix.mgr.has_entry(&EncodingKey::from_bytes(key));
                    if h != got.is_some() {
                        Self::fail(s, &mut ix.failed, &ix.trace, "has-differs-from-lookup", format!("has_entry({}) = {h}, lookup = {:?}", hex::encode(kk), got));
                    }
                    bool_s(h)
                } else {
                    match got { Some((k, v)) => show_loc(&k, &v), None => "none".into() }
                }
            }
            ["iter"] | ["count"] => {
                let v = Self::iter_sorted(&ix.mgr);
                let mut want: Vec<(u8, K9, Loc)> = ix.refm.iter().map(|(k, v)| (bucket9(k), *k, *v)).collect();
                want.sort();
                if v != want {
                    let extra = v.iter().filter(|e| !want.contains(e)).count();
                    let missing = want.iter().filter(|e| !v.contains(e)).count();
                    let sig = if missing > 0 && extra == 0 { "iter-misses-entries" } else if extra > 0 && missing == 0 { "iter-has-extra-entries" } else { "iter-differs" };
                    Self::fail(s, &mut ix.failed, &ix.trace, sig, format!("iter_entries yields {} entries ({extra} not in the reference map), reference has {} ({missing} not enumerated)", v.len(), want.len()));
                }
                let c = ix.mgr.entry_count();
                if c != v.len() {
                    Self::fail(s, &mut ix.failed, &ix.trace, "count-differs-from-iter", format!("entry_count() = {c}, iter_entries yields {}", v.len()));
                }
                if toks[0] == "count" { c.to_string() } else {
                    let mut o = format!("n={}", v.len());
                    for (b, k, l) in &v { o.push_str(&format!(" {b}:{}:{}:{}:{}", hex::encode(k), l.0, l.1, l.2)); }
                    o
                }
            }
            ["flush", b] => {
                let b: u8 = b.parse().ok()?;
                let r = ix.mgr.flush_updates_for_bucket(b);
                if (b as usize) < 16 {
                    if ix.log_len[b as usize] > 0 { ix.flushes += 1; ix.wrote_bucket(b as usize, 0); }
                    ix.log_len[b as usize] = 0;
                }
                if r.is_err() { Self::fail(s, &mut ix.failed, &ix.trace, "flush-err", format!("flush_updates_for_bucket({b}) failed: {r:?}")); }
                if r.is_ok() { "ok".into() } else { "err".into() }
            }
            ["flushall"] => {
                let r = ix.mgr.flush_all_updates();
                for b in 0..16 { if ix.log_len[b] > 0 { ix.flushes += 1; ix.wrote_bucket(b, 0); } ix.log_len[b] = 0; }
                if r.is_err() { Self::fail(s, &mut ix.failed, &ix.trace, "flush-err", format!("flush_all_updates failed: {r:?}")); }
                if r.is_ok() { "ok".into() } else { "err".into() }
            }
            ["save"] => {
                let r = ix.mgr.save_all();
                if r.is_err() { Self::fail(s, &mut ix.failed, &ix.trace, "save-err", format!("save_all failed: {r:?}")); }
                ix.clean = true;
                for b in 0..16 { ix.snaps[b] = HashSet::from([ix.cur[b]]); }
                ix.snaps_nz = HashSet::from([ix.cur_nz]);
                ix.disk_map = ix.refm.clone();
                ix.disk_log_len = ix.log_len.clone();
                if r.is_ok() { "ok".into() } else { "err".into() }
            }
            ["clear", b] => {
                let b: u8 = b.parse().ok()?;
                let n = ix.mgr.clear_bucket(b);
                if (b as usize) < 16 {
                    let ks: Vec<K9> = ix.refm.keys().filter(|k| bucket9(&k[..]) == b).copied().collect();
                    for k in ks { ix.ref_set(k, None); }
                    ix.touch(b as usize);
                    ix.log_len[b as usize] = 0;
                }
                n.to_string()
            }
            ["reload"] => {
                ix.reloads += 1;
                let mut m = IndexManager::new(ix.dir.path());
                let r = rt.block_on(m.load_all());
                ix.mgr = m;
                if r.is_err() { Self::fail(s, &mut ix.failed, &ix.trace, "load-err", format!("load_all failed: {r:?}")); }
                let v = Self::iter_sorted(&ix.mgr);
                if !ix.oor && !ix.failed {
                    if ix.clean {
                        let mut want: Vec<(u8, K9, Loc)> = ix.refm.iter().map(|(k, v)| (bucket9(k), *k, *v)).collect();
                        want.sort();
                        if v != want {
                            let missing: Vec<&(u8, K9, Loc)> = want.iter().filter(|e| !v.contains(e)).collect();
                            let extra = v.iter().filter(|e| !want.contains(e)).count();
                            let sig = if extra == 0 && !missing.is_empty() && missing.iter().all(|e| e.1 == [0u8; 9]) { "reload-loses-all-zero-key" }
                                else if extra == 0 { "reload-after-save-loses-entries" } else { "reload-after-save-differs" };
                            Self::fail(s, &mut ix.failed, &ix.trace, sig, format!("save_all; reload: {} entries reloaded, {} expected, {} missing (first {:?}), {extra} unexpected", v.len(), want.len(), missing.len(), missing.first().map(|e| hex::encode(e.1))));
                        }
                    } else {
                        // without a save in between, every bucket must come back as one of the
                        // states it went through since it was last written
                        let mut h = vec![0u64; 16];
                        for (b, k, l) in &v { h[*b as usize] ^= mix(k, l); }
                        for b in 0..16 {
                            if !ix.snaps[b].contains(&h[b]) {
                                let zero_only = b == 0 && !v.iter().any(|e| e.1 == [0u8; 9]) && ix.snaps_nz.contains(&h[0]);
                                let sig = if zero_only { "reload-loses-all-zero-key" } else { "reload-not-an-earlier-state" };
                                Self::fail(s, &mut ix.failed, &ix.trace, sig, format!("after reload bucket {b} holds a map it never held since its last save{}", if zero_only { " (an earlier state minus the all-zero key)" } else { "" }));
                                break;
                            }
                        }
                    }
                }
                // exact clause (Props.C05.index_refines_map_durable): every bucket comes back as the
                // map it held when its file was last written
                if !ix.oor && !ix.failed {
                    let mut want: Vec<(u8, K9, Loc)> = ix.disk_map.iter().map(|(k, v)| (bucket9(k), *k, *v)).collect();
                    want.sort();
                    if v != want {
                        let missing: Vec<&(u8, K9, Loc)> = want.iter().filter(|e| !v.contains(e)).collect();
                        let extra = v.iter().filter(|e| !want.contains(e)).count();
                        let sig = if extra == 0 && !missing.is_empty() && missing.iter().all(|e| e.1 == [0u8; 9]) { "reload-loses-all-zero-key" }
                            else if extra == 0 { "reload-misses-entries-of-last-written-state" }
                            else if missing.is_empty() { "reload-has-entries-newer-or-older-than-last-written-state" }
                            else { "reload-not-last-written-state" };
                        Self::fail(s, &mut ix.failed, &ix.trace, sig, format!("reload: {} entries loaded, the files were last written with {} entries; {} of those missing (first {:?}), {extra} loaded entries are not in the last written state", v.len(), want.len(), missing.len(), missing.first().map(|e| hex::encode(e.1))));
                    }
                }
                // restart the reference from what was loaded
                ix.refm = v.iter().map(|(_, k, l)| (*k, *l)).collect();
                ix.disk_map = ix.refm.clone();
                ix.cur = vec![0; 16];
                for (b, k, l) in &v { ix.cur[*b as usize] ^= mix(k, l); }
                for b in 0..16 { ix.snaps[b] = HashSet::from([ix.cur[b]]); }
                ix.cur_nz = 0;
                for (b, k, l) in &v { if *b == 0 && *k != [0u8; 9] { ix.cur_nz ^= mix(k, l); } }
                ix.snaps_nz = HashSet::from([ix.cur_nz]);
                ix.clean = true;
                // log lengths after load = update entries in the files
                ix.log_len = ix.disk_log_len.clone();
                if r.is_ok() { "ok".into() } else { "err".into() }
            }
            ["file", b] => {
                let b: u8 = b.parse().ok()?;
                match std::fs::read(ix.dir.path().join(format!("{b:02x}00000001.idx"))) {
                    Ok(bytes) => rle(&bytes),
                    Err(_) => "none".into(),
                }
            }
            ["parse", b, data] => {
                let b: u8 = b.parse().ok()?;
                let bytes = unrle(data)?;
                let td = tempfile::tempdir().expect("tempdir");
                let p = td.path().join(format!("{b:02x}00000001.idx"));
                std::fs::write(&p, &bytes).expect("write");
                let mut m = IndexManager::new(td.path());
                match m.load_index(b, &p) {
                    Ok(()) => {
                        let v = Self::iter_sorted(&m);
                        let mut o = format!("n={}", v.len());
                        for (b, k, l) in &v { o.push_str(&format!(" {b}:{}:{}:{}:{}", hex::encode(k), l.0, l.1, l.2)); }
                        o
                    }
                    Err(_) => "err".into(),
                }
            }
            _ => return None,
        };
        Some(resp)
    }

    fn exec_res(rs: &mut Res, s: &mut Session, toks: &[&str]) -> Option<String> {
        let resp = match toks {
            ["mark", k] => { let k = key16(k)?; rs.db.mark_resident(&k); rs.resident.insert(k); rs.span_marked.remove(&k); "ok".to_string() }
            ["unmark", k] => { let k = key16(k)?; rs.db.mark_non_resident(&k); rs.resident.remove(&k); rs.span_marked.remove(&k); "ok".into() }
            ["span", k, off, len] => {
                let k = key16(k)?;
                rs.db.mark_span_non_resident(&k, off.parse().ok()?, len.parse().ok()?);
                rs.resident.remove(&k);
                rs.span_marked.insert(k);
                "ok".into()
            }
            ["del", ks] | ["delpad", _, ks] => {
                let pad: usize = if toks[0] == "delpad" { toks[1].parse().ok()? } else { 0 };
                let mut keys: Vec<[u8; 16]> = (0..pad).map(pad_key).collect();
                if *ks != "-" { for x in ks.split(',') { keys.push(key16(x)?); } }
                rs.db.delete_keys(&keys);
                for k in &keys { rs.resident.remove(k); rs.span_marked.remove(k); }
                "ok".into()
            }
            ["isres", k] => {
                let k = key16(k)?;
                let r = rs.db.is_resident(&k);
                let want = rs.resident.contains(&k);
                if r != want {
                    Self::fail(s, &mut rs.failed, &rs.trace, &format!("isres-{r}-latest-mark-says-{want}"), format!("is_resident({}) = {r}, the latest mark says {want}", hex::encode(k)));
                }
                r.to_string()
            }
            ["scan"] => {
                let mut v = rs.db.scan_keys();
                v.sort();
                let got: BTreeSet<[u8; 16]> = v.iter().copied().collect();
                let want: BTreeSet<[u8; 16]> = rs.resident.iter().copied().collect();
                if got != want || got.len() != v.len() {
                    let sig = if got.len() != v.len() { "scan-duplicates" } else if got.is_subset(&want) { "scan-misses-resident-keys" } else { "scan-lists-non-resident-keys" };
                    Self::fail(s, &mut rs.failed, &rs.trace, sig, format!("scan_keys yields {} keys ({} distinct), {} keys are resident by their latest mark", v.len(), got.len(), want.len()));
                }
                let mut o = format!("n={}", v.len());
                for k in &v { o.push(' '); o.push_str(&hex::encode(k)); }
                o
            }
            ["rcount"] => {
                let c = rs.db.entry_count();
                let want = rs.resident.len();
                if c != want {
                    let sig = if c == want + rs.span_marked.len() { "count-includes-keys-marked-span-non-resident" } else { "count-differs-from-resident-keys" };
                    Self::fail(s, &mut rs.failed, &rs.trace, sig, format!("entry_count() (ResidencyContainer::resident_count) = {c}, {want} keys are resident ({} more have a non-resident span as latest mark and is_resident = false)", rs.span_marked.len()));
                    // this sub-claim does not corrupt the reference: keep checking the case
                    rs.failed = false;
                }
                c.to_string()
            }
            ["rsave"] => {
                let r = rs.db.save();
                if r.is_err() { Self::fail(s, &mut rs.failed, &rs.trace, "save-err", format!("save failed: {r:?}")); }
                rs.saved = rs.resident.clone();
                rs.saved_span = rs.span_marked.clone();
                if r.is_ok() { "ok".into() } else { "err".into() }
            }
            ["rload"] => {
                let p = rs.dir.path().join("key_state_v8");
                match ResidencyDb::load(&p) {
                    Ok(db) => { rs.db = db; rs.resident = rs.saved.clone(); rs.span_marked = rs.saved_span.clone(); "ok".into() }
                    Err(e) => { Self::fail(s, &mut rs.failed, &rs.trace, "load-err", format!("load failed: {e:?}")); "err".into() }
                }
            }
            _ => return None,
        };
        Some(resp)
    }
}

/// lower-case hex with zero runs of 8 or more bytes written `z<n>;` (same as Driver/C05 `rle`)
fn rle(bytes: &[u8]) -> String {
    if bytes.is_empty() { return "-".into(); }
    let mut o = String::with_capacity(bytes.len() / 4);
    let mut i = 0;
    while i < bytes.len() {
        if bytes[i] == 0 {
            let mut j = i;
            while j < bytes.len() && bytes[j] == 0 { j += 1; }
            let z = j - i;
            if z < 8 { for _ in 0..z { o.push_str("00"); } } else { o.push_str(&format!("z{z};")); }
            i = j;
        } else {
            o.push_str(&format!("{:02x}", bytes[i]));
            i += 1;
        }
    }
    o
}
fn unrle(s: &str) -> Option<Vec<u8>> {
    if s == "-" { return Some(vec![]); }
    let c = s.as_bytes();
    let mut o = vec![];
    let mut i = 0;
    while i < c.len() {
        if c[i] == b'z' {
            let j = i + 1 + c[i + 1..].iter().position(|&x| x == b';')?;
            let n: usize = std::str::from_utf8(&c[i + 1..j]).ok()?.parse().ok()?;
            if n > 16_777_216 { return None; }
            o.extend(std::iter::repeat(0u8).take(n));
            i = j + 1;
        } else {
            if i + 2 > c.len() { return None; }
            o.push(u8::from_str_radix(std::str::from_utf8(&c[i..i + 2]).ok()?, 16).ok()?);
            i += 2;
        }
    }
    Some(o)
}

// ---------------------------------------------------------------- generators

/// key whose 9-byte prefix folds to bucket `b`: bytes k0=k1, k2=k3, k4=k5, k6=k7, k8 = c with
/// nibble-fold(c) = b; `n` selects the key inside the family, `tail` the 7 bytes after the prefix
fn family_key(b: u8, hi: u8, n: u32, tail: u8) -> [u8; 16] {
    let c = (hi << 4) | (b ^ hi);
    let x = n.to_be_bytes();
    let mut k = [0u8; 16];
    k[0] = x[0]; k[1] = x[0]; k[2] = x[1]; k[3] = x[1]; k[4] = x[2]; k[5] = x[2]; k[6] = x[3]; k[7] = x[3];
    k[8] = c;
    for i in 9..16 { k[i] = tail.wrapping_mul(i as u8 + 1); }
    k
}

fn loc(rng: &mut Rng, oor: bool) -> (u16, u32, u32) {
    let id = match rng.below(6) { 0 => 0, 1 => 1023, 2 => 1, 3 => 1020, _ => rng.below(1024) as u16 };
    let off = match rng.below(6) { 0 => 0, 1 => (1 << 30) - 1, 2 => 1, 3 => 1 << 29, _ => rng.below(1 << 30) as u32 };
    let size = match rng.below(6) { 0 => 0, 1 => u32::MAX, 2 => 1, _ => rng.next() as u32 };
    if oor {
        let id = *rng.pick(&[1024u16, 1027, 4096, 65535, 2047]);
        let off = *rng.pick(&[1u32 << 30, u32::MAX, (1 << 31) + 5, 7]);
        return (id, off, size);
    }
    (id, off, size)
}

struct Gen<'a> {
    h: H,
    s: &'a mut Session,
    case_text: String,
}

impl Gen<'_> {
    fn emit(&mut self, line: String) -> String {
        let r = self.h.exec(self.s, &line);
        self.s.line(&line, &r);
        self.s.tally(&format!("op.{}", line.split(' ').next().unwrap_or("?")));
        if self.case_text.len() < 200_000 { self.case_text.push_str(&line); self.case_text.push('\n'); }
        r
    }
    fn begin_idx(&mut self) {
        self.case_text.clear();
        let l = format!("begin idx cap_pages={} per_page={}", MIN_UPDATE_SECTION_SIZE / UPDATE_PAGE_SIZE, ENTRIES_PER_PAGE);
        self.emit(l);
    }
    fn end_idx(&mut self, kind: &str) {
        self.emit("iter".into());
        self.emit("count".into());
        let (nontrivial, fh, fl, tg, rl, oor) = match &self.h.mode {
            Mode::Idx(ix) => (ix.full_hits > 0 || ix.flushes > 0 || ix.tomb_gets > 0 || ix.reloads > 0, ix.full_hits, ix.flushes, ix.tomb_gets, ix.reloads, ix.oor),
            _ => (false, 0, 0, 0, 0, false),
        };
        self.s.tally(&format!("case.idx.{kind}"));
        self.s.tally_n("idx.full_log_flushes", fh);
        self.s.tally_n("idx.flushes_with_pending", fl);
        self.s.tally_n("idx.lookups_of_absent_or_removed", tg);
        self.s.tally_n("idx.reloads", rl);
        if oor { self.s.tally("case.idx.out_of_field_range(K only on reload)"); }
        let t = std::mem::take(&mut self.case_text);
        self.s.case(if nontrivial { Some(&t) } else { None });
    }
    fn key_s(k: &[u8; 16]) -> String { hex::encode(k) }

    /// byte-level tie: `file b` compares the real .idx bytes of bucket `b` with the model's
    /// serialiser (only while every stored entry is inside the field limits with a non-zero key:
    /// the entry-level model image drops the others); `parse b <bytes>` runs the real
    /// `load_index` and the model's `parseFile` on the same bytes (the real file, optionally
    /// truncated / with header fields changed)
    fn file_probe(&mut self, rng: &mut Rng, bs: &[u8], mutate: bool) {
        let (ok, dir) = match &self.h.mode {
            Mode::Idx(ix) => (!ix.oor && !ix.zero_used, ix.dir.path().to_path_buf()),
            _ => return,
        };
        let b = *rng.pick(bs);
        if ok {
            let r = self.emit(format!("file {b}"));
            self.s.tally(if r == "none" { "idx.file.absent" } else if r.contains('z') && r.len() > 200 { "idx.file.compared(with update section)" } else { "idx.file.compared(sorted section only)" });
        }
        if let Ok(mut bytes) = std::fs::read(dir.join(format!("{b:02x}00000001.idx"))) {
            if bytes.len() > 300_000 { return; }
            let kind = if mutate { rng.below(6) } else { 9 };
            let n = bytes.len();
            match kind {
                0 => { bytes.truncate(rng.below(n as u64 + 1) as usize); self.s.tally("idx.parse.truncated"); }
                1 if n > 14 => { bytes[14] = *rng.pick(&[16u8, 9, 10, 0, 255]); self.s.tally("idx.parse.key_len_changed"); }
                2 if n > 13 => { let i = 12 + rng.below(2) as usize; bytes[i] = rng.below(12) as u8; self.s.tally("idx.parse.field_len_changed"); }
                3 if n > 36 => {
                    let v = (rng.below(2 * n as u64 + 40) as u32).to_le_bytes();
                    bytes[32..36].copy_from_slice(&v);
                    self.s.tally("idx.parse.block_size_changed");
                }
                _ => { self.s.tally("idx.parse.real_file"); }
            }
            self.emit(format!("parse {b} {}", rle(&bytes)));
        }
    }

    /// random op on a key pool
    fn random_op(&mut self, rng: &mut Rng, pool: &[[u8; 16]], buckets: &[u8], oor: bool, w_reload: u64) {
        let k = *rng.pick(pool);
        let ks = Self::key_s(&k);
        let x = rng.below(100);
        if x < 30 {
            let o = oor && rng.chance(1, 3);
            let (id, off, size) = loc(rng, o);
            self.emit(format!("add {ks} {id} {off} {size}"));
            self.emit(format!("get {ks}"));
        } else if x < 42 {
            self.emit(format!("rm {ks}"));
            self.emit(format!("get {ks}"));
        } else if x < 54 {
            let o = oor && rng.chance(1, 3);
            let (id, off, size) = loc(rng, o);
            self.emit(format!("upd {ks} {id} {off} {size}"));
            self.emit(format!("get {ks}"));
        } else if x < 62 {
            let st = *rng.pick(&[0u8, 3, 6, 7, 7, 6]);
            self.emit(format!("st {ks} {st}"));
            self.emit(format!("get {ks}"));
        } else if x < 76 {
            self.emit(format!("get {ks}"));
        } else if x < 80 {
            self.emit(format!("has {ks}"));
        } else if x < 84 {
            let b = if rng.chance(4, 5) { *rng.pick(buckets) } else { rng.below(18) as u8 };
            self.emit(format!("flush {b}"));
        } else if x < 86 {
            self.emit("flushall".into());
        } else if x < 90 {
            self.emit("save".into());
        } else if x < 90 + w_reload {
            if rng.chance(2, 3) { self.emit("save".into()); }
            self.emit("reload".into());
            let k2 = *rng.pick(pool);
            self.emit(format!("get {}", Self::key_s(&k2)));
        } else if x < 96 {
            let b = if rng.chance(4, 5) { *rng.pick(buckets) } else { rng.below(18) as u8 };
            if rng.chance(1, 3) { self.emit(format!("clear {b}")); } else { self.emit("count".into()); }
        } else {
            self.emit("iter".into());
        }
    }

    fn small_pool(rng: &mut Rng, with_zero: bool) -> (Vec<[u8; 16]>, Vec<u8>) {
        let nb = rng.range(1, 3) as usize;
        let buckets: Vec<u8> = (0..nb).map(|_| rng.below(16) as u8).collect();
        let mut pool = vec![];
        let n = rng.range(3, 14) as usize;
        for i in 0..n {
            let b = *rng.pick(&buckets);
            let (hi, n6, mul) = (rng.below(16) as u8, rng.below(6) as u32, if rng.chance(1, 2) { 1 } else { 0x0101_0101 });
            let k = family_key(b, hi, n6 * mul, i as u8);
            pool.push(k);
            if rng.chance(1, 4) {
                // same 9-byte prefix, different tail
                let mut k2 = k;
                k2[9 + rng.below(7) as usize] ^= 1 + rng.below(255) as u8;
                pool.push(k2);
            }
            if rng.chance(1, 4) {
                // neighbours in key order: differ in the last prefix byte only (other bucket)
                let mut k3 = k;
                k3[8] = k3[8].wrapping_add(1);
                pool.push(k3);
            }
        }
        if rng.chance(1, 4) {
            pool.push(rng.bytes(16).try_into().unwrap());
        }
        if with_zero {
            pool.push([0u8; 16]);
            let mut z = [0u8; 16];
            z[12] = 9;
            pool.push(z);
        }
        let mut bs: Vec<u8> = pool.iter().map(|k| bucket9(k)).collect();
        bs.sort();
        bs.dedup();
        (pool, bs)
    }
}

fn run_index(g: &mut Gen, rng: &mut Rng, thorough: bool) {
    let cap = (MIN_UPDATE_SECTION_SIZE / UPDATE_PAGE_SIZE) * ENTRIES_PER_PAGE;
    // (2) dense mixed histories on small pools (shared prefixes, neighbours, field limits)
    let mixed = if thorough { 1500 } else { 260 };
    for c in 0..mixed {
        g.begin_idx();
        let (pool, bs) = Gen::small_pool(rng, false);
        let n = rng.range(10, if thorough { 160 } else { 90 }) as usize;
        for _ in 0..n {
            g.random_op(rng, &pool, &bs, false, if c % 3 == 0 { 0 } else { 4 });
            if rng.chance(1, 12) { g.file_probe(rng, &bs, false); }
        }
        if rng.chance(1, 2) { g.emit("save".into()); if rng.chance(1, 2) { g.file_probe(rng, &bs, false); } g.emit("reload".into()); }
        g.file_probe(rng, &bs, true);
        for k in &pool { g.emit(format!("get {}", Gen::key_s(k))); }
        g.end_idx("mixed-small-pool");
    }
    // (3) the all-zero 9-byte prefix (an empty slot in the .idx format)
    for c in 0..(if thorough { 20 } else { 6 }) {
        g.begin_idx();
        let (pool, bs) = Gen::small_pool(rng, true);
        let n = rng.range(10, 60) as usize;
        for _ in 0..n { g.random_op(rng, &pool, &bs, false, if c % 2 == 0 { 0 } else { 3 }); }
        g.file_probe(rng, &bs, c % 2 == 1);
        for k in &pool { g.emit(format!("get {}", Gen::key_s(k))); }
        g.end_idx("zero-key-in-pool");
    }
    // (4) ids / offsets beyond the packed field widths: correspondence with the model only
    for _ in 0..(if thorough { 60 } else { 12 }) {
        g.begin_idx();
        let (pool, bs) = Gen::small_pool(rng, false);
        let n = rng.range(10, 70) as usize;
        for _ in 0..n { g.random_op(rng, &pool, &bs, true, 5); }
        g.emit("save".into());
        g.file_probe(rng, &bs, false);
        g.emit("reload".into());
        for k in &pool { g.emit(format!("get {}", Gen::key_s(k))); }
        g.end_idx("beyond-field-limits");
    }
    // (1) the documented boundary: fill the update section of one bucket exactly, then each mutator
    let fill_cases = if thorough { 40 } else { 10 };
    for c in 0..fill_cases {
        g.begin_idx();
        let b = rng.below(16) as u8;
        let hi = rng.below(16) as u8;
        let distinct = match c % 4 { 0 => cap + 40, 1 => 1, 2 => 7, _ => rng.range(2, 300) as usize };
        let fam: Vec<[u8; 16]> = (0..distinct as u32).map(|n| family_key(b, hi, n.wrapping_mul(if c % 2 == 0 { 1 } else { 2_654_435_761 }), 3)).collect();
        // pre-populate the sorted run in some cases
        let pre = if c % 3 == 0 { 0 } else { rng.range(1, 60) as usize };
        for i in 0..pre.min(fam.len()) {
            let (id, off, size) = loc(rng, false);
            g.emit(format!("add {} {id} {off} {size}", Gen::key_s(&fam[i])));
        }
        if pre > 0 { g.emit(format!("flush {b}")); }
        // fill to cap - delta
        let delta = match c % 5 { 0 => 0, 1 => 1, 2 => 0, 3 => 2, _ => 0 } as usize;
        let mut n = 0usize;
        let mut i = 0usize;
        while n < cap - delta {
            let k = &fam[i % fam.len()];
            i += 1;
            let (id, off, size) = loc(rng, false);
            if c % 4 == 1 && n > 0 && rng.chance(1, 2) {
                g.emit(format!("upd {} {id} {off} {size}", Gen::key_s(k)));
            } else if c % 4 == 2 && n > 8 && rng.chance(1, 3) {
                g.emit(format!("st {} {}", Gen::key_s(k), rng.pick(&[0u8, 6, 7])));
            } else {
                g.emit(format!("add {} {id} {off} {size}", Gen::key_s(k)));
            }
            n += 1;
        }
        // save + reload while the update section is (nearly) full: every page of the section,
        // including the last one, must survive serialisation (seeded change C05-2 — last page
        // dropped by an off-by-one in the page loop — slipped through before this step existed)
        if c % 2 == 1 || c == 0 {
            g.emit("save".into());
            g.file_probe(rng, &[b], false);
            g.emit("reload".into());
            g.emit("count".into());
            g.emit(format!("get {}", Gen::key_s(&fam[(i.max(1) - 1) % fam.len()])));
            g.emit(format!("get {}", Gen::key_s(&fam[0])));
        }
        // at the boundary: every mutator, then probes
        let victims: Vec<[u8; 16]> = (0..6).map(|j| fam[(j * 37) % fam.len().min(i.max(1))]).collect();
        let order = rng.below(4);
        for (j, v) in victims.iter().enumerate() {
            let vs = Gen::key_s(v);
            match (j as u64 + order) % 4 {
                0 => { g.emit(format!("rm {vs}")); }
                1 => { let (id, off, size) = loc(rng, false); g.emit(format!("upd {vs} {id} {off} {size}")); }
                2 => { g.emit(format!("st {vs} {}", rng.pick(&[3u8, 7, 6, 0]))); }
                _ => { let (id, off, size) = loc(rng, false); g.emit(format!("add {vs} {id} {off} {size}")); }
            }
            g.emit(format!("get {vs}"));
            g.emit(format!("has {vs}"));
            if j == 2 { g.emit("count".into()); }
        }
        for v in &victims { g.emit(format!("get {}", Gen::key_s(v))); }
        // refill to exactly cap and put each remaining mutator on the full section
        for round in 0..3u64 {
            let ll = match &g.h.mode { Mode::Idx(ix) => ix.log_len[b as usize], _ => cap };
            let victim = fam[((round as usize + 1) * 53 + c) % fam.len()];
            let vs = Gen::key_s(&victim);
            let mut fill = cap.saturating_sub(ll + 1);
            let mut q = 0usize;
            while fill > 0 {
                let (id, off, size) = loc(rng, false);
                g.emit(format!("add {} {id} {off} {size}", Gen::key_s(&fam[q % fam.len()])));
                q += 1;
                fill -= 1;
            }
            let (id, off, size) = loc(rng, false);
            g.emit(format!("add {vs} {id} {off} {size}"));
            match (round + order + c as u64) % 4 {
                0 => { g.emit(format!("rm {vs}")); }
                1 => { let (id, off, size) = loc(rng, false); g.emit(format!("upd {vs} {id} {off} {size}")); }
                2 => { g.emit(format!("st {vs} 7")); }
                _ => { g.emit(format!("st {vs} 3")); }
            }
            g.emit(format!("get {vs}"));
            g.emit(format!("has {vs}"));
            g.emit(format!("get {}", Gen::key_s(&fam[0])));
        }
        g.emit("count".into());
        // continue with a mixed history on the same family
        let pool: Vec<[u8; 16]> = (0..12).map(|j| fam[(j * 101) % fam.len()]).collect();
        let extra = if thorough { 120 } else { 40 };
        for _ in 0..extra { g.random_op(rng, &pool, &[b], false, 4); }
        // restart WITHOUT save_all: the bucket comes back as of its last write (mutator flush)
        if c % 4 == 1 { g.emit("reload".into()); g.emit("count".into()); }
        if c % 2 == 0 { g.emit("save".into()); g.emit("reload".into()); }
        g.file_probe(rng, &[b], c % 2 == 1);
        for v in &victims { g.emit(format!("get {}", Gen::key_s(v))); }
        g.end_idx("fill-update-section");
    }
}

fn run_residency(g: &mut Gen, rng: &mut Rng, thorough: bool) {
    // delete_keys on both sides of the threshold, saved and loaded right away (the batch path
    // must mark the database dirty, rebuild the filter and persist like the sequential path)
    for c in 0..(if thorough { 12 } else { 4 }) {
        g.case_text.clear();
        g.emit(format!("begin res per_page={} batch={}", RESIDENCY_ENTRIES_PER_PAGE, BATCH_DELETE_THRESHOLD));
        let n = rng.range(3, 40) as usize;
        let base: [u8; 16] = rng.bytes(16).try_into().unwrap();
        let pool: Vec<[u8; 16]> = (0..n).map(|i| { let mut k = base; k[15] = i as u8; if i % 3 == 0 { k[3] ^= i as u8; } k }).collect();
        for k in &pool { g.emit(format!("mark {}", hex::encode(k))); }
        if c % 2 == 0 { g.emit(format!("span {} 1 2", hex::encode(pool[0]))); }
        g.emit("rsave".into());
        let m = rng.range(1, (n as u64).min(6)) as usize;
        let victims: Vec<String> = (0..m).map(|j| hex::encode(pool[(j * 7 + c) % n])).collect();
        let total = BATCH_DELETE_THRESHOLD + [1usize, 0, 2, 1][c % 4];
        g.emit(format!("delpad {} {}", total - m, victims.join(",")));
        g.s.tally(if total > BATCH_DELETE_THRESHOLD { "res.delete_keys.batch_path" } else { "res.delete_keys.sequential_at_threshold" });
        for v in &victims { g.emit(format!("isres {v}")); }
        g.emit("scan".into());
        g.emit("rsave".into());
        g.emit("rload".into());
        for k in &pool { g.emit(format!("isres {}", hex::encode(k))); }
        g.emit("scan".into());
        g.emit(format!("mark {}", victims[0]));
        g.emit(format!("isres {}", victims[0]));
        g.emit("rcount".into());
        g.s.tally("case.res.batch-threshold-save-load");
        let t = std::mem::take(&mut g.case_text);
        g.s.case(Some(&t));
    }
    let cases = if thorough { 400 } else { 80 };
    for c in 0..cases {
        g.case_text.clear();
        g.emit(format!("begin res per_page={} batch={}", RESIDENCY_ENTRIES_PER_PAGE, BATCH_DELETE_THRESHOLD));
        // pool: mostly one bucket so that pages fill (25 per page), same first 8 bytes (same filter
        // hash) with different tails, plus scattered keys
        let n = (if c % 5 == 0 { rng.range(30, 90) } else { rng.range(2, 12) }) as usize;
        let base: [u8; 16] = rng.bytes(16).try_into().unwrap();
        let mut pool: Vec<[u8; 16]> = vec![];
        for i in 0..n {
            let mut k = base;
            match rng.below(4) {
                0 => { k[15] = i as u8; k[14] = i as u8; }            // same bucket, same filter hash
                1 => { k[10] ^= i as u8 + 1; }                          // other bucket, same filter hash
                2 => { k[0] = i as u8; k[1] = i as u8; }                // same bucket, other hash
                _ => { k = rng.bytes(16).try_into().unwrap(); }
            }
            pool.push(k);
        }
        if rng.chance(1, 6) { pool.push([0u8; 16]); }
        let ops = if c % 5 == 0 { rng.range(60, 220) } else { rng.range(8, 70) };
        let mut big = 0;
        for _ in 0..ops {
            let k = *rng.pick(&pool);
            let ks = hex::encode(k);
            let x = rng.below(100);
            if x < 28 { g.emit(format!("mark {ks}")); g.emit(format!("isres {ks}")); }
            else if x < 40 { g.emit(format!("unmark {ks}")); g.emit(format!("isres {ks}")); }
            else if x < 50 { g.emit(format!("span {ks} {} {}", rng.below(1 << 31), rng.below(1 << 31))); g.emit(format!("isres {ks}")); }
            else if x < 58 {
                let m = rng.below(4) as usize;
                let ks: Vec<String> = (0..m).map(|_| hex::encode(rng.pick(&pool))).collect();
                g.emit(format!("del {}", if ks.is_empty() { "-".to_string() } else { ks.join(",") }));
            } else if x < 61 && big < 2 && (c % 4 == 0) {
                // around the batch threshold: total = pad + listed keys in {T-1, T, T+1, T+2}
                big += 1;
                let m = rng.range(1, 3) as usize;
                let ks: Vec<String> = (0..m).map(|_| hex::encode(rng.pick(&pool))).collect();
                let total = BATCH_DELETE_THRESHOLD + *rng.pick(&[0usize, 1, 1, 2]) - if rng.chance(1, 4) { 1 } else { 0 };
                g.emit(format!("delpad {} {}", total - m, ks.join(",")));
                g.s.tally(if total > BATCH_DELETE_THRESHOLD { "res.delete_keys.batch_path" } else { "res.delete_keys.sequential_at_threshold" });
            } else if x < 78 { g.emit(format!("isres {ks}")); }
            else if x < 82 { g.emit("scan".into()); }
            else if x < 85 { g.emit("rcount".into()); }
            else if x < 92 { g.emit("rsave".into()); }
            else if x < 97 { if rng.chance(1, 2) { g.emit("rsave".into()); } g.emit("rload".into()); }
            else { let r: [u8; 16] = rng.bytes(16).try_into().unwrap(); g.emit(format!("isres {}", hex::encode(r))); }
        }
        for k in &pool { g.emit(format!("isres {}", hex::encode(k))); }
        g.emit("scan".into());
        g.emit("rsave".into());
        g.emit("rload".into());
        g.emit("scan".into());
        for k in &pool { g.emit(format!("isres {}", hex::encode(k))); }
        g.s.tally("case.res");
        let t = std::mem::take(&mut g.case_text);
        g.s.case(Some(&t));
    }
}

fn main() {
    let args = Args::parse();
    quiet_panics();
    let mut s = Session::new(&args.out);
    s.rule = "index: seeded histories over add/rm/upd/st/get/has/iter/count/flush/flushall/save/clear/reload on the real IndexManager (temp dir per case): (1) one-bucket key families (k0=k1,k2=k3,k4=k5,k6=k7) filling the 1260-entry update section to cap-2..cap, then every mutator at the boundary, (2) dense mixed histories on 3..20-key pools with shared 9-byte prefixes, neighbour keys, ids {0,1,1020,1023}, offsets {0,1,2^29,2^30-1}, sizes {0,1,2^32-1}, (3) pools containing the all-zero prefix, (4) ids/offsets beyond the packed widths (model correspondence only); residency: mark/unmark/span/del/delpad(around the 10000 batch threshold)/isres/scan/rcount/rsave/rload on the real ResidencyDb; non-trivial = the case reached a full-log flush, a flush with pending updates, a lookup of a removed/absent key, or a reload (index), every residency case; distinct = canonical request text of the case".into();
    let mut rng = Rng::new(args.seed);
    let rt = tokio::runtime::Builder::new_current_thread().enable_all().build().expect("runtime");
    let cap = (MIN_UPDATE_SECTION_SIZE / UPDATE_PAGE_SIZE) * ENTRIES_PER_PAGE;
    let h = H { mode: Mode::None, rt, cap };
    s.extra.insert("constants".into(), serde_json::json!({"cap_pages": MIN_UPDATE_SECTION_SIZE / UPDATE_PAGE_SIZE, "per_page": ENTRIES_PER_PAGE, "residency_per_page": RESIDENCY_ENTRIES_PER_PAGE, "batch_delete_threshold": BATCH_DELETE_THRESHOLD}));

    if let Some(p) = &args.replay {
        let mut h = h;
        let mut text = String::new();
        for l in read_case(p) {
            let r = h.exec(&mut s, &l);
            s.line(&l, &r);
            if l.len() < 200 { println!("impl  {l} -> {}", if r.len() > 200 { &r[..200] } else { &r }); }
            text.push_str(&l);
        }
        s.case(Some(&text));
        s.finish();
        return;
    }
    {
        let mut g = Gen { h, s: &mut s, case_text: String::new() };
        run_index(&mut g, &mut rng, args.thorough());
        run_residency(&mut g, &mut rng, args.thorough());
    }
    s.finish();
}
