//! C03 — content resolution finds exactly what was indexed.
//! Runs the REAL builders / serializers / parsers / lookups of the encoding table, the CDN archive
//! index, the archive group, the root manifest, the TVFS manifest and the resolver chain on request
//! lines (K: compared with the Lean models by `./check`), and evaluates the property's own oracle
//! against reference `BTreeMap`s (O). Every case starts with `begin <area> …`.
use cascette_client_storage::resolver::ContentResolver;
use cascette_crypto::md5::FileDataId;
use cascette_crypto::{ContentKey, EncodingKey};
use cascette_formats::archive::{ArchiveGroup, ArchiveGroupBuilder, ArchiveGroupEntry, ArchiveIndex, ArchiveIndexBuilder, build_merged};
use cascette_formats::encoding::{CKeyEntryData, EKeyEntryData, EncodingBuilder, EncodingFile};
use cascette_formats::root::{
    ContentFlags, LocaleFlags, RootBuilder, RootFile, RootHeader, RootHeaderInfo, RootMagic, RootVersion, calculate_name_hash,
};
use cascette_formats::tvfs::{TvfsBuilder, TvfsError, TvfsFile};
use std::collections::{BTreeMap, BTreeSet};
use std::io::Cursor;
use std::panic::AssertUnwindSafe;
use verif_harness::*;

const SIG_V2: &str = "root-v2-small-header-ambiguity";
const SIG_TVFS255: &str = "tvfs-name-255-length-byte-is-marker";
const SIG_EKEY0: &str = "enc-zero-ekey-espec0-is-padding";
const SIG_IDX0: &str = "idx-zero-record-is-padding";

fn k16(s: &str) -> Option<[u8; 16]> {
    unhex(s)?.try_into().ok()
}
fn keys16(s: &str) -> Option<Vec<[u8; 16]>> {
    s.split(',').map(k16).collect()
}
fn join_or(v: Vec<String>, sep: &str) -> String {
    if v.is_empty() { "none".into() } else { v.join(sep) }
}

#[derive(Default)]
struct Enc {
    cp: usize,
    ep: usize,
    ck: Vec<CKeyEntryData>,
    ek: Vec<EKeyEntryData>,
    file: Option<EncodingFile>,
    ref_ck: BTreeMap<[u8; 16], Vec<[u8; 16]>>,
    ref_ek: BTreeMap<[u8; 16], String>,
    dup: bool,
    /// keys of the first built EKey page when the zero-key/espec-0 entry is in it
    pad_page: BTreeSet<[u8; 16]>,
}

#[derive(Default)]
struct Idx {
    ks: usize,
    ob: u8,
    rpb: usize,
    ents: Vec<(Vec<u8>, u32, u64)>,
    parsed: Option<ArchiveIndex>,
    reference: BTreeMap<Vec<u8>, (u32, u64)>,
    dup: bool,
    zero_rec: bool,
}

#[derive(Default)]
struct Grp {
    ents: Vec<(Vec<u8>, u16, u32, u32)>,
    parsed: Option<ArchiveGroup>,
    reference: BTreeMap<Vec<u8>, (u16, u32, u32)>,
    zero_rec: bool,
}

/// an archive group merged from several CDN archive indices (`build_merged`, k-way heap merge) and,
/// for comparison, the same indices through `ArchiveGroupBuilder::add_archive`
#[derive(Default)]
struct Grpm {
    /// (archive number, entries (key, size, offset)) in merge order
    srcs: Vec<(u16, Vec<(Vec<u8>, u32, u64)>)>,
    merged: Option<ArchiveGroup>,
    via_builder: Option<ArchiveGroup>,
    /// key -> (archive number, offset, size) of the FIRST source (merge order) listing the key
    reference: BTreeMap<Vec<u8>, (u16, u32, u32)>,
    /// a key twice inside ONE source (the property is over key sets: oracle skipped)
    dup_in_src: bool,
}

struct RootS {
    ver: RootVersion,
    recs: Vec<(u32, [u8; 16], Option<u64>, u32, u64)>,
    parsed: Option<RootFile>,
    /// the reference maps: (FileDataID | name hash | normalised path, locale, content flags of the
    /// block the record was inserted into) -> content keys in insertion order
    by_id: BTreeMap<(u32, u32, u64), Vec<[u8; 16]>>,
    by_hash: BTreeMap<(u64, u32, u64), Vec<[u8; 16]>>,
    by_path: BTreeMap<(Vec<u8>, u32, u64), Vec<[u8; 16]>>,
    ambiguous: bool,
    /// every record carries a name hash iff its block's format does (else the writer's rule applies:
    /// an unnamed record of a named block is stored with name hash 0, a name given to a record of a
    /// NO_NAME_HASH block is not stored) — tallied; the reference maps follow the writer's rule
    consistent_names: bool,
    /// a content-flags value wider than the version's field was inserted (the writer truncates it)
    wide: bool,
}

#[derive(Default)]
struct Tvfs {
    flags: u32,
    /// encoding-spec strings handed to `add_est_spec` (used by the builder only with ENCODING_SPEC)
    specs: Vec<Vec<u8>>,
    /// (path, ekey, encoded size, content size, content key, est index of `add_file_with_est`)
    files: Vec<(Vec<u8>, [u8; 9], u32, u32, Option<[u8; 16]>, Option<u32>)>,
    parsed: Option<TvfsFile>,
    reference: BTreeMap<Vec<u8>, ([u8; 9], u32, Option<[u8; 16]>, Option<u32>)>,
    long_name: bool,
    dup: bool,
}

struct Res {
    ver: RootVersion,
    recs: Vec<(u32, [u8; 16], Vec<u8>, u32, u64)>,
    ck: Vec<CKeyEntryData>,
    ek: Vec<EKeyEntryData>,
    resolver: Option<ContentResolver>,
    ck_ref: BTreeMap<[u8; 16], [u8; 16]>,
    ambiguous: bool,
}

enum Mode {
    None,
    Enc(Enc),
    Idx(Idx),
    Grp(Grp),
    Grpm(Grpm),
    Root(RootS),
    Tvfs(Tvfs),
    Res(Res),
}

struct Impl {
    mode: Mode,
    built: bool,
    hist: Vec<String>,
}

/// the root manifest's path normalisation (ASCII): upper-case, `/` -> `\\`
fn norm_path(p: &[u8]) -> Vec<u8> {
    p.iter().map(|b| if *b == b'/' { b'\\' } else { b.to_ascii_uppercase() }).collect()
}

fn ver_of(n: &str) -> Option<RootVersion> {
    match n {
        "1" => Some(RootVersion::V1),
        "2" => Some(RootVersion::V2),
        "3" => Some(RootVersion::V3),
        "4" => Some(RootVersion::V4),
        _ => None,
    }
}
fn ver_num(v: RootVersion) -> u32 {
    v.to_u32()
}

fn entry_matches(bl: u32, bc: u64, l: u32, c: u64) -> bool {
    (bl & l) != 0 && (bc & c) == c
}

/// content keys of the inserted records of `key` whose own block (locale, content) matches the query
fn ref_matches<K: Ord + Clone>(m: &BTreeMap<(K, u32, u64), Vec<[u8; 16]>>, key: &K, loc: u32, cf: u64) -> BTreeSet<[u8; 16]> {
    m.range((key.clone(), 0, 0)..=(key.clone(), u32::MAX, u64::MAX))
        .filter(|((_, bl, bc), _)| entry_matches(*bl, *bc, loc, cf))
        .flat_map(|(_, v)| v.iter().copied())
        .collect()
}
/// every inserted (locale, content, ckey) of `key`, sorted
fn ref_entries<K: Ord + Clone>(m: &BTreeMap<(K, u32, u64), Vec<[u8; 16]>>, key: &K) -> Vec<(u32, u64, [u8; 16])> {
    let mut v: Vec<(u32, u64, [u8; 16])> =
        m.range((key.clone(), 0, 0)..=(key.clone(), u32::MAX, u64::MAX)).flat_map(|((_, bl, bc), v)| v.iter().map(move |ck| (*bl, *bc, *ck))).collect();
    v.sort();
    v
}
/// linear scan of the parsed blocks: the first record (block order, record order) satisfying `q` in a
/// block whose flags match the query
fn scan_blocks(p: &RootFile, q: impl Fn(&cascette_formats::root::RootRecord) -> bool, loc: u32, cf: u64) -> Option<[u8; 16]> {
    p.blocks
        .iter()
        .filter(|b| entry_matches(b.header.locale_flags.value(), b.header.content_flags, loc, cf))
        .find_map(|b| b.records.iter().find(|r| q(r)).map(|r| *r.content_key.as_bytes()))
}

fn show_header(h: &RootHeader) -> String {
    match h {
        RootHeader::V2 { magic, info } => format!("c:{},{},{}", magic.is_little_endian() as u8, info.total_files, info.named_files),
        RootHeader::V3V4 { magic, header_size, version, info, padding } => {
            format!("x:{},{},{},{},{},{}", magic.is_little_endian() as u8, header_size, version, info.total_files, info.named_files, padding)
        }
    }
}

fn build_root(ver: RootVersion, recs: impl Iterator<Item = (u32, [u8; 16], Option<u64>, u32, u64)>) -> Option<Vec<u8>> {
    let mut b = RootBuilder::new(ver);
    for (fd, ck, nh, loc, cf) in recs {
        b.add_file_with_hash(FileDataId::new(fd), ContentKey::from_bytes(ck), nh, LocaleFlags::new(loc), ContentFlags::new(cf));
    }
    b.build().ok()
}

fn v2_ambiguous(ver: RootVersion, total: usize, named: usize) -> bool {
    ver == RootVersion::V2 && (16..100).contains(&total) && named < 10
}

fn build_encoding(cp: usize, ep: usize, ck: &[CKeyEntryData], ek: &[EKeyEntryData]) -> Result<(EncodingFile, Vec<u8>), String> {
    let mut b = EncodingBuilder::new().with_page_sizes((cp / 1024) as u16, (ep / 1024) as u16);
    for e in ck {
        b.add_ckey_entry(e.clone());
    }
    for e in ek {
        b.add_ekey_entry(e.clone());
    }
    let f = b.build().map_err(|e| e.to_string())?;
    let bytes = f.build().map_err(|e| e.to_string())?;
    Ok((f, bytes))
}

impl Impl {
    fn new() -> Self {
        Impl { mode: Mode::None, built: false, hist: vec![] }
    }

    /// run one request line on the real code; `None` = malformed (→ bad-op)
    fn run(&mut self, s: &mut Session, toks: &[&str]) -> Option<String> {
        match toks {
            ["begin", "enc", cp, ep] => {
                let (cp, ep): (usize, usize) = (cp.parse().ok()?, ep.parse().ok()?);
                if cp == 0 || ep == 0 || cp % 1024 != 0 || ep % 1024 != 0 || cp > 64 * 1024 || ep > 64 * 1024 {
                    return None;
                }
                self.mode = Mode::Enc(Enc { cp, ep, ..Default::default() });
                self.built = false;
                return Some("ok".into());
            }
            ["begin", "idx", ks, ob, rpb] => {
                let (ks, ob, rpb): (usize, u8, usize) = (ks.parse().ok()?, ob.parse().ok()?, rpb.parse().ok()?);
                if !(1..=16).contains(&ks) || !(4..=6).contains(&ob) || rpb != 4096 / (ks + 4 + ob as usize) {
                    return None;
                }
                self.mode = Mode::Idx(Idx { ks, ob, rpb, ..Default::default() });
                self.built = false;
                return Some("ok".into());
            }
            ["begin", "grp", rpb] => {
                let rpb: usize = rpb.parse().ok()?;
                if rpb != 4096 / 26 {
                    return None;
                }
                self.mode = Mode::Grp(Grp::default());
                self.built = false;
                return Some("ok".into());
            }
            ["begin", "grpm", rpb, srpb] => {
                // records per 4 KiB block: 26-byte group records, 24-byte source-index records
                let (rpb, srpb): (usize, usize) = (rpb.parse().ok()?, srpb.parse().ok()?);
                if rpb != 4096 / 26 || srpb != 4096 / 24 {
                    return None;
                }
                self.mode = Mode::Grpm(Grpm::default());
                self.built = false;
                return Some("ok".into());
            }
            ["begin", "root", v] => {
                let ver = ver_of(v)?;
                self.mode = Mode::Root(RootS {
                    ver,
                    recs: vec![],
                    parsed: None,
                    by_id: BTreeMap::new(),
                    by_hash: BTreeMap::new(),
                    by_path: BTreeMap::new(),
                    ambiguous: false,
                    consistent_names: true,
                    wide: false,
                });
                self.built = false;
                return Some("ok".into());
            }
            ["begin", "tvfs", fl] => {
                // every combination of INCLUDE_CKEY (1), ENCODING_SPEC (2), PATCH_SUPPORT (4)
                let flags: u32 = fl.parse().ok()?;
                if flags > 7 {
                    return None;
                }
                self.mode = Mode::Tvfs(Tvfs { flags, ..Default::default() });
                self.built = false;
                return Some("ok".into());
            }
            ["begin", "res", v] => {
                let ver = ver_of(v)?;
                self.mode = Mode::Res(Res { ver, recs: vec![], ck: vec![], ek: vec![], resolver: None, ck_ref: BTreeMap::new(), ambiguous: false });
                self.built = false;
                return Some("ok".into());
            }
            ["hdr", kind, little, a, b, c, d, e] => {
                let (a, b, c, d, e): (u32, u32, u32, u32, u32) = (a.parse().ok()?, b.parse().ok()?, c.parse().ok()?, d.parse().ok()?, e.parse().ok()?);
                let magic = if *little == "l" { RootMagic::Tsfm } else { RootMagic::Mfst };
                let h = if *kind == "c" {
                    RootHeader::V2 { magic, info: RootHeaderInfo { total_files: a, named_files: b } }
                } else {
                    RootHeader::V3V4 { magic, header_size: a, version: b, info: RootHeaderInfo { total_files: c, named_files: d }, padding: e }
                };
                let mut bytes = Vec::new();
                h.write(&mut Cursor::new(&mut bytes)).ok()?;
                let hlen = bytes.len();
                bytes.extend_from_slice(&[0u8; 128]);
                let det = RootVersion::detect(&mut Cursor::new(&bytes)).ok();
                let mut cur = Cursor::new(&bytes);
                let rd = RootHeader::read(&mut cur, RootVersion::V2).ok();
                let left = bytes.len() as u64 - cur.position();
                let dets = det.map(|v| ver_num(v).to_string()).unwrap_or("err".into());
                let rds = match &rd {
                    Some(h2) => format!("{} hv={} left={}", show_header(h2), ver_num(h2.version()), left),
                    None => "err".into(),
                };
                // O: read(write h) = h, consumed exactly the header, detect = h.version — for the
                // headers the builder can emit (classic; extended with header_size 20 or 24, version 1..4)
                let builder_shape = *kind == "c" || ((a == 20 || a == 24) && (1..=4).contains(&b) && (a == 24 || e == 0));
                if builder_shape {
                    let ok = rd.as_ref() == Some(&h) && left == 128 && det == Some(h.version());
                    if !ok {
                        let sig = if *kind == "c" && (16..100).contains(&a) && b < 10 { SIG_V2 } else { "root-header-roundtrip" };
                        let line = toks.join(" ");
                        s.oracle_fail(sig, &format!("header {} ({} bytes): detect={dets} read={rds}, expected itself and version {}", show_header(&h), hlen, ver_num(h.version())), &[line]);
                    }
                }
                return Some(format!("det={dets} rd={rds}"));
            }
            ["deltas", ids] => {
                let ids: Vec<u32> = ids.split(',').map(|x| x.parse::<u64>().ok().map(|v| v as u32)).collect::<Option<_>>()?;
                // the delta codec is private: observe it through a one-block V1 root built from records in this order
                // (the builder sorts by id, so only ascending inputs exercise the order as given)
                let mut sorted = ids.clone();
                sorted.sort();
                let bytes = build_root(RootVersion::V1, sorted.iter().map(|&i| (i, [7u8; 16], Some(1u64), 2u32, 0u64)))?;
                let n = sorted.len();
                let deltas: Vec<u32> = (0..n).map(|i| u32::from_le_bytes(bytes[12 + 4 * i..16 + 4 * i].try_into().unwrap())).collect();
                let back: Vec<u32> = RootFile::parse(&bytes).ok()?.blocks.first().map(|b| b.records.iter().map(|r| r.file_data_id.get()).collect()).unwrap_or_default();
                if back != sorted {
                    s.oracle_fail("root-fdid-delta", &format!("ids {sorted:?} decode to {back:?}"), &[toks.join(" ")]);
                }
                if ids != sorted {
                    return None;
                }
                let f = |v: &[u32]| v.iter().map(|x| x.to_string()).collect::<Vec<_>>().join(",");
                return Some(format!("{} {}", f(&deltas), f(&back)));
            }
            _ => {}
        }
        let built = self.built;
        let hist = self.hist.clone();
        let fail = |s: &mut Session, sig: &str, msg: String| s.oracle_fail(sig, &msg, &hist);
        match &mut self.mode {
            Mode::None => None,
            Mode::Enc(st) => match toks {
                ["ck", k, sz, eks] => {
                    let (k, sz, eks) = (k16(k)?, sz.parse::<u64>().ok()?, keys16(eks)?);
                    if built {
                        return None;
                    }
                    st.ck.push(CKeyEntryData { content_key: ContentKey::from_bytes(k), file_size: sz, encoding_keys: eks.iter().map(|e| EncodingKey::from_bytes(*e)).collect() });
                    if st.ref_ck.insert(k, eks).is_some() {
                        st.dup = true;
                    }
                    Some("ok".into())
                }
                ["ek", k, spec, sz] => {
                    let (k, sz) = (k16(k)?, sz.parse::<u64>().ok()?);
                    if built {
                        return None;
                    }
                    st.ek.push(EKeyEntryData { encoding_key: EncodingKey::from_bytes(k), espec: spec.to_string(), file_size: sz });
                    if st.ref_ek.insert(k, spec.to_string()).is_some() {
                        st.dup = true;
                    }
                    Some("ok".into())
                }
                ["build"] => {
                    self.built = true;
                    let r = catch(AssertUnwindSafe(|| build_encoding(st.cp, st.ep, &st.ck, &st.ek)));
                    let (f, bytes) = match r {
                        Ok(Ok(x)) => x,
                        Ok(Err(_)) => return Some("err:build".into()),
                        Err(_) => return Some("panic".into()),
                    };
                    // zero-key/espec-0 entry present? remember the keys of its built page
                    let first_spec = st.ek.first().map(|e| e.espec.clone());
                    if let Some(sp) = st.ref_ek.get(&[0u8; 16])
                        && Some(sp) == first_spec.as_ref()
                        && let Some(p0) = f.ekey_pages.first()
                    {
                        st.pad_page = p0.entries.iter().map(|e| *e.encoding_key.as_bytes()).collect();
                    }
                    match catch(AssertUnwindSafe(|| EncodingFile::parse(&bytes))) {
                        Ok(Ok(p)) => {
                            let r = format!("ok c={} e={} cp={} ep={}", p.ckey_count(), p.ekey_count(), p.ckey_pages.len(), p.ekey_pages.len());
                            st.file = Some(p);
                            Some(r)
                        }
                        Ok(Err(e)) => {
                            if !(st.ck.is_empty() || st.ek.is_empty()) {
                                fail(s, "enc-parse", format!("built encoding file ({} ckeys, {} ekeys) does not parse: {e}", st.ck.len(), st.ek.len()));
                            } else {
                                s.tally("enc.empty-table-rejected");
                            }
                            Some("err:parse".into())
                        }
                        Err(_) => Some("panic".into()),
                    }
                }
                [op, arg] => {
                    let Some(f) = &st.file else { return if built { Some("err:nofile".into()) } else { None } };
                    let hx = |k: &EncodingKey| hex(k.as_bytes());
                    match *op {
                        "fe" | "fa" => {
                            let k = k16(arg)?;
                            let ck = ContentKey::from_bytes(k);
                            let (resp, got_first, got_all) = match catch(AssertUnwindSafe(|| (f.find_encoding(&ck), f.find_all_encodings(&ck)))) {
                                Ok((a, b)) => {
                                    let r = if *op == "fe" { a.map(|e| hx(&e)).unwrap_or("none".into()) } else { join_or(b.iter().map(hx).collect(), ",") };
                                    (r, a.map(|e| *e.as_bytes()), b.iter().map(|e| *e.as_bytes()).collect::<Vec<_>>())
                                }
                                Err(_) => return Some("panic".into()),
                            };
                            if !st.dup {
                                let want = st.ref_ck.get(&k);
                                let want_all = want.cloned().unwrap_or_default();
                                if got_first != want.and_then(|v| v.first().copied()) || got_all != want_all {
                                    fail(s, "enc-ckey-lookup", format!("ckey {arg}: find_encoding returned {:?}, find_all_encodings returned {:?}, inserted {:?}", got_first.map(|e| hex(&e)), got_all.iter().map(|e| hex(e)).collect::<Vec<_>>(), want.map(|v| v.iter().map(|e| hex(e)).collect::<Vec<_>>())));
                                }
                                // every flavour agrees with a linear scan of the parsed entries
                                let lin = f.ckey_pages.iter().flat_map(|p| &p.entries).find(|e| e.content_key == ck).map(|e| e.encoding_keys.iter().map(|e| *e.as_bytes()).collect::<Vec<_>>()).unwrap_or_default();
                                if lin != got_all {
                                    fail(s, "enc-ckey-linear", format!("ckey {arg}: page-index lookup differs from linear scan"));
                                }
                            }
                            Some(resp)
                        }
                        "fs" => {
                            let k = k16(arg)?;
                            let ek = EncodingKey::from_bytes(k);
                            let got = match catch(AssertUnwindSafe(|| f.find_espec(&ek).map(str::to_string))) {
                                Ok(g) => g,
                                Err(_) => return Some("panic".into()),
                            };
                            if !st.dup && got.as_ref() != st.ref_ek.get(&k) {
                                let sig = if got.is_none() && st.pad_page.contains(&k) { SIG_EKEY0 } else { "enc-ekey-lookup" };
                                fail(s, sig, format!("ekey {arg}: find_espec returned {got:?}, inserted {:?}", st.ref_ek.get(&k)));
                            }
                            Some(got.unwrap_or("none".into()))
                        }
                        "bfe" | "bfa" => {
                            let ks = keys16(arg)?;
                            let cks: Vec<ContentKey> = ks.iter().map(|k| ContentKey::from_bytes(*k)).collect();
                            let (a, b) = match catch(AssertUnwindSafe(|| (f.batch_find_encodings(&cks), f.batch_find_all_encodings(&cks)))) {
                                Ok(x) => x,
                                Err(_) => return Some("panic".into()),
                            };
                            for (i, ck) in cks.iter().enumerate() {
                                if a.get(i).copied().flatten() != f.find_encoding(ck) || b.get(i) != Some(&f.find_all_encodings(ck)) {
                                    fail(s, "enc-batch-vs-single", format!("batch element {i} (ckey {}) differs from the single lookup", hex(ck.as_bytes())));
                                    break;
                                }
                            }
                            if a.len() != cks.len() || b.len() != cks.len() {
                                fail(s, "enc-batch-vs-single", "batch result length differs from probe count".into());
                            }
                            Some(if *op == "bfe" {
                                a.iter().map(|r| r.map(|e| hx(&e)).unwrap_or("none".into())).collect::<Vec<_>>().join(",")
                            } else {
                                b.iter().map(|r| join_or(r.iter().map(hx).collect(), "+")).collect::<Vec<_>>().join(",")
                            })
                        }
                        "bfs" => {
                            let ks = keys16(arg)?;
                            let eks: Vec<EncodingKey> = ks.iter().map(|k| EncodingKey::from_bytes(*k)).collect();
                            let a = match catch(AssertUnwindSafe(|| f.batch_find_especs(&eks))) {
                                Ok(x) => x,
                                Err(_) => return Some("panic".into()),
                            };
                            for (i, ek) in eks.iter().enumerate() {
                                if a.get(i).copied().flatten() != f.find_espec(ek) {
                                    fail(s, "enc-batch-vs-single", format!("batch_find_especs element {i} differs from find_espec"));
                                    break;
                                }
                            }
                            if a.len() != eks.len() {
                                fail(s, "enc-batch-vs-single", "batch result length differs from probe count".into());
                            }
                            Some(a.iter().map(|r| r.unwrap_or("none").to_string()).collect::<Vec<_>>().join(","))
                        }
                        _ => None,
                    }
                }
                _ => None,
            },
            Mode::Idx(st) => match toks {
                ["e", k, sz, off] => {
                    let (k, sz, off) = (unhex(k)?, sz.parse::<u32>().ok()?, off.parse::<u64>().ok()?);
                    if k.len() != st.ks || built {
                        return None;
                    }
                    if k.iter().all(|b| *b == 0) && sz == 0 && off == 0 {
                        st.zero_rec = true;
                    }
                    if st.reference.insert(k.clone(), (sz, off)).is_some() {
                        st.dup = true;
                    }
                    st.ents.push((k, sz, off));
                    Some("ok".into())
                }
                ["build"] => {
                    self.built = true;
                    let mut b = ArchiveIndexBuilder::with_config(st.ks as u8, st.ob, 4);
                    for (k, sz, off) in &st.ents {
                        b.add_entry(k.clone(), *sz, *off);
                    }
                    let mut out = Vec::new();
                    match catch(AssertUnwindSafe(|| b.build(Cursor::new(&mut out)).map(|_| ()))) {
                        Ok(Ok(())) => {}
                        Ok(Err(_)) => return Some("err:build".into()),
                        Err(_) => return Some("panic".into()),
                    }
                    match catch(AssertUnwindSafe(|| ArchiveIndex::parse(Cursor::new(&out)))) {
                        Ok(Ok(p)) => {
                            let r = format!("ok n={} toc={}", p.entries.len(), p.toc.len());
                            if !st.dup && p.entries.len() != st.ents.len() {
                                let sig = if st.zero_rec { SIG_IDX0 } else { "idx-parse" };
                                fail(s, sig, format!("{} entries inserted, {} parsed", st.ents.len(), p.entries.len()));
                            }
                            st.parsed = Some(p);
                            Some(r)
                        }
                        Ok(Err(e)) => {
                            let sig = if st.zero_rec { SIG_IDX0 } else { "idx-parse" };
                            fail(s, sig, format!("built index ({} entries, key size {}, offset bytes {}) does not parse: {e}", st.ents.len(), st.ks, st.ob));
                            Some("err:parse".into())
                        }
                        Err(_) => Some("panic".into()),
                    }
                }
                ["toc"] => {
                    let Some(p) = &st.parsed else { return if built { Some("err:nofile".into()) } else { None } };
                    // O: the hypothesis of toc_search_complete on the real parsed index — one TOC key per
                    // block, each the key of the block's last record (validate_toc_consistency restated)
                    let n = p.entries.len();
                    let mut ok = p.toc.len() == n.div_ceil(st.rpb);
                    for (ci, t) in p.toc.iter().enumerate() {
                        let stop = ((ci + 1) * st.rpb).min(n);
                        if stop <= ci * st.rpb || p.entries[stop - 1].encoding_key != *t {
                            ok = false;
                        }
                    }
                    if !ok {
                        fail(s, "idx-toc-last-key", format!("parsed index ({n} entries, {} per block): TOC of {} keys is not the list of last keys of the blocks", st.rpb, p.toc.len()));
                    }
                    Some(join_or(p.toc.iter().map(|t| hex(t)).collect(), ","))
                }
                [op, arg] => {
                    let Some(p) = &st.parsed else { return if built { Some("err:nofile".into()) } else { None } };
                    let k = unhex(arg)?;
                    let show = |e: &cascette_formats::archive::IndexEntry| format!("{} {} {}", e.size, e.offset, e.archive_index.map(|a| a.to_string()).unwrap_or("-".into()));
                    let width_mask: u64 = match st.ob { 4 | 6 => 0xFFFF_FFFF, _ => 0xFF_FFFF_FFFF };
                    match *op {
                        "f" => {
                            let got = match catch(AssertUnwindSafe(|| p.find_entry(&k).cloned())) {
                                Ok(g) => g,
                                Err(_) => return Some("panic".into()),
                            };
                            if !st.dup {
                                let want = st.reference.get(&k);
                                let fits = want.map(|w| w.1 <= width_mask).unwrap_or(true);
                                if fits {
                                    let g = got.as_ref().map(|e| (e.size, e.offset));
                                    if g != want.copied() {
                                        let sig = if st.zero_rec { SIG_IDX0 } else { "idx-lookup" };
                                        fail(s, sig, format!("key {arg}: find_entry returned {g:?}, inserted {want:?}"));
                                    }
                                } else {
                                    s.tally("idx.offset-wider-than-field");
                                }
                                let lin = p.entries.iter().find(|e| e.encoding_key == k).cloned();
                                if lin != got {
                                    fail(s, "idx-linear", format!("key {arg}: TOC/binary search differs from linear scan"));
                                }
                            }
                            Some(got.as_ref().map(show).unwrap_or("none".into()))
                        }
                        "fa" => {
                            let got: Vec<_> = match catch(AssertUnwindSafe(|| p.find_all_entries(&k).into_iter().cloned().collect::<Vec<_>>())) {
                                Ok(g) => g,
                                Err(_) => return Some("panic".into()),
                            };
                            if !st.dup {
                                let lin: Vec<_> = p.entries.iter().filter(|e| e.encoding_key == k).cloned().collect();
                                if lin != got {
                                    fail(s, "idx-linear", format!("key {arg}: find_all_entries differs from linear scan"));
                                }
                            }
                            Some(join_or(got.iter().map(show).collect(), ";"))
                        }
                        _ => None,
                    }
                }
                _ => None,
            },
            Mode::Grp(st) => match toks {
                ["g", k, a, off, sz] => {
                    let (k, a, off, sz) = (unhex(k)?, a.parse::<u16>().ok()?, off.parse::<u32>().ok()?, sz.parse::<u32>().ok()?);
                    if k.len() != 16 || built {
                        return None;
                    }
                    if k.iter().all(|b| *b == 0) && sz == 0 && off == 0 && a == 0 {
                        st.zero_rec = true;
                    }
                    st.reference.entry(k.clone()).or_insert((a, off, sz)); // first insertion wins (documented dedup)
                    st.ents.push((k, a, off, sz));
                    Some("ok".into())
                }
                ["build"] => {
                    self.built = true;
                    let mut b = ArchiveGroupBuilder::new();
                    for (k, a, off, sz) in &st.ents {
                        b.add_entry(ArchiveGroupEntry::new(k.clone(), *a, *off, *sz));
                    }
                    let mut out = Vec::new();
                    match catch(AssertUnwindSafe(|| b.build(Cursor::new(&mut out)).map(|_| ()))) {
                        Ok(Ok(())) => {}
                        Ok(Err(_)) => return Some("err:build".into()),
                        Err(_) => return Some("panic".into()),
                    }
                    match catch(AssertUnwindSafe(|| ArchiveGroup::parse(&mut Cursor::new(&out)))) {
                        Ok(Ok(p)) => {
                            let r = format!("ok n={}", p.entries.len());
                            if p.entries.len() != st.reference.len() {
                                let sig = if st.zero_rec { SIG_IDX0 } else { "grp-parse" };
                                fail(s, sig, format!("{} distinct keys inserted, {} parsed", st.reference.len(), p.entries.len()));
                            }
                            st.parsed = Some(p);
                            Some(r)
                        }
                        Ok(Err(e)) => {
                            let sig = if st.zero_rec { SIG_IDX0 } else { "grp-parse" };
                            fail(s, sig, format!("built archive group ({} distinct keys) does not parse: {e}", st.reference.len()));
                            Some("err:parse".into())
                        }
                        Err(_) => Some("panic".into()),
                    }
                }
                ["f", arg] => {
                    let Some(p) = &st.parsed else { return if built { Some("err:nofile".into()) } else { None } };
                    let k = unhex(arg)?;
                    let got = match catch(AssertUnwindSafe(|| p.find_entry(&k).cloned())) {
                        Ok(g) => g,
                        Err(_) => return Some("panic".into()),
                    };
                    let g = got.as_ref().map(|e| (e.archive_index, e.offset, e.size));
                    if g != st.reference.get(&k).copied() {
                        let sig = if st.zero_rec { SIG_IDX0 } else { "grp-lookup" };
                        fail(s, sig, format!("key {arg}: find_entry returned {g:?}, inserted {:?}", st.reference.get(&k)));
                    }
                    Some(g.map(|(a, o, z)| format!("{a} {o} {z}")).unwrap_or("none".into()))
                }
                _ => None,
            },
            Mode::Grpm(st) => match toks {
                ["a", a] => {
                    let a: u16 = a.parse().ok()?;
                    if built {
                        return None;
                    }
                    st.srcs.push((a, vec![]));
                    Some("ok".into())
                }
                ["e", k, sz, off] => {
                    let (k, sz, off) = (unhex(k)?, sz.parse::<u32>().ok()?, off.parse::<u64>().ok()?);
                    if k.len() != 16 || built || off > u32::MAX as u64 || st.srcs.is_empty() {
                        return None;
                    }
                    let (a, ents) = st.srcs.last_mut()?;
                    if ents.iter().any(|e| e.0 == k) {
                        st.dup_in_src = true;
                    }
                    st.reference.entry(k.clone()).or_insert((*a, off as u32, sz)); // first source wins (documented dedup)
                    ents.push((k, sz, off));
                    Some("ok".into())
                }
                ["build"] => {
                    self.built = true;
                    // every source: ArchiveIndexBuilder (16-byte keys, 4-byte offsets) -> bytes -> parse
                    let mut idxs: Vec<(u16, ArchiveIndex)> = vec![];
                    for (a, ents) in &st.srcs {
                        let mut b = ArchiveIndexBuilder::new();
                        for (k, sz, off) in ents {
                            b.add_entry(k.clone(), *sz, *off);
                        }
                        let mut out = Vec::new();
                        let r = catch(AssertUnwindSafe(|| b.build(Cursor::new(&mut out)).map(|_| ())));
                        let p = match r {
                            Ok(Ok(())) => catch(AssertUnwindSafe(|| ArchiveIndex::parse(Cursor::new(&out)))),
                            Ok(Err(_)) => return Some("err:build-src".into()),
                            Err(_) => return Some("panic".into()),
                        };
                        match p {
                            Ok(Ok(p)) => idxs.push((*a, p)),
                            Ok(Err(e)) => {
                                fail(s, "grpm-src-parse", format!("source index of archive {a} ({} entries) does not parse: {e}", ents.len()));
                                return Some("err:parse-src".into());
                            }
                            Err(_) => return Some("panic".into()),
                        }
                    }
                    let refs: Vec<(u16, &ArchiveIndex)> = idxs.iter().map(|(a, i)| (*a, i)).collect();
                    let mut mbytes = Vec::new();
                    match catch(AssertUnwindSafe(|| build_merged(&refs, Cursor::new(&mut mbytes)).map(|_| ()))) {
                        Ok(Ok(())) => {}
                        Ok(Err(_)) => return Some("err:build".into()),
                        Err(_) => return Some("panic".into()),
                    }
                    let mut gb = ArchiveGroupBuilder::new();
                    for (a, i) in &idxs {
                        gb.add_archive(*a, i);
                    }
                    let mut bbytes = Vec::new();
                    match catch(AssertUnwindSafe(|| gb.build(Cursor::new(&mut bbytes)).map(|_| ()))) {
                        Ok(Ok(())) => {}
                        Ok(Err(_)) => return Some("err:build".into()),
                        Err(_) => return Some("panic".into()),
                    }
                    let same = mbytes == bbytes;
                    let shape = format!("{} archives with {} entries, {} distinct keys", st.srcs.len(), st.srcs.iter().map(|x| x.1.len().to_string()).collect::<Vec<_>>().join("+"), st.reference.len());
                    if !same && !st.dup_in_src {
                        fail(s, "grpm-merged-vs-builder", format!("{shape}: build_merged output ({} bytes) differs from ArchiveGroupBuilder::add_archive + build ({} bytes)", mbytes.len(), bbytes.len()));
                    }
                    let m = catch(AssertUnwindSafe(|| ArchiveGroup::parse(&mut Cursor::new(&mbytes))));
                    let b = catch(AssertUnwindSafe(|| ArchiveGroup::parse(&mut Cursor::new(&bbytes))));
                    match (m, b) {
                        (Ok(Ok(m)), Ok(Ok(b))) => {
                            let r = format!("ok n={} same={} src={}", m.entries.len(), same as u8, idxs.iter().map(|x| x.1.entries.len().to_string()).collect::<Vec<_>>().join("+"));
                            if !st.dup_in_src && (m.entries.len() != st.reference.len() || b.entries.len() != st.reference.len()) {
                                fail(s, "grpm-parse", format!("{shape}: merged group holds {} entries, builder group {}", m.entries.len(), b.entries.len()));
                            }
                            st.merged = Some(m);
                            st.via_builder = Some(b);
                            Some(r)
                        }
                        (Err(_), _) | (_, Err(_)) => Some("panic".into()),
                        (m, b) => {
                            fail(s, "grpm-parse", format!("{shape}: built group does not parse (merged ok={}, builder ok={})", matches!(m, Ok(Ok(_))), matches!(b, Ok(Ok(_)))));
                            Some("err:parse".into())
                        }
                    }
                }
                ["f", arg] => {
                    let (Some(m), Some(b)) = (&st.merged, &st.via_builder) else { return if built { Some("err:nofile".into()) } else { None } };
                    let k = unhex(arg)?;
                    let got = match catch(AssertUnwindSafe(|| (m.find_entry(&k).cloned(), b.find_entry(&k).cloned()))) {
                        Ok(g) => g,
                        Err(_) => return Some("panic".into()),
                    };
                    let g = got.0.as_ref().map(|e| (e.archive_index, e.offset, e.size));
                    let gb = got.1.as_ref().map(|e| (e.archive_index, e.offset, e.size));
                    if !st.dup_in_src {
                        let want = st.reference.get(&k).copied();
                        if g != want {
                            fail(s, "grpm-lookup", format!("{} archives, key {arg}: find_entry on the merged group returned {g:?}, inserted (first archive listing it) {want:?}", st.srcs.len()));
                        }
                        if gb != want {
                            fail(s, "grpm-builder-lookup", format!("{} archives, key {arg}: find_entry on the add_archive group returned {gb:?}, inserted {want:?}", st.srcs.len()));
                        }
                        let lin = m.entries.iter().find(|e| e.encoding_key == k).map(|e| (e.archive_index, e.offset, e.size));
                        if lin != g {
                            fail(s, "grpm-linear", format!("key {arg}: binary search differs from linear scan of the merged group"));
                        }
                    }
                    Some(g.map(|(a, o, z)| format!("{a} {o} {z}")).unwrap_or("none".into()))
                }
                _ => None,
            },
            Mode::Root(st) => match toks {
                [op @ ("r" | "rp"), fd, ck, nh, loc, cf] => {
                    let (fd, ck, loc, cf) = (fd.parse::<u32>().ok()?, k16(ck)?, loc.parse::<u32>().ok()?, cf.parse::<u64>().ok()?);
                    // `r`: numeric name hash or `-`; `rp`: an ASCII path (hex), hashed by calculate_name_hash as RootBuilder::add_file does
                    let (nh, path) = if *op == "rp" {
                        let raw = unhex(nh)?;
                        if !raw.is_ascii() {
                            return None;
                        }
                        (Some(calculate_name_hash(std::str::from_utf8(&raw).ok()?)), Some(raw))
                    } else if *nh == "-" {
                        (None, None)
                    } else {
                        (Some(nh.parse::<u64>().ok()?), None)
                    };
                    if built {
                        return None;
                    }
                    // a block carries name hashes iff V1 or NO_NAME_HASH is clear; records must agree
                    let block_named = st.ver == RootVersion::V1 || cf & ContentFlags::NO_NAME_HASH == 0;
                    if block_named != nh.is_some() {
                        st.consistent_names = false;
                        s.tally(if block_named { "root.unnamed-record-in-named-block" } else { "root.name-dropped-by-no-name-hash-block" });
                    }
                    if cf >= (if st.ver == RootVersion::V4 { 1u64 << 40 } else { 1u64 << 32 }) {
                        st.wide = true;
                    }
                    st.recs.push((fd, ck, nh, loc, cf));
                    st.by_id.entry((fd, loc, cf)).or_default().push(ck);
                    // name index: a block with name hashes stores one per record (0 for a record
                    // without a name); a block without stores none
                    if block_named {
                        st.by_hash.entry((nh.unwrap_or(0), loc, cf)).or_default().push(ck);
                        if let Some(p) = path {
                            st.by_path.entry((norm_path(&p), loc, cf)).or_default().push(ck);
                        }
                    }
                    Some("ok".into())
                }
                ["build"] => {
                    self.built = true;
                    let Some(bytes) = build_root(st.ver, st.recs.iter().copied()) else { return Some("err:build".into()) };
                    let named = st.recs.iter().filter(|r| r.2.is_some()).count();
                    st.ambiguous = v2_ambiguous(st.ver, st.recs.len(), named);
                    match catch(AssertUnwindSafe(|| RootFile::parse(&bytes))) {
                        Ok(Ok(p)) => {
                            let recs: usize = p.blocks.iter().map(|b| b.records.len()).sum();
                            let r = format!("ok ver={} blocks={} recs={}", ver_num(p.version), p.blocks.len(), recs);
                            if p.version != st.ver || recs != st.recs.len() {
                                let sig = if st.ambiguous { SIG_V2 } else { "root-parse" };
                                fail(s, sig, format!("built V{} root with {} records ({} named) parses as V{} with {} records", ver_num(st.ver), st.recs.len(), named, ver_num(p.version), recs));
                            }
                            st.parsed = Some(p);
                            Some(r)
                        }
                        Ok(Err(e)) => {
                            let sig = if st.ambiguous { SIG_V2 } else { "root-parse" };
                            fail(s, sig, format!("built V{} root with {} records ({} named) does not parse: {e}", ver_num(st.ver), st.recs.len(), named));
                            Some("err:parse".into())
                        }
                        Err(_) => Some("panic".into()),
                    }
                }
                ["blocks"] => {
                    let Some(p) = &st.parsed else { return if built { Some("err:nofile".into()) } else { None } };
                    // O (root_parse_build on the real code): the parsed blocks are exactly the inserted
                    // records, blocks in (locale, content) order, records in FileDataID order
                    let mut got: Vec<(u32, u64, u32, [u8; 16], Option<u64>)> = vec![];
                    let mut ordered = true;
                    let mut prev_block: Option<(u32, u64)> = None;
                    for b in &p.blocks {
                        let (l, c) = (b.header.locale_flags.value(), b.header.content_flags);
                        if prev_block.is_some_and(|pb| pb > (l, c)) || b.header.num_records as usize != b.records.len() {
                            ordered = false;
                        }
                        prev_block = Some((l, c));
                        let mut prev_fd: Option<u32> = None;
                        for r in &b.records {
                            let fd = r.file_data_id.get();
                            if prev_fd.is_some_and(|x| x > fd) {
                                ordered = false;
                            }
                            prev_fd = Some(fd);
                            got.push((l, c, fd, *r.content_key.as_bytes(), r.name_hash));
                        }
                    }
                    let ver = st.ver;
                    let mut want: Vec<(u32, u64, u32, [u8; 16], Option<u64>)> = st.recs.iter().map(|(fd, ck, nh, loc, cf)| {
                        let block_named = ver == RootVersion::V1 || cf & ContentFlags::NO_NAME_HASH == 0;
                        (*loc, *cf, *fd, *ck, if block_named { Some(nh.unwrap_or(0)) } else { None })
                    }).collect();
                    got.sort();
                    want.sort();
                    if !ordered || got != want {
                        let sig = if st.ambiguous { SIG_V2 } else { "root-blocks-as-inserted" };
                        // name the first inserted record that is missing / first parsed record never inserted
                        let show = |r: &(u32, u64, u32, [u8; 16], Option<u64>)| format!("fdid {} in block locale {:#x} content {:#x} (key {}, name hash {:?})", r.2, r.0, r.1, hex(&r.3), r.4);
                        let missing = want.iter().find(|w| !got.contains(w)).map(|w| show(w)).unwrap_or("-".into());
                        let extra = got.iter().find(|g| !want.contains(g)).map(|g| show(g)).unwrap_or("-".into());
                        let named_total = st.recs.iter().filter(|r| r.2.is_some()).count();
                        fail(s, sig, format!("V{} root, {} inserted records ({} with a name) in {} blocks: parsed {} blocks / {} records (ordered={ordered}) are not the inserted records in builder order; first inserted record not parsed: {missing}; first parsed record never inserted: {extra}", ver_num(st.ver), want.len(), named_total, st.by_id.keys().map(|k| (k.1, k.2)).collect::<BTreeSet<_>>().len(), p.blocks.len(), got.len()));
                    }
                    Some(join_or(
                        p.blocks.iter().map(|b| format!("{}:{}:{}:{}", b.header.locale_flags.value(), b.header.content_flags, b.header.num_records, b.records.iter().map(|r| r.file_data_id.get().to_string()).collect::<Vec<_>>().join("+"))).collect(),
                        ";",
                    ))
                }
                ["stats"] => {
                    let Some(p) = &st.parsed else { return if built { Some("err:nofile".into()) } else { None } };
                    // lookup_stats = number of distinct FileDataIDs / name hashes in the lookup tables
                    let (ids, names) = p.lookup_stats();
                    let want_ids = st.by_id.keys().map(|k| k.0).collect::<BTreeSet<_>>().len();
                    let want_names = st.by_hash.keys().map(|k| k.0).collect::<BTreeSet<_>>().len();
                    if ids != want_ids || names != want_names {
                        let sig = if st.ambiguous { SIG_V2 } else { "root-lookup-stats" };
                        fail(s, sig, format!("lookup tables hold {ids} FileDataIDs / {names} name hashes, inserted {want_ids} / {want_names}"));
                    }
                    Some(format!("fdids={ids} names={names}"))
                }
                [op @ ("ids" | "paths"), a] => {
                    let Some(p) = &st.parsed else { return if built { Some("err:nofile".into()) } else { None } };
                    // every lookup-table entry of a FileDataID / path: one per inserted record, carrying the
                    // locale and content flags of the record's own block, in block order
                    let (ents, want, what): (Option<&Vec<_>>, Vec<(u32, u64, [u8; 16])>, Box<dyn Fn(&cascette_formats::root::RootRecord) -> bool>) = if *op == "ids" {
                        let fd = a.parse::<u64>().ok()? as u32;
                        (p.get_entries_by_id(FileDataId::new(fd)), ref_entries(&st.by_id, &fd), Box::new(move |r| r.file_data_id.get() == fd))
                    } else {
                        let raw = unhex(a)?;
                        if !raw.is_ascii() {
                            return None;
                        }
                        let ps = String::from_utf8(raw.clone()).ok()?;
                        let h = calculate_name_hash(&ps);
                        (p.get_entries_by_path(&ps), ref_entries(&st.by_path, &norm_path(&raw)), Box::new(move |r| r.name_hash == Some(h)))
                    };
                    let list: Vec<(usize, u32, u64, [u8; 16])> =
                        ents.map(|v| v.iter().map(|e| (e.block_index, e.locale_flags.value(), e.content_flags.value, *e.content_key.as_bytes())).collect()).unwrap_or_default();
                    let mut got: Vec<(u32, u64, [u8; 16])> = list.iter().map(|e| (e.1, e.2, e.3)).collect();
                    got.sort();
                    if !st.wide && (got != want || ents.is_some_and(|v| v.is_empty())) {
                        let sig = if st.ambiguous { SIG_V2 } else { "root-entries" };
                        let show = |v: &[(u32, u64, [u8; 16])]| v.iter().map(|e| format!("{:#x}:{:#x}:{}", e.0, e.1, hex(&e.2))).collect::<Vec<_>>().join(" ");
                        fail(s, sig, format!("{op} {a}: lookup tables hold [{}], inserted (locale:content:ckey) [{}]", show(&got), show(&want)));
                    }
                    // each entry points at a parsed block with its flags that holds the record; block order
                    let anchored = list.iter().all(|e| {
                        p.blocks.get(e.0).is_some_and(|b| b.header.locale_flags.value() == e.1 && b.header.content_flags == e.2 && b.records.iter().any(|r| what(r) && *r.content_key.as_bytes() == e.3))
                    }) && list.windows(2).all(|w| w[0].0 <= w[1].0);
                    if !anchored {
                        fail(s, "root-entries-vs-blocks", format!("{op} {a}: an entry's block_index / flags do not name a parsed block holding that record (or entries are not in block order): {:?}", list.iter().map(|e| (e.0, e.1, e.2, hex(&e.3))).collect::<Vec<_>>()));
                    }
                    Some(join_or(list.iter().map(|e| format!("{}:{}:{}:{}", e.0, e.1, e.2, hex(&e.3))).collect(), ";"))
                }
                [op @ ("id" | "nh" | "path"), a, loc, cf] => {
                    let Some(p) = &st.parsed else { return if built { Some("err:nofile".into()) } else { None } };
                    let (loc, cf) = (loc.parse::<u32>().ok()?, cf.parse::<u64>().ok()?);
                    let (l, c) = (LocaleFlags::new(loc), ContentFlags::new(cf));
                    // got = the lookup tables' answer; want = content keys of the inserted records of this
                    // (id | hash | path) whose own block's (locale, content) matches the query; scan = first
                    // matching record of a linear scan over the parsed blocks
                    let (got, want, scan) = match *op {
                        "id" => {
                            let fd = a.parse::<u64>().ok()? as u32;
                            (p.resolve_by_id(FileDataId::new(fd), l, c), ref_matches(&st.by_id, &fd, loc, cf), scan_blocks(p, |r| r.file_data_id.get() == fd, loc, cf))
                        }
                        "nh" => {
                            let h = a.parse::<u64>().ok()?;
                            (p.resolve_by_hash(h, l, c), ref_matches(&st.by_hash, &h, loc, cf), scan_blocks(p, |r| r.name_hash == Some(h), loc, cf))
                        }
                        _ => {
                            let raw = unhex(a)?;
                            if !raw.is_ascii() {
                                return None;
                            }
                            let ps = String::from_utf8(raw.clone()).ok()?;
                            let h = calculate_name_hash(&ps);
                            (p.resolve_by_path(&ps, l, c), ref_matches(&st.by_path, &norm_path(&raw), loc, cf), scan_blocks(p, |r| r.name_hash == Some(h), loc, cf))
                        }
                    };
                    let g = got.map(|k| *k.as_bytes());
                    // exactly the inserted value when one inserted record matches, nothing when none does
                    let ok = match (want.len(), g) {
                        (0, None) => true,
                        (0, Some(_)) => false,
                        (_, Some(k)) => want.contains(&k),
                        (_, None) => false,
                    };
                    if !ok {
                        let sig = if st.ambiguous { SIG_V2 } else { "root-lookup" };
                        fail(s, sig, format!("{op} {a} locale {loc:#x} content {cf:#x}: got {:?}, inserted in a matching (locale, content) block {:?}", g.map(|k| hex(&k)), want.iter().map(|k| hex(k)).collect::<Vec<_>>()));
                    }
                    // every lookup flavour agrees with a linear scan of the entries
                    if g != scan {
                        fail(s, "root-lookup-vs-scan", format!("{op} {a} locale {loc:#x} content {cf:#x}: lookup tables give {:?}, a linear scan of the parsed blocks gives {:?}", g.map(|k| hex(&k)), scan.map(|k| hex(&k))));
                    }
                    Some(g.map(|k| hex(&k)).unwrap_or("none".into()))
                }
                _ => None,
            },
            Mode::Tvfs(st) => match toks {
                ["s", spec] => {
                    // an encoding-spec string for the EST (non-empty ASCII without NUL)
                    let spec = unhex(spec)?;
                    if built || spec.is_empty() || !spec.is_ascii() || spec.contains(&0) {
                        return None;
                    }
                    st.specs.push(spec);
                    Some("ok".into())
                }
                [op @ ("t" | "te"), p, ek, es, cs, ck, rest @ ..] => {
                    let (p, ek, es, cs) = (unhex(p)?, unhex(ek)?, es.parse::<u32>().ok()?, cs.parse::<u32>().ok()?);
                    let ek: [u8; 9] = ek.try_into().ok()?;
                    let ck = if *ck == "-" { None } else { Some(k16(ck)?) };
                    // `te`: add_file_with_est with an EST index
                    let est = match (*op, rest) {
                        ("t", []) => None,
                        ("te", [e]) => Some(e.parse::<u32>().ok()?),
                        _ => return None,
                    };
                    if built || std::str::from_utf8(&p).is_err() {
                        return None;
                    }
                    if p.split(|b| *b == b'/').any(|c| c.len() >= 255) {
                        st.long_name = true;
                    }
                    if st.reference.insert(p.clone(), (ek, es, ck, est)).is_some() {
                        st.dup = true;
                    }
                    st.files.push((p, ek, es, cs, ck, est));
                    Some("ok".into())
                }
                ["build"] => {
                    self.built = true;
                    let mut b = TvfsBuilder::with_flags(st.flags);
                    for sp in &st.specs {
                        b.add_est_spec(String::from_utf8(sp.clone()).ok()?);
                    }
                    for (p, ek, es, cs, ck, est) in &st.files {
                        let path = String::from_utf8(p.clone()).ok()?;
                        match est {
                            Some(e) => b.add_file_with_est(path, *ek, *es, *cs, *ck, *e),
                            None => b.add_file(path, *ek, *es, *cs, *ck),
                        }
                    }
                    let bytes = match catch(AssertUnwindSafe(|| b.build())) {
                        Ok(Ok(x)) => x,
                        Ok(Err(_)) => return Some("err:build".into()),
                        Err(_) => return Some("panic".into()),
                    };
                    match catch(AssertUnwindSafe(|| TvfsFile::parse(&bytes))) {
                        Ok(Ok(p)) => {
                            let r = format!("ok files={} vfs={} cft={}", p.path_table.files.len(), p.vfs_table.entries.len(), p.container_table.entries.len());
                            if !st.dup && (p.path_table.files.len() != st.files.len() || p.vfs_table.entries.len() != st.files.len() || p.container_table.entries.len() != st.files.len()) {
                                let sig = if st.long_name { SIG_TVFS255 } else { "tvfs-parse" };
                                fail(s, sig, format!("{} files inserted (flags {}), parsed {} paths / {} VFS entries / {} container entries", st.files.len(), st.flags, p.path_table.files.len(), p.vfs_table.entries.len(), p.container_table.entries.len()));
                            }
                            st.parsed = Some(p);
                            Some(r)
                        }
                        Ok(Err(e)) => {
                            let sig = if st.long_name { SIG_TVFS255 } else { "tvfs-parse" };
                            fail(s, sig, format!("built TVFS manifest ({} files, flags {}) does not parse: {e}", st.files.len(), st.flags));
                            Some(match &e {
                                TvfsError::PathTableTruncated(_) => "err:path-trunc".into(),
                                TvfsError::InvalidPathNode(..) => "err:path-node".into(),
                                TvfsError::VfsTableTruncated(_) => "err:vfs-trunc".into(),
                                TvfsError::CftTableTruncated(_) => "err:cft-trunc".into(),
                                _ => format!("err:other:{}", e.to_string().split(' ').next().unwrap_or("")),
                            })
                        }
                        Err(_) => Some("panic".into()),
                    }
                }
                ["specs"] => {
                    let Some(p) = &st.parsed else { return if built { Some("err:nofile".into()) } else { None } };
                    // the parsed EST: exactly the inserted spec strings iff ENCODING_SPEC is set
                    let got: Vec<Vec<u8>> = p.est_table.as_ref().map(|t| t.specs.iter().map(|x| x.as_bytes().to_vec()).collect()).unwrap_or_default();
                    let want: Vec<Vec<u8>> = if st.flags & 2 != 0 { st.specs.clone() } else { vec![] };
                    if got != want {
                        fail(s, "tvfs-est", format!("flags {}: parsed EST holds {} specs, inserted {}", st.flags, got.len(), want.len()));
                    }
                    Some(join_or(got.iter().map(|x| hex(x)).collect(), ","))
                }
                ["p", arg] => {
                    let Some(p) = &st.parsed else { return if built { Some("err:nofile".into()) } else { None } };
                    let path = unhex(arg)?;
                    let ps = String::from_utf8(path.clone()).ok()?;
                    let got = match catch(AssertUnwindSafe(|| p.resolve_path(&ps).cloned())) {
                        Ok(g) => g,
                        Err(_) => return Some("panic".into()),
                    };
                    let (with_ck, with_est, with_patch) = (st.flags & 1 != 0, st.flags & 2 != 0, st.flags & 4 != 0);
                    if !st.dup {
                        // exactly the inserted record, in the fields the builder's flags keep: 9-byte
                        // EKey, encoded size, first 9 content-key bytes (zeros when the file has none),
                        // the EST index (0 when added without one), an unset patch offset
                        let est_len: usize = if with_est { st.specs.iter().map(|x| x.len() + 1).sum() } else { 0 };
                        let est_mask: u64 = if est_len > 0xFF_FFFF { u32::MAX as u64 } else if est_len > 0xFFFF { 0xFF_FFFF } else if est_len > 0xFF { 0xFFFF } else { 0xFF };
                        let mut narrow = false;
                        let want = st.reference.get(&path).map(|(ek, es, ck, est)| {
                            let e = est.unwrap_or(0);
                            if with_est && (e as u64) > est_mask { narrow = true; }
                            (ek.to_vec(), *es, if with_ck { Some(ck.map(|c| c[..9].to_vec()).unwrap_or(vec![0u8; 9])) } else { None }, if with_est { Some(e) } else { None }, if with_patch { Some(0u32) } else { None })
                        });
                        let g = got.as_ref().map(|e| (e.ekey.clone(), e.encoded_size, e.content_key.clone(), e.est_index, e.patch_offset));
                        if narrow {
                            s.tally("tvfs.est-index-wider-than-field");
                        } else if g != want {
                            let sig = if st.long_name { SIG_TVFS255 } else { "tvfs-lookup" };
                            fail(s, sig, format!("flags {} / {} files: path {ps:?}: resolve_path returned {g:?}, inserted {want:?}", st.flags, st.files.len()));
                        }
                        // every lookup flavour agrees with a linear scan: path table entry -> the VFS entry
                        // AT that offset -> the container entry AT the span's offset (read_entry_at)
                        let scan = p.path_table.files.iter().find(|f| f.path == ps).and_then(|f| {
                            let v = cascette_formats::tvfs::VfsTable::read_entry_at(&p.vfs_table.data, f.vfs_offset as usize, &p.header).ok()?;
                            let sp = v.spans.first()?;
                            p.container_table.get_entry_at_offset(sp.cft_offset, &p.header).ok()
                        });
                        let sc = scan.as_ref().map(|e| (e.ekey.clone(), e.encoded_size, e.content_key.clone(), e.est_index, e.patch_offset));
                        if sc != g && !st.long_name {
                            fail(s, "tvfs-lookup-vs-offsets", format!("flags {} / {} files: path {ps:?}: resolve_path (entry lists) returned {g:?}, reading the VFS/CFT blobs at the stored offsets gives {sc:?}", st.flags, st.files.len()));
                        }
                    }
                    let num = |x: Option<u32>| x.map(|v| v.to_string()).unwrap_or("-".into());
                    Some(got.map(|e| format!("{} {} {} {} {}", hex(&e.ekey), e.encoded_size, e.content_key.as_ref().map(|c| hex(c)).unwrap_or("-".into()), num(e.est_index), num(e.patch_offset))).unwrap_or("none".into()))
                }
                _ => None,
            },
            Mode::Res(st) => match toks {
                ["rp", fd, ck, path, loc, cf] => {
                    let (fd, ck, path, loc, cf) = (fd.parse::<u32>().ok()?, k16(ck)?, unhex(path)?, loc.parse::<u32>().ok()?, cf.parse::<u64>().ok()?);
                    if built || !path.is_ascii() {
                        return None;
                    }
                    st.recs.push((fd, ck, path, loc, cf));
                    Some("ok".into())
                }
                ["ck", k, sz, eks] => {
                    let (k, sz, eks) = (k16(k)?, sz.parse::<u64>().ok()?, keys16(eks)?);
                    if built {
                        return None;
                    }
                    st.ck_ref.insert(k, eks[0]);
                    st.ck.push(CKeyEntryData { content_key: ContentKey::from_bytes(k), file_size: sz, encoding_keys: eks.iter().map(|e| EncodingKey::from_bytes(*e)).collect() });
                    Some("ok".into())
                }
                ["ek", k, spec, sz] => {
                    let (k, sz) = (k16(k)?, sz.parse::<u64>().ok()?);
                    if built {
                        return None;
                    }
                    st.ek.push(EKeyEntryData { encoding_key: EncodingKey::from_bytes(k), espec: spec.to_string(), file_size: sz });
                    Some("ok".into())
                }
                ["build"] => {
                    self.built = true;
                    let recs = st.recs.iter().map(|(fd, ck, path, loc, cf)| {
                        let p = std::str::from_utf8(path).unwrap_or("");
                        (*fd, *ck, Some(calculate_name_hash(p)), *loc, *cf)
                    });
                    let Some(rbytes) = build_root(st.ver, recs) else { return Some("err:build".into()) };
                    st.ambiguous = v2_ambiguous(st.ver, st.recs.len(), st.recs.len());
                    let (_, ebytes) = match build_encoding(1024, 1024, &st.ck, &st.ek) {
                        Ok(x) => x,
                        Err(_) => return Some("err:build".into()),
                    };
                    let r = ContentResolver::new();
                    let a = catch(AssertUnwindSafe(|| r.load_root_file(&rbytes).is_ok()));
                    let b = catch(AssertUnwindSafe(|| r.load_encoding_file(&ebytes).is_ok()));
                    match (a, b) {
                        (Ok(true), Ok(true)) => {
                            st.resolver = Some(r);
                            Some("ok".into())
                        }
                        (Err(_), _) | (_, Err(_)) => Some("panic".into()),
                        _ => {
                            if !(st.ck.is_empty() || st.ek.is_empty()) {
                                fail(s, "res-load", "resolver cannot load the built root/encoding files".into());
                            }
                            Some("err:parse".into())
                        }
                    }
                }
                [op, arg] => {
                    let Some(r) = &st.resolver else { return if built { Some("err:nofile".into()) } else { None } };
                    // the content keys inserted for the FileDataID / path (one, unless the file is listed by
                    // several blocks with different keys: the resolver ignores locale/content, any of them is
                    // an inserted value) composed with the inserted encoding map
                    let (got, want_cks): (Option<EncodingKey>, BTreeSet<[u8; 16]>) = match *op {
                        "rf" => {
                            let fd: u32 = arg.parse().ok()?;
                            (r.resolve_fdid_to_encoding(fd), st.recs.iter().filter(|x| x.0 == fd).map(|x| x.1).collect())
                        }
                        "rq" => {
                            let path = unhex(arg)?;
                            let ps = String::from_utf8(path.clone()).ok()?;
                            (r.resolve_path_to_encoding(&ps), st.recs.iter().filter(|x| norm_path(&x.2) == norm_path(&path)).map(|x| x.1).collect())
                        }
                        _ => return None,
                    };
                    let want: BTreeSet<Option<[u8; 16]>> = if want_cks.is_empty() { [None].into_iter().collect() } else { want_cks.iter().map(|c| st.ck_ref.get(c).copied()).collect() };
                    let g = got.map(|e| *e.as_bytes());
                    if !want.contains(&g) {
                        let sig = if st.ambiguous { SIG_V2 } else if *op == "rf" { "res-fdid-chain" } else { "res-path-chain" };
                        fail(s, sig, format!("{op} {arg}: resolver returned {:?}, composition of the inserted maps gives {:?}", g.map(|k| hex(&k)), want.iter().map(|w| w.map(|k| hex(&k))).collect::<Vec<_>>()));
                    }
                    Some(g.map(|k| hex(&k)).unwrap_or("none".into()))
                }
                _ => None,
            },
        }
    }

    fn exec(&mut self, s: &mut Session, line: &str) -> String {
        let toks: Vec<&str> = line.split(' ').filter(|t| !t.is_empty()).collect();
        if toks.first() == Some(&"begin") {
            self.hist.clear();
        }
        self.hist.push(line.to_string());
        let r = self.run(s, &toks).unwrap_or_else(|| "bad-op".into());
        s.line(line, &r);
        if let Some(t) = toks.first() {
            let area = match &self.mode {
                Mode::None => "-",
                Mode::Enc(_) => "enc",
                Mode::Idx(_) => "idx",
                Mode::Grp(_) => "grp",
                Mode::Grpm(_) => "grpm",
                Mode::Root(_) => "root",
                Mode::Tvfs(_) => "tvfs",
                Mode::Res(_) => "res",
            };
            s.tally(&format!("op.{area}.{t}"));
        }
        r
    }
}

// ---------------------------------------------------------------- generators

/// distinct keys of `len` bytes: random / long shared prefix / dense counter, optionally with the
/// all-00 and all-FF keys
fn key_set(rng: &mut Rng, len: usize, n: usize, style: u64, extremes: bool) -> Vec<Vec<u8>> {
    let cap: u128 = if len >= 8 { u128::MAX } else { 1u128 << (8 * len) };
    let n = (n as u128).min(cap) as usize;
    let mut set: BTreeSet<Vec<u8>> = BTreeSet::new();
    if extremes && n >= 2 {
        set.insert(vec![0u8; len]);
        set.insert(vec![0xFFu8; len]);
    }
    let prefix = rng.bytes(len);
    let base = rng.next();
    let mut i: u64 = 0;
    while set.len() < n {
        let k: Vec<u8> = match style {
            0 => rng.bytes(len),
            1 => {
                // shared prefix, only the last 1-2 bytes vary (falls back to random when exhausted)
                let mut k = prefix.clone();
                let tail = if len >= 2 && n > 200 { 2 } else { 1 };
                if (n as u128) > (1u128 << (8 * tail.min(len))) / 2 { rng.bytes(len) } else {
                    for j in 0..tail.min(len) { let l = k.len(); k[l - 1 - j] = rng.byte(); }
                    k
                }
            }
            _ => {
                // dense big-endian counter (keys differ by exactly 1)
                let v = base.wrapping_add(i);
                i += 1;
                let mut k = prefix.clone();
                let b = v.to_be_bytes();
                let m = len.min(8);
                k[len - m..].copy_from_slice(&b[8 - m..]);
                k
            }
        };
        set.insert(k);
    }
    let mut v: Vec<Vec<u8>> = set.into_iter().collect();
    // insertion order is shuffled: the builders must sort
    for i in (1..v.len()).rev() {
        let j = rng.below(i as u64 + 1) as usize;
        v.swap(i, j);
    }
    v
}

fn succ(k: &[u8]) -> Option<Vec<u8>> {
    let mut v = k.to_vec();
    for i in (0..v.len()).rev() {
        if v[i] != 0xFF { v[i] += 1; for b in &mut v[i + 1..] { *b = 0; } return Some(v); }
    }
    None
}
fn pred(k: &[u8]) -> Option<Vec<u8>> {
    let mut v = k.to_vec();
    for i in (0..v.len()).rev() {
        if v[i] != 0 { v[i] -= 1; for b in &mut v[i + 1..] { *b = 0xFF; } return Some(v); }
    }
    None
}

/// probes: every inserted key, its neighbours ±1, the extremes, some random keys
fn probes(rng: &mut Rng, keys: &[Vec<u8>], len: usize, all: bool) -> Vec<Vec<u8>> {
    let mut v = vec![];
    for (i, k) in keys.iter().enumerate() {
        if all || i % 7 == 0 || i < 3 || i + 3 >= keys.len() {
            v.push(k.clone());
            if let Some(x) = succ(k) { v.push(x); }
            if let Some(x) = pred(k) { v.push(x); }
        }
    }
    v.push(vec![0u8; len]);
    v.push(vec![0xFFu8; len]);
    for _ in 0..4 { v.push(rng.bytes(len)); }
    v
}

fn sizes_around(rng: &mut Rng, cap: usize, max_mult: usize) -> usize {
    match rng.below(8) {
        0 => rng.range(0, 3) as usize,
        1 => rng.range(1, (cap * max_mult) as u64) as usize,
        _ => {
            let m = rng.range(1, max_mult as u64) as usize;
            (cap * m + rng.below(3) as usize).saturating_sub(1)
        }
    }
}

fn case_enc(im: &mut Impl, s: &mut Session, rng: &mut Rng, thorough: bool, force_zero_ekey: bool) {
    let cp = *rng.pick(&[1024usize, 1024, 2048, 4096]);
    let ep = *rng.pick(&[1024usize, 1024, 2048]);
    im.exec(s, &format!("begin enc {cp} {ep}"));
    let uniform_k = if rng.chance(1, 2) { Some(rng.range(1, 3) as usize) } else { None };
    let ccap = cp / (22 + 16 * uniform_k.unwrap_or(2));
    let ecap = ep / 25;
    let mm = if thorough { 6 } else { 3 };
    let nc = sizes_around(rng, ccap, mm).max(1);
    let ne = sizes_around(rng, ecap, mm).max(1);
    let style = rng.below(3);
    let extremes = rng.chance(1, 3);
    let cks = key_set(rng, 16, nc, style, extremes);
    let estyle = rng.below(3);
    let mut eks = key_set(rng, 16, ne, estyle, extremes);
    let zero = vec![0u8; 16];
    if force_zero_ekey {
        eks.retain(|k| *k != zero);
        eks.insert(0, zero.clone());
    } else if let Some(p) = eks.iter().position(|k| *k == zero) {
        // keep the all-zero EKey away from espec index 0 (that combination is the recorded finding,
        // exercised by its own corpus case and by `force_zero_ekey`)
        if p == 0 && eks.len() > 1 { eks.swap(0, 1); } else if eks.len() == 1 { eks[0] = vec![1u8; 16]; }
    }
    let specs = ["z", "n", "b:{*=z}", "b:{256K*=z}", "e:{237DA26C65073F42,6FA0420E,z}"];
    let max_k = (cp - 22) / 16;
    for k in &cks {
        let kc = match uniform_k {
            Some(k) => k,
            None => match rng.below(12) { 0 => max_k.min(255), 1 => rng.range(1, max_k.min(40) as u64) as usize, _ => rng.range(1, 4) as usize },
        };
        let ekl: Vec<String> = (0..kc).map(|_| hex(&rng.bytes(16))).collect();
        im.exec(s, &format!("ck {} {} {}", hex(k), rng.below(1 << 40), ekl.join(",")));
    }
    for (i, k) in eks.iter().enumerate() {
        let sp = if force_zero_ekey && i == 0 { specs[0] } else if i == 0 { specs[1] } else { *rng.pick(&specs) };
        im.exec(s, &format!("ek {} {} {}", hex(k), sp, rng.below(1 << 40)));
    }
    let r = im.exec(s, "build");
    s.tally(&format!("enc.pages.{}", r.split(' ').skip(3).collect::<Vec<_>>().join("/")));
    let all = nc <= 120;
    let cp_ = probes(rng, &cks, 16, all);
    for (i, k) in cp_.iter().enumerate() {
        im.exec(s, &format!("{} {}", if i % 3 == 0 { "fa" } else { "fe" }, hex(k)));
    }
    let ep_ = probes(rng, &eks, 16, ne <= 120);
    for k in &ep_ {
        im.exec(s, &format!("fs {}", hex(k)));
    }
    // batches: shuffled probes with repeats, empty-ish and single batches
    for round in 0..3 {
        let mut b: Vec<&Vec<u8>> = cp_.iter().filter(|_| rng.chance(2, 3)).collect();
        if round == 1 { b.truncate(1); }
        if b.is_empty() { continue; }
        if b.len() > 3 { let d = b[rng.below(b.len() as u64) as usize]; b.push(d); }
        b.truncate(if thorough { 400 } else { 150 });
        for i in (1..b.len()).rev() { let j = rng.below(i as u64 + 1) as usize; b.swap(i, j); }
        let arg = b.iter().map(|k| hex(k)).collect::<Vec<_>>().join(",");
        im.exec(s, &format!("{} {arg}", if round == 2 { "bfa" } else { "bfe" }));
        let mut b: Vec<&Vec<u8>> = ep_.iter().filter(|_| rng.chance(2, 3)).collect();
        b.truncate(if thorough { 400 } else { 150 });
        if b.is_empty() { continue; }
        for i in (1..b.len()).rev() { let j = rng.below(i as u64 + 1) as usize; b.swap(i, j); }
        im.exec(s, &format!("bfs {}", b.iter().map(|k| hex(k)).collect::<Vec<_>>().join(",")));
    }
    s.case(Some(&format!("enc {cp} {ep} {nc} {ne} {style} {}", cks.first().map(|k| hex(k)).unwrap_or_default())));
}

fn case_idx(im: &mut Impl, s: &mut Session, rng: &mut Rng, thorough: bool, ks: usize, ob: u8, zero_rec: bool) {
    let rpb = 4096 / (ks + 4 + ob as usize);
    im.exec(s, &format!("begin idx {ks} {ob} {rpb}"));
    let mm = if thorough { 5 } else { 2 };
    let n = if zero_rec { rng.range(2, 5) as usize } else { sizes_around(rng, rpb, mm) };
    let style = rng.below(3);
    let ext = rng.chance(1, 2);
    let mut keys = key_set(rng, ks, n, style, ext);
    if zero_rec {
        keys.retain(|k| k.iter().any(|b| *b != 0));
        keys.push(vec![0u8; ks]);
    }
    let maxoff: u64 = match ob { 4 | 6 => 0xFFFF_FFFF, _ => 0xFF_FFFF_FFFF };
    for k in &keys {
        let allzero = k.iter().all(|b| *b == 0);
        let (sz, off) = if allzero && zero_rec { (0, 0) } else {
            let sz = match rng.below(6) { 0 => 1, 1 => 0xFFFF_FFFFu64, _ => rng.range(1, 0xFFFF_FFFF) };
            let off = match rng.below(8) { 0 => 0, 1 => maxoff, 2 if !thorough => rng.range(0, maxoff), 2 => maxoff + 1 + rng.below(1 << 20), _ => rng.range(0, maxoff) };
            (sz, off)
        };
        im.exec(s, &format!("e {} {} {}", hex(k), sz, off));
    }
    im.exec(s, "build");
    im.exec(s, "toc");
    for (i, k) in probes(rng, &keys, ks, n <= 400).iter().enumerate() {
        im.exec(s, &format!("{} {}", if i % 5 == 0 { "fa" } else { "f" }, hex(k)));
    }
    // truncated / over-long probes (TOC prefix comparison)
    for k in keys.iter().take(6) {
        if ks > 1 { im.exec(s, &format!("f {}", hex(&k[..ks - 1]))); }
        let mut l = k.clone(); l.push(0);
        im.exec(s, &format!("f {}", hex(&l)));
    }
    s.case(Some(&format!("idx {ks} {ob} {n} {style} {}", keys.first().map(|k| hex(k)).unwrap_or_default())));
}

fn case_grp(im: &mut Impl, s: &mut Session, rng: &mut Rng, thorough: bool) {
    im.exec(s, "begin grp 157");
    let n = sizes_around(rng, 157, if thorough { 6 } else { 3 });
    let style = rng.below(3);
    let ext = rng.chance(1, 2);
    let keys = key_set(rng, 16, n, style, ext);
    for k in &keys {
        im.exec(s, &format!("g {} {} {} {}", hex(k), rng.below(65536), rng.range(0, 0xFFFF_FFFF), rng.range(1, 0xFFFF_FFFF)));
        if rng.chance(1, 40) {
            // the same key again from another archive: the first one stays
            im.exec(s, &format!("g {} {} {} {}", hex(k), rng.below(65536), rng.range(0, 0xFFFF_FFFF), rng.range(1, 0xFFFF_FFFF)));
        }
    }
    im.exec(s, "build");
    for k in probes(rng, &keys, 16, n <= 400) {
        im.exec(s, &format!("f {}", hex(&k)));
    }
    s.case(Some(&format!("grp {n} {style} {}", keys.first().map(|k| hex(k)).unwrap_or_default())));
}

fn case_root(im: &mut Impl, s: &mut Session, rng: &mut Rng, ver: u32, total: usize, named: bool, blocks: usize) {
    im.exec(s, &format!("begin root {ver}"));
    // blocks with disjoint single-bit locales; content flags carry NO_NAME_HASH iff unnamed
    let locales = [2u32, 4, 0x10, 0x20, 0x40, 0x80];
    let mut fd: u32 = rng.below(1000) as u32;
    let mut recs = vec![];
    for i in 0..total {
        let b = if blocks <= 1 { 0 } else { rng.below(blocks as u64) as usize };
        let loc = locales[b % locales.len()];
        let block_named = named || ver == 1;
        let mut cf: u64 = *rng.pick(&[0u64, 4, 8]) * (b as u64 % 2);
        if !block_named { cf |= 0x1000_0000; }
        if ver == 4 && b == 1 { cf |= 1 << 32; }
        fd += match rng.below(6) { 0 => 1, 1 => rng.range(1, 100_000) as u32, _ => rng.range(1, 5) as u32 };
        let nh = if block_named { Some(rng.next() | 1) } else { None };
        let ck = rng.bytes(16);
        recs.push((fd, ck, nh, loc, cf, i));
    }
    // shuffled insertion order
    for i in (1..recs.len()).rev() { let j = rng.below(i as u64 + 1) as usize; recs.swap(i, j); }
    for (fd, ck, nh, loc, cf, _) in &recs {
        im.exec(s, &format!("r {fd} {} {} {loc} {cf}", hex(ck), nh.map(|h| h.to_string()).unwrap_or("-".into())));
    }
    im.exec(s, "build");
    im.exec(s, "blocks");
    for (i, (fd, _, nh, loc, cf, _)) in recs.iter().enumerate() {
        if recs.len() > 300 && i % 5 != 0 { continue; }
        im.exec(s, &format!("id {fd} {loc} {cf}"));
        if i % 4 == 0 {
            im.exec(s, &format!("id {} {loc} {cf}", fd + 1_000_000));     // absent id
            im.exec(s, &format!("id {fd} {} {cf}", 0x10000));             // other locale
            im.exec(s, &format!("id {fd} {} 0", 0xFFFF_FFFFu32));          // any locale, no content requirement
        }
        if let Some(h) = nh {
            im.exec(s, &format!("nh {h} {loc} {cf}"));
            if i % 4 == 0 { im.exec(s, &format!("nh {} {loc} {cf}", h.wrapping_add(2))); }
        }
    }
    s.case(Some(&format!("root v{ver} {total} {named} {blocks} {}", recs.first().map(|r| r.0).unwrap_or(0))));
}

/// A root manifest in the shipped layout: one block per (locale, content flags) combination and most
/// files listed by SEVERAL blocks — with the identical content key in all of them (locale-independent
/// file), a different key per block (localised file) or a mix — and every lookup flavour asked with each
/// block's own locale / content flags, with masks matching several blocks, and with masks matching none.
/// `names`: 0 = no block carries name hashes, 1 = numeric name hashes, 2 = paths (resolve_by_path),
/// 3 = named and unnamed blocks mixed. `shape`: 0 = blocks differ in locale only, 1 = in content flags
/// only, 2 = locale x content grid, 3 = overlapping multi-bit locale masks and nested content flags.
fn case_root_multi(im: &mut Impl, s: &mut Session, rng: &mut Rng, ver: u32, names: u8, shape: u8, nfiles: usize) {
    im.exec(s, &format!("begin root {ver}"));
    const NO_NAME: u64 = 0x1000_0000;
    let all_loc = [0x2u32, 0x4, 0x10, 0x20, 0x40, 0x80, 0x100, 0x200, 0x1000, 0x8000_0000];
    let all_cf = [0u64, 0x4, 0x8, 0x10, 0x80, 0x88, 0x800_0000];
    let pick_distinct = |rng: &mut Rng, n: usize, from: usize| -> Vec<usize> {
        let mut idx: Vec<usize> = (0..from).collect();
        for i in (1..idx.len()).rev() { let j = rng.below(i as u64 + 1) as usize; idx.swap(i, j); }
        idx.truncate(n);
        idx
    };
    // (locale, content flags without the NO_NAME_HASH bit) per block, in a random order
    let mut flags: Vec<(u32, u64)> = match shape {
        0 => {
            let cf = *rng.pick(&all_cf);
            let nb = rng.range(2, 5) as usize;
            pick_distinct(rng, nb, all_loc.len()).into_iter().map(|i| (all_loc[i], cf)).collect()
        }
        1 => {
            let loc = if rng.chance(1, 3) { 0x2 | 0x200 } else { *rng.pick(&all_loc) };
            let nb = rng.range(2, 4) as usize;
            pick_distinct(rng, nb, all_cf.len()).into_iter().map(|i| (loc, all_cf[i])).collect()
        }
        2 => {
            let ls = pick_distinct(rng, 2, all_loc.len());
            let cs = pick_distinct(rng, 2, all_cf.len());
            let mut v = vec![];
            for &l in &ls { for &c in &cs { v.push((all_loc[l], all_cf[c])); } }
            if rng.chance(1, 2) { v.remove(rng.below(4) as usize); }
            v
        }
        _ => {
            // a single-locale query matches several blocks; a content query is satisfied by supersets
            let mut v = vec![(0x2 | 0x10, 0x8), (0x10 | 0x20, 0x8 | 0x4), (0x20, 0x8), (0xFFFF_FFFF, 0)];
            if rng.chance(1, 2) { v.push((0x2, 0x8 | 0x80)); }
            if rng.chance(1, 2) { v.remove(rng.below(3) as usize); }
            v
        }
    };
    for i in (1..flags.len()).rev() { let j = rng.below(i as u64 + 1) as usize; flags.swap(i, j); }
    if ver == 4 && rng.chance(1, 2) {
        let k = rng.below(flags.len() as u64) as usize;
        if !flags.iter().any(|f| *f == (flags[k].0, flags[k].1 | 1 << 33)) { flags[k].1 |= 1 << 33; }
    }
    let nb = flags.len();
    // which blocks carry name hashes (V1: all); unnamed V2+ blocks have NO_NAME_HASH in their content flags
    let block_named: Vec<bool> = (0..nb).map(|j| ver == 1 || match names { 0 => false, 3 => j % 2 == 0 || rng.chance(1, 3), _ => true }).collect();
    let blocks: Vec<(u32, u64)> = flags.iter().zip(&block_named).map(|(f, n)| (f.0, if *n { f.1 } else { f.1 | NO_NAME })).collect();
    let use_paths = names == 2 || (names == 3 && rng.chance(1, 2));

    struct F { fd: u32, member: Vec<bool>, cks: Vec<Vec<u8>>, path: Vec<u8>, nh: u64 }
    let mut files: Vec<F> = vec![];
    let mut fd: u32 = rng.below(5000) as u32;
    let (mut total, mut named_total) = (0usize, 0usize);
    let mut tally_modes = [0u64; 3];
    let rver = ver_of(&ver.to_string()).unwrap_or(RootVersion::V1);
    // (a V2 manifest is kept out of the recorded header-ambiguity window 16..99 files / < 10 named)
    while files.len() < nfiles || v2_ambiguous(rver, total, named_total) {
        fd += match rng.below(6) { 0 => 1, 1 => rng.range(1, 100_000) as u32, _ => rng.range(1, 5) as u32 };
        // membership: all blocks / a random subset with at least two (one when there is no choice)
        let mut member: Vec<bool> = (0..nb).map(|_| rng.chance(1, 2)).collect();
        if rng.chance(1, 2) { member = vec![true; nb]; }
        while member.iter().filter(|m| **m).count() < 2.min(nb) { let k = rng.below(nb as u64) as usize; member[k] = true; }
        if rng.chance(1, 10) { member = vec![false; nb]; let k = rng.below(nb as u64) as usize; member[k] = true; }
        // content keys: identical in every listing block / one per block / two groups
        let mode = match rng.below(10) { 0..=3 => 0, 4..=6 => 1, _ => 2 };
        tally_modes[mode] += 1;
        let shared = rng.bytes(16);
        let other = rng.bytes(16);
        let split = rng.below(nb as u64 + 1) as usize;
        let cks: Vec<Vec<u8>> = (0..nb).map(|j| match mode { 0 => shared.clone(), 1 => rng.bytes(16), _ => if j < split { shared.clone() } else { other.clone() } }).collect();
        let path = match files.len() % 3 {
            0 => format!("Interface/Glues/Multi_{fd}_{}.blp", rng.below(1000)),
            1 => format!("WORLD\\MAPS\\M{fd}\\TILE_{}.ADT", rng.below(64)),
            _ => format!("sound/Music\\zone{fd}.mp3"),
        }.into_bytes();
        for j in 0..nb { if member[j] { total += 1; if block_named[j] { named_total += 1; } } }
        files.push(F { fd, member, cks, path, nh: rng.next() | 1 });
    }
    // a name shared by two different FileDataIDs in different blocks (per-locale file ids)
    if files.len() >= 2 && !use_paths && nb >= 2 && rng.chance(1, 2) {
        let (a, b) = (0, files.len() - 1);
        let saved = (files[a].member.clone(), files[b].member.clone(), files[b].nh);
        files[b].nh = files[a].nh;
        files[a].member = vec![false; nb]; files[a].member[0] = true;
        files[b].member = vec![false; nb]; files[b].member[1] = true;
        let count = |named_only: bool| files.iter().map(|f| (0..nb).filter(|j| f.member[*j] && (!named_only || block_named[*j])).count()).sum::<usize>();
        if v2_ambiguous(rver, count(false), count(true)) {
            files[a].member = saved.0; files[b].member = saved.1; files[b].nh = saved.2;
        }
    }
    let mut recs: Vec<(usize, usize)> = vec![];
    for (i, f) in files.iter().enumerate() { for j in 0..nb { if f.member[j] { recs.push((i, j)); } } }
    for i in (1..recs.len()).rev() { let j = rng.below(i as u64 + 1) as usize; recs.swap(i, j); }
    for &(i, j) in &recs {
        let f = &files[i];
        let (loc, cf) = blocks[j];
        if !block_named[j] {
            im.exec(s, &format!("r {} {} - {loc} {cf}", f.fd, hex(&f.cks[j])));
        } else if use_paths {
            im.exec(s, &format!("rp {} {} {} {loc} {cf}", f.fd, hex(&f.cks[j]), hex(&f.path)));
        } else {
            im.exec(s, &format!("r {} {} {} {loc} {cf}", f.fd, hex(&f.cks[j]), f.nh));
        }
    }
    im.exec(s, "build");
    im.exec(s, "blocks");
    im.exec(s, "stats");
    let any_named = block_named.iter().any(|n| *n);
    let stride = (files.len() * nb / 500).max(1);
    let union_loc = blocks.iter().fold(0u32, |a, b| a | b.0);
    let unused_loc = all_loc.iter().copied().find(|l| union_loc & l == 0);
    for (i, f) in files.iter().enumerate() {
        if i % stride != 0 && i + 1 != files.len() { continue; }
        let name_q = |im: &mut Impl, s: &mut Session, loc: u32, cf: u64| {
            if !any_named { return; }
            if use_paths { im.exec(s, &format!("path {} {loc} {cf}", hex(&f.path))); } else { im.exec(s, &format!("nh {} {loc} {cf}", f.nh)); }
        };
        // each block's own (locale, content flags) — listing blocks and the others
        for &(loc, cf) in &blocks {
            im.exec(s, &format!("id {} {loc} {cf}", f.fd));
            name_q(im, s, loc, cf);
        }
        // every table entry of the file
        im.exec(s, &format!("ids {}", f.fd));
        if use_paths && any_named { im.exec(s, &format!("paths {}", hex(&f.path))); }
        // one locale bit at a time with no content requirement; masks matching several blocks; no locale
        for &(loc, _) in &blocks {
            let bit = 1u32 << loc.trailing_zeros();
            im.exec(s, &format!("id {} {bit} 0", f.fd));
            name_q(im, s, bit, 0);
        }
        im.exec(s, &format!("id {} {} 0", f.fd, 0xFFFF_FFFFu32));
        name_q(im, s, 0xFFFF_FFFF, 0);
        if i % 3 == 0 {
            let (a, b) = (blocks[rng.below(nb as u64) as usize], blocks[rng.below(nb as u64) as usize]);
            im.exec(s, &format!("id {} {} {}", f.fd, a.0 | b.0, a.1 & b.1));
            name_q(im, s, a.0 | b.0, a.1 & b.1);
            im.exec(s, &format!("id {} {} {}", f.fd, 0xFFFF_FFFFu32, a.1));
            im.exec(s, &format!("id {} {} {}", f.fd, a.0, a.1 | 0x4000));       // a content bit no block has
            im.exec(s, &format!("id {} 0 {}", f.fd, a.1));                      // empty locale mask
            if let Some(l) = unused_loc { im.exec(s, &format!("id {} {l} 0", f.fd)); name_q(im, s, l, 0); }
            // a FileDataID / name that was never inserted, asked with flags of existing blocks
            im.exec(s, &format!("id {} {} {}", f.fd + 2_000_000, a.0, a.1));
            im.exec(s, &format!("ids {}", f.fd + 2_000_000));
            if any_named {
                if use_paths {
                    // path normalisation: case and separators do not matter; a different name does
                    let alt: Vec<u8> = f.path.iter().map(|c| if *c == b'\\' { b'/' } else if c.is_ascii_lowercase() { c.to_ascii_uppercase() } else { c.to_ascii_lowercase() }).collect();
                    im.exec(s, &format!("path {} {} {}", hex(&alt), a.0, a.1));
                    let mut no = f.path.clone(); no.push(b'x');
                    im.exec(s, &format!("path {} {} {}", hex(&no), a.0, a.1));
                    im.exec(s, &format!("paths {}", hex(&no)));
                } else {
                    im.exec(s, &format!("nh {} {} {}", f.nh.wrapping_add(2), a.0, a.1));
                }
            }
        }
    }
    s.tally_n("root.multi.files.same-ckey-in-all-blocks", tally_modes[0]);
    s.tally_n("root.multi.files.ckey-per-block", tally_modes[1]);
    s.tally_n("root.multi.files.two-ckey-groups", tally_modes[2]);
    s.tally(&format!("root.multi.blocks.{nb}"));
    s.tally(&format!("root.multi.shape.{}", ["locales", "content", "grid", "overlap"][shape as usize % 4]));
    s.case(Some(&format!("rootm v{ver} names{names} shape{shape} {} {nb} {}", files.len(), files.first().map(|f| f.fd).unwrap_or(0))));
}

/// An archive group merged from `k` CDN archive indices. `pattern`: 0 = every key in a random
/// non-empty subset of the archives, 1 = disjoint archives, 2 = all archives identical, 3 / 4 / 5 = one
/// key shared by ALL archives at the start / in the middle / at the end of the key range with further
/// private entries around it, 6 = archives 1.. are subsets of archive 0, 7 = each key shared by two
/// neighbouring archives (a chain), 8 = random subsets plus an empty archive.
fn case_grpm(im: &mut Impl, s: &mut Session, rng: &mut Rng, k: usize, total: usize, pattern: u8) {
    im.exec(s, "begin grpm 157 170");
    let style = rng.below(3);
    let ext = rng.chance(1, 3);
    let mut pool = key_set(rng, 16, total, style, ext);
    pool.sort();
    let n = pool.len();
    // membership[i] = archives (by merge position) listing pool[i]
    let mut member: Vec<Vec<usize>> = vec![vec![]; n];
    let shared_at = match pattern { 3 => Some(0), 4 => Some(n / 2), 5 => Some(n.saturating_sub(1)), _ => None };
    for i in 0..n {
        member[i] = match pattern {
            0 | 8 => { let mut m: Vec<usize> = (0..k).filter(|_| rng.chance(1, 2)).collect(); if m.is_empty() { m.push(rng.below(k as u64) as usize); } m }
            1 | 3 | 4 | 5 => if Some(i) == shared_at { (0..k).collect() } else { vec![rng.below(k as u64) as usize] },
            2 => (0..k).collect(),
            6 => { let mut m = vec![0]; m.extend((1..k).filter(|_| rng.chance(1, 3))); m }
            _ => { let a = rng.below(k as u64) as usize; if k > 1 { vec![a, (a + 1) % k] } else { vec![a] } }
        };
    }
    let empty_pos = if pattern == 8 { Some(rng.below(k as u64 + 1) as usize) } else { None };
    // archive numbers: distinct, in no particular order (merge priority is the POSITION, not the number)
    let mut nums: BTreeSet<u16> = BTreeSet::new();
    while nums.len() < k + 1 { nums.insert(match rng.below(4) { 0 => rng.below(4) as u16, 1 => 0xFFFF - rng.below(4) as u16, _ => rng.below(65536) as u16 }); }
    let mut nums: Vec<u16> = nums.into_iter().collect();
    for i in (1..nums.len()).rev() { let j = rng.below(i as u64 + 1) as usize; nums.swap(i, j); }
    let mut shared = 0u64;
    for a in 0..k {
        if empty_pos == Some(a) { im.exec(s, &format!("a {}", nums[k])); }
        im.exec(s, &format!("a {}", nums[a]));
        let mut mine: Vec<usize> = (0..n).filter(|i| member[*i].contains(&a)).collect();
        // insertion order is shuffled: the index builder sorts
        for i in (1..mine.len()).rev() { let j = rng.below(i as u64 + 1) as usize; mine.swap(i, j); }
        for i in mine {
            if member[i].len() > 1 && member[i][0] == a { shared += 1; }
            // every listing gets its own (size, offset): the merged value must be the FIRST archive's
            im.exec(s, &format!("e {} {} {}", hex(&pool[i]), rng.range(1, 0xFFFF_FFFF), match rng.below(6) { 0 => 0, 1 => 0xFFFF_FFFF, _ => rng.range(0, 0xFFFF_FFFF) }));
        }
    }
    if empty_pos == Some(k) { im.exec(s, &format!("a {}", nums[k])); }
    let r = im.exec(s, "build");
    for q in probes(rng, &pool, 16, n <= 500) {
        im.exec(s, &format!("f {}", hex(&q)));
    }
    s.tally(&format!("grpm.archives.{k}"));
    s.tally(&format!("grpm.pattern.{}", ["random-subsets", "disjoint", "identical", "shared-first-key", "shared-middle-key", "shared-last-key", "subsets-of-first", "chain", "with-empty-archive"][pattern as usize % 9]));
    s.tally_n("grpm.keys-listed-by-several-archives", shared);
    if r.starts_with("ok") {
        s.case(Some(&format!("grpm {k} {n} {pattern} {style} {}", pool.first().map(|x| hex(x)).unwrap_or_default())));
    } else {
        s.case(None);
    }
}

/// The root name-hash matrix: version × which records have a name (`naming`: 0 all, 1 none, 2 mixed)
/// × which blocks carry NO_NAME_HASH (`flagmode`: 0 none, 1 all, 2 mixed) × 1..4 blocks — also the
/// combinations in which records and block format disagree (the writer stores name hash 0 for an
/// unnamed record of a named block and drops the name of a record in a NO_NAME_HASH block). Every
/// record is looked up under its own block's flags, so a block lost by the parser shows at once.
fn case_root_matrix(im: &mut Impl, s: &mut Session, rng: &mut Rng, ver: u32, naming: u8, flagmode: u8, nblocks: usize, per_block: usize) {
    im.exec(s, &format!("begin root {ver}"));
    const NO_NAME: u64 = 0x1000_0000;
    let all_loc = [0x2u32, 0x4, 0x10, 0x20, 0x40, 0x80, 0x100, 0x200];
    let all_cf = [0u64, 0x4, 0x8, 0x80, 0x800_0000];
    let mut blocks: Vec<(u32, u64)> = vec![];
    while blocks.len() < nblocks {
        let j = blocks.len();
        let mut cf = *rng.pick(&all_cf);
        let flagged = match flagmode { 0 => false, 1 => true, _ => if nblocks == 1 { rng.chance(1, 2) } else { j % 2 == 1 } };
        if flagged { cf |= NO_NAME; }
        if ver == 4 && rng.chance(1, 3) { cf |= 1 << 34; }
        let b = (*rng.pick(&all_loc), cf);
        if !blocks.contains(&b) { blocks.push(b); }
    }
    let rver = ver_of(&ver.to_string()).unwrap_or(RootVersion::V1);
    // (a V2 manifest is kept out of the recorded header-ambiguity window: 16..99 files with < 10 named)
    let mut per_block = per_block;
    if rver == RootVersion::V2 && (16..100).contains(&(per_block * nblocks)) { per_block = 100usize.div_ceil(nblocks); }
    let mut fd: u32 = rng.below(3000) as u32;
    // (fdid, ckey, name hash, block)
    let mut recs: Vec<(u32, Vec<u8>, Option<u64>, usize)> = vec![];
    for j in 0..nblocks {
        for i in 0..per_block {
            // most files are private to a block; every fourth is listed by the next block too
            fd += match rng.below(5) { 0 => 1, 1 => rng.range(1, 70_000) as u32, _ => rng.range(1, 4) as u32 };
            let named = match naming { 0 => true, 1 => false, _ => rng.chance(1, 2) };
            let nh = if named { Some(rng.next() | 1) } else { None };
            recs.push((fd, rng.bytes(16), nh, j));
            if i % 4 == 3 && nblocks > 1 { recs.push((fd, rng.bytes(16), nh, (j + 1) % nblocks)); }
        }
    }
    if naming == 2 && recs.len() >= 2 {
        // mixed: at least one record of each kind
        recs[0].2 = Some(rng.next() | 1);
        recs[1].2 = None;
    }
    if rver == RootVersion::V2 && (16..100).contains(&recs.len()) && recs.iter().filter(|r| r.2.is_some()).count() < 10 {
        // fill up to leave the window
        while recs.len() < 100 { fd += 1; let named = naming != 1; recs.push((fd, rng.bytes(16), if named { Some(rng.next() | 1) } else { None }, rng.below(nblocks as u64) as usize)); }
    }
    let mut order: Vec<usize> = (0..recs.len()).collect();
    for i in (1..order.len()).rev() { let j = rng.below(i as u64 + 1) as usize; order.swap(i, j); }
    for &i in &order {
        let (fd, ck, nh, j) = &recs[i];
        let (loc, cf) = blocks[*j];
        im.exec(s, &format!("r {fd} {} {} {loc} {cf}", hex(ck), nh.map(|h| h.to_string()).unwrap_or("-".into())));
    }
    let r = im.exec(s, "build");
    im.exec(s, "blocks");
    im.exec(s, "stats");
    let stride = (recs.len() / 60).max(1);
    for (i, (fd, _, nh, j)) in recs.iter().enumerate() {
        if i % stride != 0 && i + 2 < recs.len() { continue; }
        let (loc, cf) = blocks[*j];
        im.exec(s, &format!("id {fd} {loc} {cf}"));
        if let Some(h) = nh { im.exec(s, &format!("nh {h} {loc} {cf}")); }
        if i % 3 == 0 {
            im.exec(s, &format!("ids {fd}"));
            im.exec(s, &format!("id {fd} {} 0", 0xFFFF_FFFFu32));
            im.exec(s, &format!("id {} {loc} {cf}", fd + 3_000_000));
            // the other blocks' flags: a hit only where the file is listed
            for &(l2, c2) in &blocks { if (l2, c2) != (loc, cf) { im.exec(s, &format!("id {fd} {l2} {c2}")); } }
            if let Some(h) = nh { im.exec(s, &format!("nh {} {loc} {cf}", h.wrapping_add(2))); }
            im.exec(s, &format!("nh 0 {loc} {cf}"));
        }
    }
    s.tally(&format!("root.matrix.v{ver}.{}.{}", ["all-named", "none-named", "mixed-names"][naming as usize % 3], ["no-block-flagged", "all-blocks-NO_NAME_HASH", "mixed-block-flags"][flagmode as usize % 3]));
    s.tally(&format!("root.matrix.blocks.{nblocks}"));
    if r.starts_with("ok") {
        s.case(Some(&format!("rootx v{ver} n{naming} f{flagmode} b{nblocks} {} {}", recs.len(), recs.first().map(|r| r.0).unwrap_or(0))));
    } else {
        s.case(None);
    }
}

fn name(rng: &mut Rng, len: usize) -> Vec<u8> {
    let alpha = b"abcdefghijklmnopqrstuvwxyzABCDEF0123456789_.- ";
    let mut v: Vec<u8> = (0..len).map(|_| *rng.pick(alpha)).collect();
    if len >= 4 && rng.chance(1, 6) {
        // a multi-byte UTF-8 character inside the name
        let e = "é".as_bytes();
        v[1] = e[0];
        v[2] = e[1];
    }
    v
}

/// `flags`: TvfsBuilder flag combination (INCLUDE_CKEY 1 | ENCODING_SPEC 2 | PATCH_SUPPORT 4);
/// `est`: 0 = no spec strings, 1 = a short EST (< 256 bytes), 2 = an EST of 256..~600 bytes (2-byte EST
/// offsets), 3 = an EST just below / at / above the 255-byte width boundary; `flat`: all files in one
/// directory with short names (cheap for the 64 KiB container-table boundary).
fn case_tvfs(im: &mut Impl, s: &mut Session, rng: &mut Rng, flags: u32, est: u8, nfiles: usize, long: Option<usize>, flat: bool) {
    im.exec(s, &format!("begin tvfs {flags}"));
    // encoding-spec strings (the builder ignores them without ENCODING_SPEC — also exercised)
    let spec_pool = ["z", "n", "b:{*=z}", "b:{256K*=z}", "b:{16K*=z,4M=n}", "e:{237DA26C65073F42,6FA0420E,z}"];
    let mut specs: Vec<String> = vec![];
    match est {
        0 => {}
        1 => { for _ in 0..rng.range(1, 6) { specs.push(rng.pick(&spec_pool).to_string()); } }
        2 => { let mut len = 0; let target = rng.range(256, 600) as usize; while len < target { let sp = format!("b:{{{}K*=z}}", rng.range(1, 4096)); len += sp.len() + 1; specs.push(sp); } }
        _ => {
            // total EST size (strings + NULs) exactly 254 / 255 / 256 / 257 bytes
            let target = 254 + rng.below(4) as usize;
            let mut len = 0;
            while target - len > 40 { let sp = format!("b:{{{}K*=z}}", rng.range(100, 999)); len += sp.len() + 1; specs.push(sp); }
            specs.push("z".repeat(target - len - 1));
        }
    }
    for sp in &specs {
        im.exec(s, &format!("s {}", hex(sp.as_bytes())));
    }
    // random directory tree: prefix-free set of paths (a file is never also a directory)
    let mut dirs: Vec<Vec<u8>> = vec![vec![]];
    let mut paths: BTreeSet<Vec<u8>> = BTreeSet::new();
    let mut used_dir_names: BTreeSet<Vec<u8>> = BTreeSet::new();
    let mut guard = 0;
    if flat {
        let d = name(rng, 3);
        while paths.len() < nfiles {
            let mut p = d.clone();
            p.push(b'/');
            p.extend(format!("f{:05}", paths.len()).bytes());
            paths.insert(p);
        }
    }
    while paths.len() < nfiles && guard < nfiles * 20 + 50 {
        guard += 1;
        let d = dirs[rng.below(dirs.len() as u64) as usize].clone();
        let len = match rng.below(10) { 0 => 1, 1 => 254, 2 => rng.range(200, 254) as usize, _ => rng.range(1, 12) as usize };
        let mut p = d.clone();
        if !p.is_empty() { p.push(b'/'); }
        p.extend(name(rng, len));
        if rng.chance(1, 4) && dirs.len() < 40 && d.iter().filter(|b| **b == b'/').count() < 12 {
            if !paths.contains(&p) { used_dir_names.insert(p.clone()); dirs.push(p); }
        } else if !used_dir_names.contains(&p) && !paths.contains(&p) {
            paths.insert(p);
        }
    }
    if let Some(l) = long {
        let mut p = dirs[rng.below(dirs.len() as u64) as usize].clone();
        if !p.is_empty() { p.push(b'/'); }
        p.extend(std::iter::repeat_n(b'L', l));
        paths.insert(p);
    }
    let mut list: Vec<Vec<u8>> = paths.into_iter().collect();
    for i in (1..list.len()).rev() { let j = rng.below(i as u64 + 1) as usize; list.swap(i, j); }
    for p in &list {
        let ck = if rng.chance(1, 8) { "-".to_string() } else { hex(&rng.bytes(16)) };
        let head = format!("{} {} {} {} {ck}", hex(p), hex(&rng.bytes(9)), rng.range(1, 0xFFFF_FFFF), rng.range(0, 0xFFFF_FFFF));
        // with spec strings most files carry an EST index (valid: below the number of strings)
        if !specs.is_empty() && rng.chance(3, 4) {
            im.exec(s, &format!("te {head} {}", rng.below(specs.len() as u64)));
        } else {
            im.exec(s, &format!("t {head}"));
        }
    }
    let r = im.exec(s, "build");
    im.exec(s, "specs");
    let stride = if list.len() > 1500 { 9 } else if list.len() > 400 { 6 } else { 1 };
    for (i, p) in list.iter().enumerate() {
        // (the last files in path order sit at the largest table offsets: always probed)
        if i % stride != 0 && i + 8 < list.len() { continue; }
        im.exec(s, &format!("p {}", hex(p)));
        if i % 3 == 0 {
            let mut q = p.clone(); q.push(b'x');
            im.exec(s, &format!("p {}", hex(&q)));
            if let Some(pos) = p.iter().rposition(|b| *b == b'/') { im.exec(s, &format!("p {}", hex(&p[..pos]))); }
            if p.len() > 1 { im.exec(s, &format!("p {}", hex(&p[..p.len() - 1]))); }
        }
    }
    if stride > 1 {
        // the files that sort last occupy the highest VFS/CFT offsets
        let mut sorted = list.clone();
        sorted.sort();
        for p in sorted.iter().rev().take(24) { im.exec(s, &format!("p {}", hex(p))); }
    }
    s.tally(&format!("tvfs.flags.{flags}"));
    s.tally(&format!("tvfs.est.{}", ["none", "short", "two-byte-offsets", "at-255-boundary"][est as usize % 4]));
    if r.starts_with("ok") {
        s.case(Some(&format!("tvfs {flags} {est} {} {:?} {}", list.len(), long, list.first().map(|p| hex(p)).unwrap_or_default())));
    } else {
        s.case(None);
    }
}

fn case_res(im: &mut Impl, s: &mut Session, rng: &mut Rng, ver: u32, total: usize, multi: bool) {
    im.exec(s, &format!("begin res {ver}"));
    let mut fd = rng.below(500) as u32;
    let cstyle = rng.below(3);
    let mut cks = key_set(rng, 16, total + 6, cstyle, false);
    let alt = cks.split_off(total + 3);
    let mut paths = vec![];
    for i in 0..total {
        fd += rng.range(1, 9) as u32;
        let p: Vec<u8> = match i % 3 {
            0 => format!("Interface/Icons/File_{i}_{}.blp", rng.below(1000)).into_bytes(),
            1 => format!("WORLD\\MAPS\\AZEROTH\\TILE_{i}.ADT").into_bytes(),
            _ => format!("sound\\music/Track{i}.mp3").into_bytes(),
        };
        // one block (enUS), or the file listed by two or three (locale, content) blocks — with the same
        // content key (the resolver's maps ignore locale/content) or, every fifth file, one key per block
        let listing: &[(u32, u64)] = match if multi { rng.below(4) } else { 0 } { 0 => &[(2, 0)], 1 => &[(0x10, 0), (2, 0)], 2 => &[(0x20, 8), (0x10, 0)], _ => &[(2, 0), (0x20, 8), (0x10, 0)] };
        for (j, (loc, cf)) in listing.iter().enumerate() {
            let ck = if multi && i % 5 == 4 && j > 0 { &alt[(i + j) % alt.len()] } else { &cks[i] };
            im.exec(s, &format!("rp {fd} {} {} {loc} {cf}", hex(ck), hex(&p)));
        }
        paths.push((fd, p));
    }
    // encoding table: every content key of the root except the last two, plus one unrelated
    for (i, ck) in cks.iter().chain(alt.iter().take(2)).enumerate() {
        if i + 2 >= total && i < total { continue; }
        let ek1 = rng.bytes(16);
        let ek2 = rng.bytes(16);
        im.exec(s, &format!("ck {} {} {},{}", hex(ck), rng.below(1 << 30), hex(&ek1), hex(&ek2)));
        im.exec(s, &format!("ek {} z {}", hex(&ek1), rng.below(1 << 30)));
    }
    im.exec(s, "build");
    for (fd, p) in &paths {
        im.exec(s, &format!("rf {fd}"));
        im.exec(s, &format!("rq {}", hex(p)));
    }
    im.exec(s, &format!("rf {}", fd + 7));
    im.exec(s, &format!("rq {}", hex(b"no/such/file")));
    s.case(Some(&format!("res v{ver} {total} {fd} {multi}")));
}

fn main() {
    let args = Args::parse();
    quiet_panics();
    let mut s = Session::new(&args.out);
    s.rule = "seeded cases per area: encoding tables (CKey/EKey page sizes 1-4 KiB, entry counts at every page-capacity multiple ±1 up to 3 (thorough 6) pages, 1..n EKeys per CKey incl. a page-filling entry; keys random / sharing all but the last 1-2 bytes / dense ±1 counters / all-00 and all-FF), CDN archive indices for every key size 1..16 × offset width 4/5/6 (entry counts at block-capacity multiples ±1), archive groups (157/158, 314/315/316 … entries), archive groups MERGED from 1–5 archive indices (build_merged k-way heap merge and ArchiveGroupBuilder::add_archive on the same parsed indices, compared byte for byte) × 9 sharing patterns (random subsets, disjoint, identical archives, one key shared by all archives at the start / middle / end of the key range with private entries after it, subsets of the first archive, neighbour chains, an empty archive) × 2–13 keys and key counts around the 157-record block capacity, archive numbers in no order, a different (size, offset) per listing, root manifests V1–V4 × named/unnamed × file counts {1,2,15,16,17,20,50,99,100,101,…} × 1–4 blocks, the name-hash matrix V1–V4 × {every / no / some records named} × {no / every / some blocks with NO_NAME_HASH} × 1–4 blocks (records whose name presence disagrees with the block format included: the reference follows the writer's rule — hash 0 stored for an unnamed record of a named block, a name given into a NO_NAME_HASH block not stored) with every record looked up under its own block's flags, multi-block root manifests V1–V4 × {no name hashes, numeric hashes, paths, named+unnamed blocks mixed} × {blocks differing in locale only / content flags only / locale×content grid / overlapping multi-bit locale masks with nested content flags} with 1..150 (thorough 400) files each listed by several of the 2–5 blocks with the identical content key, one key per block or two key groups (also one name hash under two FileDataIDs), looked up by id / name hash / path under EVERY block's own (locale, content flags), single locale bits, unions, all-locales, stricter content, empty and unused locale masks, plus the lookup tables' entry lists (get_entries_by_id / get_entries_by_path) and lookup_stats, TVFS path trees (names 1..254 bytes, depth ≤ 12, 255/256/300-byte names as the recorded finding), TVFS builder configurations: all 8 flag combinations INCLUDE_CKEY|ENCODING_SPEC|PATCH_SUPPORT × EST {none, short, 2-byte-offset size, 254..257 bytes} × 9..21 files (the 255-byte container-table boundary of every entry size 13..26) + one 22..120-file tree each, files added with and without an EST index, and the 64 KiB container-table crossing (file counts where n·entry_size passes 65535 for the entry with 1-, 2- and 3-byte patch offsets ±1: INCLUDE_CKEY|PATCH_SUPPORT at 2731 files always, two more configurations per seed, all in the thorough tier), resolver chain (files in one block and files listed by 2–3 locale/content blocks with shared or per-block content keys); probes = every inserted key, key±1, extremes, random, truncated/over-long keys, shuffled batches with repeats. non-trivial = case built and parsed and reached the lookups; distinct = canonical case parameters + first key".into();
    let mut rng = Rng::new(args.seed);
    let mut im = Impl::new();

    if let Some(p) = &args.replay {
        for l in read_case(p) {
            let r = im.exec(&mut s, &l);
            println!("impl  {l} -> {r}");
        }
        s.case(Some("replay"));
        s.finish();
        return;
    }
    let th = args.thorough();

    // --- root headers: both layouts, both endiannesses, the whole ambiguous window
    let totals: Vec<u32> = vec![0, 1, 9, 10, 15, 16, 17, 20, 50, 99, 100, 101, 1000, 65536, 0xFFFF_FFFF];
    for little in ["l", "b"] {
        for &t in &totals {
            for n in [0u32, 1, 2, 3, 4, 5, 9, 10, 11, 15, 16] {
                if n > t { continue; }
                im.exec(&mut s, &format!("hdr c {little} {t} {n} 0 0 0"));
                s.case(Some(&format!("hdr c {little} {t} {n}")));
            }
            im.exec(&mut s, &format!("hdr c {little} {t} {t} 0 0 0"));
        }
        for hs in [20u32, 24, 16, 28, 99, 100] {
            for v in [1u32, 2, 3, 4, 0, 5, 9, 10] {
                for (t, n) in [(0u32, 0u32), (20, 3), (1000, 10), (123456, 123456)] {
                    im.exec(&mut s, &format!("hdr x {little} {hs} {v} {t} {n} {}", if hs > 20 { 7 } else { 0 }));
                    s.case(Some(&format!("hdr x {little} {hs} {v} {t} {n}")));
                }
            }
        }
    }
    // --- FDID delta coding
    for _ in 0..(if th { 200 } else { 40 }) {
        let n = rng.range(1, 30) as usize;
        let mut ids = BTreeSet::new();
        while ids.len() < n {
            ids.insert(match rng.below(5) { 0 => rng.below(10), 1 => 0xFFFF_FFFF - rng.below(10), _ => rng.below(1 << 32) });
        }
        let l = format!("deltas {}", ids.iter().map(|x| x.to_string()).collect::<Vec<_>>().join(","));
        im.exec(&mut s, &l);
        s.case(Some(&l));
    }
    // --- encoding
    for i in 0..(if th { 60 } else { 14 }) {
        case_enc(&mut im, &mut s, &mut rng, th, i == 3);
    }
    // --- archive index: every key size × offset width
    for ks in 1..=16usize {
        for ob in [4u8, 5, 6] {
            let reps = if th { 3 } else { 1 };
            for _ in 0..reps {
                case_idx(&mut im, &mut s, &mut rng, th, ks, ob, false);
            }
        }
    }
    case_idx(&mut im, &mut s, &mut rng, th, 16, 4, true);
    for _ in 0..(if th { 12 } else { 4 }) {
        case_grp(&mut im, &mut s, &mut rng, th);
    }
    // --- archive groups merged from 1..5 archive indices (k-way heap merge) vs ArchiveGroupBuilder:
    //     every sharing pattern for every k, small and around the 157-record block capacity
    for k in 1..=5usize {
        for pattern in 0..9u8 {
            if k == 1 && !matches!(pattern, 0 | 8) { continue; }
            let small = rng.range(2, 14) as usize;
            case_grpm(&mut im, &mut s, &mut rng, k, small, pattern);
            if th || (k as u8 + pattern) % 3 == (args.seed % 3) as u8 {
                let big = sizes_around(&mut rng, 157, if th { 4 } else { 2 }).max(3);
                case_grpm(&mut im, &mut s, &mut rng, k, big, pattern);
            }
        }
    }
    // --- roots
    let counts: Vec<usize> = if th { vec![1, 2, 9, 10, 15, 16, 17, 20, 50, 98, 99, 100, 101, 257, 1500] } else { vec![1, 15, 16, 17, 50, 99, 100, 101, 300] };
    for ver in 1..=4u32 {
        for &c in &counts {
            for named in [true, false] {
                let blocks = if c >= 4 && rng.chance(1, 2) { rng.range(2, 4) as usize } else { 1 };
                case_root(&mut im, &mut s, &mut rng, ver, c, named, blocks);
            }
        }
    }
    // --- roots whose files are listed by several blocks (shared / per-block content keys), lookups
    //     qualified by every block's locale and content flags
    let multi_counts: Vec<usize> = if th { vec![1, 2, 3, 7, 16, 33, 50, 100, 150, 400] } else { vec![1, 2, 5, 12, 40, 150] };
    for ver in 1..=4u32 {
        for names in 0..4u8 {
            if ver == 1 && (names == 0 || names == 3) { continue; }   // V1 blocks always carry name hashes
            for shape in 0..4u8 {
                let n = multi_counts[((ver as usize) + (names as usize) * 3 + (shape as usize) * 5 + rng.below(2) as usize) % multi_counts.len()];
                case_root_multi(&mut im, &mut s, &mut rng, ver, names, shape, n);
                if th { let n2 = *rng.pick(&multi_counts); case_root_multi(&mut im, &mut s, &mut rng, ver, names, shape, n2); }
            }
        }
    }
    // --- the name-hash matrix: version × {all / no / some records named} × {no / all / some blocks with
    //     NO_NAME_HASH} × 1..4 blocks, per-block lookups
    for ver in 1..=4u32 {
        for naming in 0..3u8 {
            for flagmode in 0..3u8 {
                for nblocks in 1..=4usize {
                    let per_block = if (ver as usize + naming as usize + flagmode as usize + nblocks + args.seed as usize) % 7 == 0 { rng.range(26, 40) as usize } else { rng.range(1, 3) as usize };
                    case_root_matrix(&mut im, &mut s, &mut rng, ver, naming, flagmode, nblocks, per_block);
                    if th { let pb = rng.range(1, 60) as usize; case_root_matrix(&mut im, &mut s, &mut rng, ver, naming, flagmode, nblocks, pb); }
                }
            }
        }
    }
    // the shipped shape: 150 files in three locale blocks, every third file locale-independent
    for ver in 1..=4u32 {
        case_root_multi(&mut im, &mut s, &mut rng, ver, if ver % 2 == 0 { 2 } else { 1 }, 0, 150);
    }
    // --- tvfs
    for n in if th { vec![0usize, 1, 2, 11, 12, 13, 40, 200, 2978, 2979, 2980] } else { vec![0usize, 1, 2, 11, 12, 13, 60, 300] } {
        let flags = if rng.chance(1, 4) { 0 } else { 1 };
        case_tvfs(&mut im, &mut s, &mut rng, flags, 0, n, None, false);
    }
    for l in [255usize, 256, 300, 510] {
        case_tvfs(&mut im, &mut s, &mut rng, 1, 0, 3, Some(l), false);
    }
    // --- tvfs builder configurations: every flag combination (INCLUDE_CKEY | ENCODING_SPEC |
    //     PATCH_SUPPORT) × EST size classes × file counts around the 255-byte container-table boundary
    //     of that configuration (entry sizes 13..26 bytes: 9..21 files cover n*size = 255 for all)
    for flags in 0..8u32 {
        let est_kinds: &[u8] = if flags & 2 != 0 { &[0, 1, 2, 3] } else { &[0, 1] };
        for &est in est_kinds {
            for n in 9..=21usize {
                if !th && est == 1 && flags & 2 == 0 && n % 3 != 0 { continue; }   // specs without ENCODING_SPEC are ignored
                case_tvfs(&mut im, &mut s, &mut rng, flags, est, n, None, n % 2 == 0);
            }
            let n = rng.range(22, 120) as usize;
            case_tvfs(&mut im, &mut s, &mut rng, flags, est, n, None, false);
        }
    }
    // the 64 KiB container-table boundary (3-byte offsets): n*size crosses 65535. With PATCH_SUPPORT the
    // entry itself grows with the offset width: the crossing is where the entry with the 2-byte patch
    // offset no longer fits; the counts where the 1-byte and 3-byte entry sizes would cross are swept too.
    let entry = |flags: u32, est_w: usize, patch_w: usize| 13 + if flags & 1 != 0 { 9 } else { 0 } + if flags & 2 != 0 { est_w } else { 0 } + if flags & 4 != 0 { patch_w } else { 0 };
    let mut big: Vec<(u32, u8, usize)> = vec![];
    for flags in 0..8u32 {
        for est in [1u8, 2] {
            if flags & 2 == 0 && est == 2 { continue; }
            let est_w = if flags & 2 != 0 && est == 2 { 2 } else { 1 };
            // first file count whose table no longer fits 2-byte offsets, computed with 1-, 2- and
            // 3-byte patch offsets (all equal without PATCH_SUPPORT)
            let n1 = 65536usize.div_ceil(entry(flags, est_w, 1));
            let n2 = 65536usize.div_ceil(entry(flags, est_w, 2));
            let n3 = 65536usize.div_ceil(entry(flags, est_w, 3));
            for n in [n2 - 1, n2, n3 - 1, n3, n1 - 1, n1] { if !big.contains(&(flags, est, n)) { big.push((flags, est, n)); } }
        }
    }
    for (i, &(flags, est, n)) in big.iter().enumerate() {
        // quick: PATCH_SUPPORT | INCLUDE_CKEY at its crossing always, the others rotate with the seed
        let always = flags == 5 && est == 1 && n == 65536usize.div_ceil(24);
        if th || always || i as u64 % 24 == args.seed % 24 {
            case_tvfs(&mut im, &mut s, &mut rng, flags, est, n, None, true);
        }
    }
    // --- resolver chain
    for ver in 1..=4u32 {
        for n in [3usize, 12, 40, 120] {
            case_res(&mut im, &mut s, &mut rng, ver, n, false);
            case_res(&mut im, &mut s, &mut rng, ver, n, true);
        }
    }
    s.finish();
}
