//! C17 — LRU tracker: real `LruManager` vs the Lean pointer-layer model (K) and a textbook LRU
//! of the same capacity kept inside this file (O).
//!
//! Protocol (one response line per request line):
//!   begin cap=<n> keys=<hex9>,<hex9>,…      -> ok            keys = probe universe, referenced by index
//!   touch <i> | remove <i>                   -> true|false
//!   evict_tail                               -> some|none      (slot number is never printed)
//!   evict_to <target> <avg>                  -> <evicted> <freed>
//!   bump | reset | reopen                    -> ok             reopen = drop, LruManager::new(cap, same dir)
//!   checkpoint | load <gen> | shutdown       -> ok|err         shutdown = bump + checkpoint + scan_directory
//!   latest                                   -> none | gen=<g>  (no state change: `LruManager::find_latest_lru_file(dir)`)
//!   run_cycle <limit> <avg>                  -> ok loaded=<n> evicted=<n> freed=<n> active=<n> | err
//!   filecheck                                -> nofile | file walk=bad |
//!                                               file n=<entries> linked=<i,i,…|-> free=<n> stale=<n> prev=<ok|bad> head=<ok|bad>
//!     (no state change: the `.lru` file of the current generation, parsed by this file's own
//!      reader, walked as a doubly linked list from lru_tail via `next`; `linked` = keys met, as
//!      universe indices; free/stale = unlinked slots that are / are not LruFileEntry::empty();
//!      prev/head = every `prev` field and mru_head mirror the walk)
//! every response except `begin`'s is followed by the observable state
//!   ` | len=<n> order=<i,i,…|-> has=<0/1 per universe key> gen=<g> prev=<p>`
//! `order` is `for_each_entry` (LRU tail -> MRU head) as universe indices.
use cascette_client_storage::lru::LruManager;
use std::collections::HashMap;
use std::panic::AssertUnwindSafe;
use std::path::{Path, PathBuf};
use std::sync::{Arc, Mutex};
use std::sync::atomic::{AtomicU64, Ordering};
use verif_harness::*;

type Key = [u8; 9];
const ZERO: Key = [0u8; 9];

#[derive(Clone, Debug, PartialEq)]
enum Op {
    Touch(usize),
    Remove(usize),
    EvictTail,
    EvictTo(u64, u64),
    Bump,
    Checkpoint,
    Load(u64),
    RunCycle(u64, u64),
    Reset,
    Reopen,
    FileCheck,
    Shutdown,
    Latest,
}

/// `Op::Load(LAST)` in a generated script = load the file the last checkpoint was written to
/// (resolved against the harness's own record when the script runs).
const LAST: u64 = u64::MAX;

impl Op {
    fn text(&self) -> String {
        match self {
            Op::Touch(i) => format!("touch {i}"),
            Op::Remove(i) => format!("remove {i}"),
            Op::EvictTail => "evict_tail".into(),
            Op::EvictTo(t, a) => format!("evict_to {t} {a}"),
            Op::Bump => "bump".into(),
            Op::Checkpoint => "checkpoint".into(),
            Op::Load(g) => format!("load {g}"),
            Op::RunCycle(l, a) => format!("run_cycle {l} {a}"),
            Op::Reset => "reset".into(),
            Op::Reopen => "reopen".into(),
            Op::FileCheck => "filecheck".into(),
            Op::Shutdown => "shutdown".into(),
            Op::Latest => "latest".into(),
        }
    }
    fn parse(t: &[&str], nkeys: usize) -> Option<Op> {
        let key = |s: &str| s.parse::<usize>().ok().filter(|i| *i < nkeys);
        Some(match t {
            ["touch", i] => Op::Touch(key(i)?),
            ["remove", i] => Op::Remove(key(i)?),
            ["evict_tail"] => Op::EvictTail,
            ["evict_to", a, b] => Op::EvictTo(a.parse().ok()?, b.parse().ok()?),
            ["bump"] => Op::Bump,
            ["checkpoint"] => Op::Checkpoint,
            ["load", g] => Op::Load(g.parse().ok()?),
            ["run_cycle", a, b] => Op::RunCycle(a.parse().ok()?, b.parse().ok()?),
            ["reset"] => Op::Reset,
            ["reopen"] => Op::Reopen,
            ["filecheck"] => Op::FileCheck,
            ["shutdown"] => Op::Shutdown,
            ["latest"] => Op::Latest,
            _ => return None,
        })
    }
}

/// The reference: a textbook LRU of the same capacity (order: least recent first), plus the
/// snapshots taken at checkpoints (keyed by the generation the implementation reported).
struct Reference {
    cap: usize,
    order: Vec<usize>,
    snaps: HashMap<u64, Vec<usize>>,
}

impl Reference {
    fn touch(&mut self, k: usize) -> bool {
        if self.cap == 0 {
            return false;
        }
        if let Some(p) = self.order.iter().position(|x| *x == k) {
            self.order.remove(p);
        } else if self.order.len() >= self.cap {
            self.order.remove(0);
        }
        self.order.push(k);
        true
    }
    fn remove(&mut self, k: usize) -> bool {
        if let Some(p) = self.order.iter().position(|x| *x == k) {
            self.order.remove(p);
            true
        } else {
            false
        }
    }
    fn evict_tail(&mut self) -> bool {
        if self.order.is_empty() {
            false
        } else {
            self.order.remove(0);
            true
        }
    }
    fn evict_to(&mut self, target: u64, avg: u64) -> (usize, u64) {
        let (mut n, mut freed) = (0usize, 0u64);
        while freed < target && self.evict_tail() {
            n += 1;
            freed += avg;
        }
        (n, freed)
    }
}

/// What `run_cycle(limit, avg)` must answer and leave behind when it restores `snap` (None = there
/// is nothing to restore: the table stays as it is): (stats line, order afterwards, evicted).
fn cycle_expect(cap: usize, before: &[usize], snap: Option<&Vec<usize>>, limit: u64, avg: u64) -> (String, Vec<usize>, usize) {
    let mut r = Reference { cap, order: snap.cloned().unwrap_or_else(|| before.to_vec()), snaps: HashMap::new() };
    let loaded = snap.map_or(0, |s| s.len());
    let (mut n, mut f) = (0usize, 0u64);
    if limit > 0 && avg > 0 {
        let cur = r.order.len() as u64 * avg;
        if cur > limit {
            (n, f) = r.evict_to(cur - limit, avg);
        }
    }
    (cycle_line(loaded, n, f, r.order.len()), r.order, n)
}

fn cycle_line(loaded: usize, evicted: usize, freed: u64, active: usize) -> String {
    format!("ok loaded={loaded} evicted={evicted} freed={freed} active={active}")
}

/// The persistence clause of C17 in HISTORY order (Lean: Spec/LruPersist `Track`, theorem
/// `reload_sees_last_checkpoint`): a reload through "the newest checkpoint" (`run_cycle`,
/// `find_latest_lru_file`) sees the state saved by the checkpoint that was written LAST in this
/// history.  Nothing here compares generation numbers: a generation is only the NAME of the file
/// a checkpoint went to.
struct Persist {
    /// the checkpoint written last: file name (generation reported right after the write) and the
    /// textbook LRU's order at that moment
    last: Option<(u64, Vec<usize>)>,
    /// the manager in memory has adopted the newest file of the directory (or there is none):
    /// false after `reopen` over a non-empty directory and after a `load` of any other file
    sync: bool,
    /// a checkpoint was written while `!sync` (a manager that never looked at the directory chose
    /// the file name): outside the clause, until the next `run_cycle` re-anchors the record
    tainted: bool,
    /// checkpoints written so far, and which of them wrote each file name last (for messages)
    written: u64,
    wrote: HashMap<u64, u64>,
    /// shape of the history, for the tallies
    ckpt_since_begin: bool,
    reset_after_ckpt: bool,
    ckpt_after_reset_after_ckpt: bool,
}

impl Persist {
    fn new() -> Persist {
        Persist { last: None, sync: true, tainted: false, written: 0, wrote: HashMap::new(), ckpt_since_begin: false, reset_after_ckpt: false, ckpt_after_reset_after_ckpt: false }
    }
    fn name(&self) -> Option<u64> { self.last.as_ref().map(|l| l.0) }
    fn wrote_checkpoint(&mut self, name: u64, order: &[usize]) {
        if !self.sync { self.tainted = true; }
        self.written += 1;
        self.wrote.insert(name, self.written);
        self.last = Some((name, order.to_vec()));
        if self.reset_after_ckpt { self.ckpt_after_reset_after_ckpt = true; }
        self.ckpt_since_begin = true;
    }
}

#[derive(Clone, Debug, PartialEq)]
struct Obs {
    len: usize,
    order: Option<Vec<Option<usize>>>, // None = iteration did not terminate / panicked
    has: Vec<bool>,
    generation: u64,
    prev: u64,
}

impl Obs {
    fn text(&self) -> String {
        let order = match &self.order {
            None => "loop".to_string(),
            Some(v) if v.is_empty() => "-".to_string(),
            Some(v) => v.iter().map(|x| x.map_or("?".to_string(), |i| i.to_string())).collect::<Vec<_>>().join(","),
        };
        let has: String = self.has.iter().map(|b| if *b { '1' } else { '0' }).collect();
        format!("len={} order={} has={} gen={} prev={}", self.len, order, if has.is_empty() { "-".into() } else { has }, self.generation, self.prev)
    }
}

struct Case {
    cap: u32,
    keys: Vec<Key>,
    zero_idx: Option<usize>,
    dir: PathBuf,
    lru: LruManager,
    reference: Reference,
    persist: Persist,
    log: Vec<String>, // request lines so far (replay)
    dead: bool,       // an oracle failure ended the case
    dir_made: bool,   // the directory is created at the first checkpoint (a missing directory reads as empty)
    zero_iter_reported: bool,
    file_checked: bool,
    latest_reload: bool,          // a reload through "newest file" was held against the last checkpoint written
    latest_reload_choice: bool,   // … with more than one file on disk
    latest_reload_after_reset: bool, // … with checkpoint, reset, checkpoint before it
    // branch coverage of this case
    evict_on_full: bool,
    reload_ok: bool,
    evict_to_hit: bool,
    refill_after_evict: bool,
    evicted_since_fill: bool,
}

/// The session behind a mutex, so that the watchdog thread can — when the real code does not
/// return from an operation — record the hang as an oracle failure together with the history
/// that led to it, flush the streams (they are consistent: the hanging request has not been
/// written yet) and end the process normally.  The main thread holds the lock only inside the
/// short calls below, never while the real code runs.
#[derive(Clone)]
struct Shared(Arc<Mutex<Option<Session>>>);

impl Shared {
    fn with<R>(&self, f: impl FnOnce(&mut Session) -> R) -> R {
        let mut g = self.0.lock().unwrap_or_else(|e| e.into_inner());
        f(g.as_mut().expect("session already finished"))
    }
    fn line(&self, req: &str, resp: &str) { self.with(|s| s.line(req, resp)) }
    fn case(&self, k: Option<&str>) { self.with(|s| s.case(k)) }
    fn tally(&self, k: &str) { self.with(|s| s.tally(k)) }
    fn oracle_fail(&self, sig: &str, msg: &str, replay: &[String]) { self.with(|s| s.oracle_fail(sig, msg, replay)) }
    fn finish(&self) {
        let taken = self.0.lock().unwrap_or_else(|e| e.into_inner()).take();
        if let Some(s) = taken { s.finish() }
    }
}

struct Ctx {
    s: Shared,
    /// request lines of the history being run (for the watchdog)
    cur: Arc<Mutex<Vec<String>>>,
    rt: tokio::runtime::Runtime,
    base: PathBuf,
    ncase: u64,
    beat: Arc<AtomicU64>,
    sig_count: HashMap<String, u64>,
}

const MAX_ORACLE_LINES_PER_SIG: u64 = 40;

impl Ctx {
    fn fail(&mut self, sig: &str, msg: &str, replay: &[String]) {
        let c = self.sig_count.entry(sig.to_string()).or_insert(0);
        *c += 1;
        if *c <= MAX_ORACLE_LINES_PER_SIG {
            self.s.oracle_fail(sig, msg, replay);
        }
        self.s.tally(&format!("oracle.{sig}"));
    }
}

fn observe(lru: &LruManager, keys: &[Key], cap: u32) -> Obs {
    let limit = cap as usize + 2;
    let order = catch(AssertUnwindSafe(|| {
        let mut v: Vec<Option<usize>> = vec![];
        lru.for_each_entry(|k| {
            if v.len() > limit {
                panic!("for_each_entry yields more entries than the capacity");
            }
            v.push(keys.iter().position(|x| x == k));
        });
        v
    }))
    .ok();
    Obs {
        len: lru.len(),
        order,
        has: keys.iter().map(|k| lru.contains(k)).collect(),
        generation: lru.generation(),
        prev: lru.prev_generation(),
    }
}

/// A `.lru` file read as a doubly linked list by a reader that shares no code with the crate.
struct FileView {
    n: usize,
    linked: Option<Vec<Key>>, // None = the `next` walk leaves the array or does not end
    free: usize,
    stale: usize,
    prev_ok: bool,
    head_ok: bool,
}

const SENT: u32 = 0xFFFF_FFFF;

/// None = no file, wrong size, unknown version or MD5 mismatch (what `deserialize` rejects).
fn read_file_view(path: &Path) -> Option<FileView> {
    let data = std::fs::read(path).ok()?;
    if data.len() < 28 || (data.len() - 28) % 20 != 0 {
        return None;
    }
    let version = u16::from_le_bytes([data[0], data[1]]);
    if version > 1 {
        return None;
    }
    let mut zeroed = data.clone();
    zeroed[4..20].fill(0);
    if md5::compute(&zeroed).0 != data[4..20] {
        return None;
    }
    let u32at = |o: usize| u32::from_le_bytes([data[o], data[o + 1], data[o + 2], data[o + 3]]);
    let (head, tail) = (u32at(20), u32at(24));
    let n = (data.len() - 28) / 20;
    let ent = |i: usize| -> (u32, u32, Key, u8) {
        let o = 28 + 20 * i;
        (u32at(o), u32at(o + 4), data[o + 8..o + 17].try_into().unwrap(), data[o + 17])
    };
    // walk `next` from the tail
    let mut slots: Vec<usize> = vec![];
    let mut idx = tail;
    let mut walk_ok = true;
    while idx != SENT {
        if idx as usize >= n || slots.len() > n {
            walk_ok = false;
            break;
        }
        slots.push(idx as usize);
        idx = ent(idx as usize).1;
    }
    if !walk_ok {
        return Some(FileView { n, linked: None, free: 0, stale: 0, prev_ok: false, head_ok: false });
    }
    let mut prev_ok = true;
    let mut expect = SENT;
    for &s in &slots {
        if ent(s).0 != expect { prev_ok = false; }
        expect = s as u32;
    }
    let head_ok = head == slots.last().map_or(SENT, |s| *s as u32);
    let mut seen = vec![false; n];
    for &s in &slots { seen[s] = true; }
    let (mut free, mut stale) = (0, 0);
    for i in 0..n {
        if !seen[i] {
            if ent(i) == (SENT, SENT, ZERO, 0) { free += 1; } else { stale += 1; }
        }
    }
    Some(FileView { n, linked: Some(slots.iter().map(|s| ent(*s).2).collect()), free, stale, prev_ok, head_ok })
}

fn disk_generations(dir: &Path) -> Vec<u64> {
    let mut v = vec![];
    if let Ok(rd) = std::fs::read_dir(dir) {
        for e in rd.flatten() {
            if let Some(n) = e.file_name().to_str() {
                if n.len() == 20 && n.ends_with(".lru") {
                    if let Ok(g) = u64::from_str_radix(&n[..16], 16) {
                        v.push(g);
                    }
                }
            }
        }
    }
    v.sort_unstable();
    v
}

impl Case {
    fn begin(cx: &mut Ctx, cap: u32, keys: Vec<Key>) -> Case {
        cx.ncase += 1;
        let dir = cx.base.join(format!("c{}", cx.ncase));
        let req = format!("begin cap={} keys={}", cap, keys.iter().map(|k| hex(k)).collect::<Vec<_>>().join(","));
        cx.s.line(&req, "ok");
        *cx.cur.lock().unwrap() = vec![req.clone()];
        let zero_idx = keys.iter().position(|k| *k == ZERO);
        Case {
            cap,
            lru: LruManager::new(cap, dir.clone()),
            reference: Reference { cap: cap as usize, order: vec![], snaps: HashMap::new() },
            persist: Persist::new(),
            keys,
            zero_idx,
            dir,
            log: vec![req],
            dead: false,
            dir_made: false,
            zero_iter_reported: false,
            file_checked: false,
            latest_reload: false,
            latest_reload_choice: false,
            latest_reload_after_reset: false,
            evict_on_full: false,
            reload_ok: false,
            evict_to_hit: false,
            refill_after_evict: false,
            evicted_since_fill: false,
        }
    }

    fn end(self, cx: &mut Ctx) {
        let nontrivial = self.evict_on_full || self.reload_ok || self.evict_to_hit;
        let key = self.log.join(";");
        cx.s.case(if nontrivial { Some(&key) } else { None });
        if self.evict_on_full { cx.s.tally("case.touch-evicts-on-full"); }
        if self.reload_ok { cx.s.tally("case.reload-ok"); }
        if self.evict_to_hit { cx.s.tally("case.evict_to-evicts"); }
        if self.refill_after_evict { cx.s.tally("case.refill-after-public-evict"); }
        if self.file_checked { cx.s.tally("case.checkpoint-file-read-as-list"); }
        if self.latest_reload { cx.s.tally("case.newest-file-reload-vs-last-checkpoint-written"); }
        if self.latest_reload_choice { cx.s.tally("case.newest-file-reload-vs-last-checkpoint-written.several-files"); }
        if self.latest_reload_after_reset { cx.s.tally("case.newest-file-reload-vs-last-checkpoint-written.checkpoint-reset-checkpoint"); }
        if self.zero_idx.is_some() { cx.s.tally("case.universe-has-zero-key"); }
        cx.s.tally(&format!("cap.{}", if self.cap <= 3 { self.cap.to_string() } else if self.cap <= 8 { "4-8".into() } else if self.cap <= 32 { "9-32".into() } else { "33+".into() }));
        let l = self.log.len() - 1;
        cx.s.tally(&format!("len.{}", if l <= 7 { l.to_string() } else if l <= 50 { "8-50".into() } else { "51+".into() }));
        drop(self.lru);
        if self.dir_made {
            let _ = std::fs::remove_dir_all(&self.dir);
        }
    }

    /// apply one op to the real code and to the reference; print the line; evaluate the oracle.
    /// Returns false when the case must end (oracle failure that leaves the state undefined).
    fn apply(&mut self, cx: &mut Ctx, op: &Op) -> bool {
        cx.beat.fetch_add(1, Ordering::Relaxed);
        let req = op.text();
        self.log.push(req.clone());
        cx.cur.lock().unwrap().push(req.clone());
        cx.s.tally(&format!("op.{}", req.split(' ').next().unwrap_or("")));
        let cap = self.cap;
        let before_len = self.reference.order.len();
        let gens_before = if matches!(op, Op::RunCycle(..) | Op::Latest) { disk_generations(&self.dir) } else { vec![] };
        if matches!(op, Op::Checkpoint | Op::Shutdown) && !self.dir_made {
            std::fs::create_dir_all(&self.dir).expect("case dir");
            self.dir_made = true;
        }
        // ---- the real code
        let lru = &mut self.lru;
        let keys = &self.keys;
        let dir = &self.dir;
        let rt = &cx.rt;
        let mut reopened: Option<LruManager> = None;
        let mut file_view: Option<FileView> = None;
        let res: Result<String, String> = catch(AssertUnwindSafe(|| match op {
            Op::Touch(i) => lru.touch(&keys[*i]).to_string(),
            Op::Remove(i) => lru.remove(&keys[*i]).to_string(),
            Op::EvictTail => if lru.evict_tail().is_some() { "some".into() } else { "none".into() },
            Op::EvictTo(t, a) => { let (n, f) = lru.evict_to_target(*t, *a); format!("{n} {f}") }
            Op::Bump => { lru.bump_generation(); "ok".into() }
            Op::Checkpoint => match rt.block_on(lru.checkpoint_to_disk()) { Ok(()) => "ok".into(), Err(_) => "err".into() },
            Op::Shutdown => match rt.block_on(lru.shutdown()) { Ok(()) => "ok".into(), Err(_) => "err".into() },
            Op::Latest => match LruManager::find_latest_lru_file(dir) {
                None => "none".into(),
                Some((g, p)) => if p == cascette_client_storage::lru::lru_file::lru_file_path(dir, g) { format!("gen={g}") } else { format!("gen={g} path=other") },
            },
            Op::Load(g) => match rt.block_on(lru.load_from_disk(*g)) { Ok(()) => "ok".into(), Err(_) => "err".into() },
            Op::RunCycle(l, a) => match rt.block_on(lru.run_cycle(*l, *a)) {
                Ok(st) => format!("ok loaded={} evicted={} freed={} active={}", st.loaded_entries, st.entries_evicted, st.bytes_freed, st.active_entries),
                Err(_) => "err".into(),
            },
            Op::Reset => { lru.reset(); "ok".into() }
            Op::Reopen => { reopened = Some(LruManager::new(cap, dir.clone())); "ok".into() }
            Op::FileCheck => {
                file_view = read_file_view(&cascette_client_storage::lru::lru_file::lru_file_path(dir, lru.generation()));
                match &file_view {
                    None => "nofile".into(),
                    Some(FileView { linked: None, .. }) => "file walk=bad".into(),
                    Some(v) => {
                        let l: Vec<String> = v.linked.as_ref().unwrap().iter().map(|k| keys.iter().position(|x| x == k).map_or("?".to_string(), |i| i.to_string())).collect();
                        format!("file n={} linked={} free={} stale={} prev={} head={}", v.n, if l.is_empty() { "-".to_string() } else { l.join(",") }, v.free, v.stale, if v.prev_ok { "ok" } else { "bad" }, if v.head_ok { "ok" } else { "bad" })
                    }
                }
            }
        }));
        if let Some(m) = reopened {
            self.lru = m;
        }
        let res = match res {
            Ok(r) => r,
            Err(p) => {
                cx.s.line(&req, "panic");
                cx.fail("lru-panic", &format!("{req} panicked: {p}"), &self.log.clone());
                self.dead = true;
                return false;
            }
        };
        let obs = observe(&self.lru, &self.keys, self.cap);
        cx.s.line(&req, &format!("{res} | {}", obs.text()));

        // ---- the reference (textbook LRU) and the oracle
        let log = self.log.clone();
        let mut restored_from: Option<Vec<usize>> = None;
        let mut cycle_ctx: Option<(Vec<usize>, Option<Vec<usize>>, bool)> = None;
        let mut stale_known: Option<String> = None;
        let mut fails: Vec<(String, String)> = vec![];
        let mut cycle_zero_short = false;
        let r = &mut self.reference;
        match op {
            Op::Touch(k) => {
                let full = r.order.len() == r.cap && !r.order.contains(k);
                let want = r.touch(*k);
                if full && want { self.evict_on_full = true; }
                if self.evicted_since_fill && want { self.refill_after_evict = true; }
                if res != want.to_string() {
                    let sig = if want { "lru-touch-refused" } else { "lru-touch-result" };
                    fails.push((sig.into(), format!("touch returned {res}, a textbook LRU of capacity {} (holding {before_len}) returns {want}", r.cap)));
                } else if want && !obs.has[*k] {
                    fails.push(("lru-touch-absent".into(), "touch returned true but the key is not contained afterwards".into()));
                }
            }
            Op::Remove(k) => {
                let want = r.remove(*k);
                if res != want.to_string() {
                    fails.push(("lru-remove-result".into(), format!("remove returned {res}, reference {want}")));
                }
            }
            Op::EvictTail => {
                let want = r.evict_tail();
                if want { self.evicted_since_fill = true; }
                if (res == "some") != want {
                    fails.push(("lru-evict-result".into(), format!("evict_tail returned {res}, reference non-empty = {want}")));
                }
            }
            Op::EvictTo(t, a) => {
                let (n, f) = r.evict_to(*t, *a);
                if n > 0 { self.evict_to_hit = true; self.evicted_since_fill = true; }
                if res != format!("{n} {f}") {
                    fails.push(("lru-evict-to-result".into(), format!("evict_to_target returned ({res}), reference ({n} {f})")));
                }
            }
            Op::Bump => {}
            Op::Checkpoint | Op::Shutdown => {
                if res != "ok" && matches!(op, Op::Shutdown) {
                    fails.push(("lru-shutdown-error".into(), "shutdown failed although the directory exists and is writable".into()));
                }
                if res == "ok" {
                    r.snaps.insert(obs.generation, r.order.clone());
                    self.persist.wrote_checkpoint(obs.generation, &r.order);
                    // a checkpoint that reports success must be there to reload
                    if !disk_generations(&self.dir).contains(&obs.generation) {
                        fails.push(("lru-checkpoint-not-on-disk".into(), format!("checkpoint_to_disk returned Ok at generation {} (prev {}) but no file of that generation exists afterwards, so the state just saved cannot be reloaded", obs.generation, obs.prev)));
                    }
                }
            }
            Op::Load(g) => {
                if res == "ok" {
                    match r.snaps.get(g) {
                        Some(snap) => { r.order = snap.clone(); restored_from = Some(snap.clone()); self.reload_ok = true; }
                        None => fails.push(("lru-load-unknown".into(), format!("load_from_disk({g}) succeeded but no checkpoint was taken at that generation"))),
                    }
                    // the manager now sits on file `g`: in step with the directory iff that is
                    // the file written last
                    self.persist.sync = self.persist.name() == Some(*g);
                }
            }
            Op::RunCycle(limit, avg) => {
                if res == "err" {
                    fails.push(("lru-cycle-error".into(), "run_cycle failed although every file in the directory was written by checkpoint_to_disk".into()));
                } else {
                    // WHICH checkpoint must come back.  Inside the clause (every checkpoint so far was
                    // written by a manager in step with the directory): the one written last in this
                    // history, by the harness's own record.  Outside: the file with the largest name
                    // (what the generation scheme promises there), and the record is re-anchored on it.
                    let by_name: Option<Vec<usize>> = gens_before.last().and_then(|g| r.snaps.get(g).cloned());
                    let in_clause = !self.persist.tainted;
                    let expect: Option<Vec<usize>> = if in_clause { self.persist.last.as_ref().map(|l| l.1.clone()) } else { by_name.clone() };
                    if !in_clause {
                        if let (Some(g), None) = (gens_before.last(), &by_name) {
                            fails.push(("lru-load-unknown".into(), format!("run_cycle found generation {g} on disk that no checkpoint wrote")));
                        }
                        cx.s.tally("persist.run_cycle.outside-clause(re-anchored)");
                        // known shape 3 (design of the generation scheme): the checkpoint written
                        // last went to a LOWER name than a file that is still there, because the
                        // manager that wrote it had not adopted the newest file first
                        if let Some((g, snap)) = &self.persist.last {
                            if by_name.is_some() && by_name.as_ref() != Some(snap) {
                                stale_known = Some(format!("outside the history-order clause: the checkpoint written last (#{} of this history, file of generation {g}, holding {:?}) was written by a manager that had not adopted the newest file of the directory (new manager without run_cycle, or after load_from_disk of an older generation); run_cycle restores the file with the largest generation name {:?} holding {:?}; files before the cycle {:?}", self.persist.written, snap, gens_before.last(), by_name.as_ref().unwrap(), gens_before));
                            }
                        }
                    } else {
                        cx.s.tally(if expect.is_some() { "persist.run_cycle.held-against-last-checkpoint-written" } else { "persist.run_cycle.no-checkpoint-yet" });
                        if expect.is_some() {
                            self.latest_reload = true;
                            if gens_before.len() > 1 { self.latest_reload_choice = true; cx.s.tally("persist.run_cycle.held-against-last-checkpoint-written.several-files-on-disk"); }
                            if self.persist.ckpt_after_reset_after_ckpt { self.latest_reload_after_reset = true; }
                        }
                    }
                    let before = r.order.clone();
                    let (want, after, n) = cycle_expect(r.cap, &before, expect.as_ref(), *limit, *avg);
                    if n > 0 { self.evict_to_hit = true; self.evicted_since_fill = true; }
                    if expect.is_some() { self.reload_ok = true; }
                    r.order = after;
                    restored_from = expect.clone();
                    let zero_here = self.zero_idx.is_some_and(|z| r.order.contains(&z));
                    // (the all-zero key is counted as loaded but not as active: known shape 1)
                    let want_short = want.rsplit_once("active=").map_or(String::new(), |(head, _)| format!("{head}active={}", r.order.len().saturating_sub(1)));
                    if res != want && fails.is_empty() {
                        if zero_here && res == want_short {
                            cycle_zero_short = true;
                        } else {
                            fails.push(("lru-cycle-stats".into(), format!("run_cycle returned [{res}], reference [{want}]")));
                        }
                    }
                    cycle_ctx = Some((before, expect, in_clause));
                    // the record after the cycle
                    if !in_clause {
                        self.persist.last = gens_before.last().and_then(|g| by_name.clone().map(|s| (*g, s)));
                        self.persist.tainted = gens_before.last().is_some() && by_name.is_none();
                    }
                    self.persist.sync = true;
                }
            }
            Op::Reset | Op::Reopen => {
                r.order.clear();
                self.evicted_since_fill = false;
                if matches!(op, Op::Reopen) {
                    // a new manager has not looked at the directory
                    self.persist.sync = self.persist.last.is_none();
                } else if self.persist.ckpt_since_begin {
                    self.persist.reset_after_ckpt = true;
                }
            }
            Op::Latest => {
                // `find_latest_lru_file` must name the file of the checkpoint written last (inside
                // the clause; outside it, the largest name the harness's own directory scan finds)
                let in_clause = !self.persist.tainted;
                let want_gen = if in_clause { self.persist.name() } else { gens_before.last().cloned() };
                let want = want_gen.map_or("none".to_string(), |g| format!("gen={g}"));
                cx.s.tally(if in_clause { "persist.latest.held-against-last-checkpoint-written" } else { "persist.latest.outside-clause" });
                if res != want {
                    let sig = if in_clause { "lru-latest-file-not-last-written" } else { "lru-latest-file-not-largest" };
                    let which = match (in_clause, self.persist.name()) {
                        (true, Some(g)) => format!("the checkpoint written last (#{} of this history) went to the file of generation {g}", self.persist.written),
                        (true, None) => "no checkpoint has been written".to_string(),
                        _ => format!("files on disk: {:?}", gens_before),
                    };
                    fails.push((sig.into(), format!("find_latest_lru_file answers [{res}], expected [{want}]: {which}; files on disk {:?}", gens_before)));
                }
            }
            Op::FileCheck => {
                // the representation invariant, on the bytes the real code wrote: a well-formed
                // doubly linked list over `capacity` slots, every other slot empty, holding the
                // textbook LRU's keys of the moment of the checkpoint in the textbook order
                if let Some(v) = &file_view {
                    self.file_checked = true;
                    match &v.linked {
                        None => fails.push(("lru-file-walk".into(), "the `next` walk from lru_tail in the checkpoint file leaves the entry array or does not end".into())),
                        Some(l) => {
                            if !v.prev_ok { fails.push(("lru-file-prev".into(), "a `prev` field in the checkpoint file does not point to the predecessor on the `next` walk".into())); }
                            if !v.head_ok { fails.push(("lru-file-head".into(), "mru_head in the checkpoint file is not the last entry of the `next` walk".into())); }
                            if v.stale != 0 { fails.push(("lru-file-stale-slot".into(), format!("{} unlinked slot(s) of the checkpoint file are not LruFileEntry::empty()", v.stale))); }
                            if v.n != self.cap as usize || l.len() + v.free + v.stale != v.n {
                                fails.push(("lru-file-slot-count".into(), format!("checkpoint file has {} slots ({} linked, {} empty) for capacity {}", v.n, l.len(), v.free, self.cap)));
                            }
                            if let Some(snap) = r.snaps.get(&obs.generation) {
                                let got: Vec<Option<usize>> = l.iter().map(|k| self.keys.iter().position(|x| x == k)).collect();
                                let want: Vec<Option<usize>> = snap.iter().map(|i| Some(*i)).collect();
                                if got != want {
                                    fails.push(("lru-file-order".into(), format!("checkpoint file of generation {} links {:?}, the textbook LRU held {:?} when it was written", obs.generation, got, want)));
                                }
                            } else {
                                fails.push(("lru-load-unknown".into(), format!("a valid checkpoint file of generation {} exists that no checkpoint wrote", obs.generation)));
                            }
                        }
                    }
                }
            }
        }
        // state comparison
        let want_has: Vec<bool> = (0..self.keys.len()).map(|i| r.order.contains(&i)).collect();
        let want_order: Vec<Option<usize>> = r.order.iter().map(|i| Some(*i)).collect();
        if obs.len > self.cap as usize {
            fails.push(("lru-over-capacity".into(), format!("len {} exceeds capacity {}", obs.len, self.cap)));
        }
        if obs.len != r.order.len() {
            fails.push(("lru-len".into(), format!("len {} but the reference holds {}", obs.len, r.order.len())));
        }
        if obs.has != want_has {
            fails.push(("lru-contains".into(), format!("contains() = {:?}, reference {:?}", obs.has, want_has)));
        }
        let mut zero_iter_only = false;
        match &obs.order {
            None => fails.push(("lru-iter-loop".into(), "for_each_entry does not terminate within capacity+2 entries (or panicked)".into())),
            Some(o) if *o != want_order => {
                let minus_zero: Vec<Option<usize>> = want_order.iter().filter(|x| **x != self.zero_idx).cloned().collect();
                if self.zero_idx.is_some() && *o == minus_zero && obs.has == want_has && obs.len == r.order.len() {
                    zero_iter_only = true;
                } else {
                    fails.push(("lru-order".into(), format!("for_each_entry order {:?}, reference {:?}", o, want_order)));
                }
            }
            _ => {}
        }
        if let Op::Touch(k) = op {
            if res == "true" && fails.is_empty() && !zero_iter_only {
                if obs.order.as_ref().and_then(|o| o.last().cloned()) != Some(Some(*k)) {
                    fails.push(("lru-touch-not-mru".into(), "touched key is not the most recent entry".into()));
                }
            }
        }
        // known shape 1: the all-zero key is in the table but for_each_entry (and run_cycle's
        // active count, which uses it) skips it, everything else agreeing with the reference
        if (zero_iter_only || cycle_zero_short) && fails.is_empty() {
            if !self.zero_iter_reported {
                self.zero_iter_reported = true;
                cx.fail("lru-zero-key-iter", &format!("all-zero key is contained (len {}) but for_each_entry / active_entries omit it: {res} | {}", obs.len, obs.text()), &log);
            } else {
                cx.s.tally("oracle.lru-zero-key-iter.repeat-in-case");
            }
            return true;
        }
        if fails.is_empty() {
            if let Some(msg) = stale_known {
                cx.fail("lru-stale-reload-unsynced-checkpoint", &msg, &log);
            }
            return true;
        }
        // known shape 2: a reload of a checkpoint that held the all-zero key comes back exactly
        // without that key
        if let (Some(snap), Some(z)) = (&restored_from, self.zero_idx) {
            if snap.contains(&z) {
                // what the code does: the zero entry stays LINKED (so run_cycle's eviction walks over
                // it and counts it) but is not in the key map (so it is not counted as loaded)
                let mut r2 = Reference { cap: self.reference.cap, order: snap.clone(), snaps: HashMap::new() };
                let mut stats_ok = true;
                if let Op::RunCycle(limit, avg) = op {
                    let loaded = snap.len() - 1;
                    let (mut n, mut f) = (0usize, 0u64);
                    if *limit > 0 && *avg > 0 {
                        let cur = loaded as u64 * *avg;
                        if cur > *limit { (n, f) = r2.evict_to(cur - *limit, *avg); }
                    }
                    let visible = r2.order.iter().filter(|x| **x != z).count();
                    stats_ok = res == format!("ok loaded={loaded} evicted={n} freed={f} active={visible}");
                }
                r2.order.retain(|x| *x != z);
                let has2: Vec<bool> = (0..self.keys.len()).map(|i| r2.order.contains(&i)).collect();
                let ord2: Vec<Option<usize>> = r2.order.iter().map(|i| Some(*i)).collect();
                if stats_ok && obs.len == r2.order.len() && obs.has == has2 && obs.order.as_ref() == Some(&ord2) {
                    cx.fail("lru-zero-key-reload", &format!("checkpoint held the all-zero key; after reload it is gone (len {} instead of {}): {}", obs.len, snap.len(), obs.text()), &log);
                    self.dead = true;
                    return false;
                }
            }
        }
        // the persistence clause in history order: a run_cycle (inside the clause) whose outcome is
        // NOT the last checkpoint written but IS exactly what restoring another file of the
        // directory (or restoring nothing) gives has reloaded a stale checkpoint
        if let (Op::RunCycle(limit, avg), Some((before, expect, true))) = (op, &cycle_ctx) {
            let explains = |snap: Option<&Vec<usize>>| -> bool {
                let (want, after, _) = cycle_expect(self.reference.cap, before, snap, *limit, *avg);
                let has: Vec<bool> = (0..self.keys.len()).map(|i| after.contains(&i)).collect();
                let ord: Vec<Option<usize>> = after.iter().map(|i| Some(*i)).collect();
                res == want && obs.len == after.len() && obs.has == has && obs.order.as_ref() == Some(&ord)
            };
            let last_desc = match &self.persist.last {
                Some((g, snap)) => format!("the checkpoint written last (#{} of this history, to the file of generation {g}) holds {:?}", self.persist.written, snap),
                None => "no checkpoint has been written".to_string(),
            };
            let mut relabel: Option<(String, String)> = None;
            for g in gens_before.iter().rev() {
                if let Some(snap) = self.reference.snaps.get(g) {
                    if Some(snap) != expect.as_ref() && explains(Some(snap)) {
                        relabel = Some(("lru-reload-not-latest-checkpoint".into(), format!("run_cycle restored the file of generation {g} = checkpoint #{} of this history holding {:?}, but {last_desc}; files on disk before the cycle {:?}, after it {:?}", self.persist.wrote.get(g).cloned().unwrap_or(0), snap, gens_before, disk_generations(&self.dir))));
                        break;
                    }
                }
            }
            if relabel.is_none() && expect.is_some() && explains(None) {
                relabel = Some(("lru-reload-lost-checkpoint".into(), format!("run_cycle restored nothing, but {last_desc}; files on disk before the cycle {:?}", gens_before)));
            }
            if let Some(f) = relabel { fails.insert(0, f); }
        }
        let (sig, msg) = fails[0].clone();
        let all: Vec<&str> = fails.iter().map(|f| f.0.as_str()).collect();
        cx.fail(&sig, &format!("{msg} [after `{req}`; failing sub-claims: {}; state: {}]", all.join(","), obs.text()), &log);
        self.dead = true;
        false
    }
}

fn key_universe(n_nonzero: usize, with_zero: bool, rng: &mut Rng) -> Vec<Key> {
    let mut keys: Vec<Key> = vec![];
    if with_zero {
        keys.push(ZERO);
    }
    while keys.len() < n_nonzero + with_zero as usize {
        let k: Key = match rng.below(6) {
            0 => { let mut k = [0u8; 9]; k[8] = 1 + rng.below(255) as u8; k }   // zero but the last byte
            1 => { let mut k = [0u8; 9]; k[0] = 1 + rng.below(255) as u8; k }   // zero but the first byte
            2 => [0xFF; 9],
            _ => rng.bytes(9).try_into().unwrap(),
        };
        if !keys.contains(&k) {
            keys.push(k);
        }
    }
    keys
}

/// all op sequences of length `len` over `alphabet`, keys used in canonical first-use order
/// (non-zero keys are interchangeable, so a history that first uses key 2 before key 1 is the
/// mirror image of one that is enumerated).
fn exhaustive(cx: &mut Ctx, cap: u32, keys: &[Key], alphabet: &[Op], len: usize, first_nonzero: usize) {
    let mut idx = vec![0usize; len];
    'outer: loop {
        // canonical labelling filter
        let mut fresh = first_nonzero;
        let mut ok = true;
        for &i in &idx {
            if let Op::Touch(k) | Op::Remove(k) = &alphabet[i] {
                if *k >= first_nonzero {
                    if *k > fresh { ok = false; break; }
                    if *k == fresh { fresh += 1; }
                }
            }
        }
        if ok {
            let mut c = Case::begin(cx, cap, keys.to_vec());
            for &i in &idx {
                if !c.apply(cx, &alphabet[i]) {
                    break;
                }
                // every checkpoint file is read back as a linked list (no state change)
                if matches!(alphabet[i], Op::Checkpoint | Op::Shutdown) && !c.apply(cx, &Op::FileCheck) {
                    break;
                }
            }
            c.end(cx);
        }
        // next
        let mut p = len;
        loop {
            if p == 0 { break 'outer; }
            p -= 1;
            idx[p] += 1;
            if idx[p] < alphabet.len() { break; }
            idx[p] = 0;
        }
    }
}

/// run one scripted history; `Load(LAST)` = load the file the last checkpoint was written to.
fn scripted(cx: &mut Ctx, cap: u32, keys: &[Key], script: &[Op], filecheck: bool) {
    let mut c = Case::begin(cx, cap, keys.to_vec());
    for op in script {
        let op = match op {
            Op::Load(LAST) => Op::Load(c.persist.name().unwrap_or(1)),
            o => o.clone(),
        };
        if !c.apply(cx, &op) {
            break;
        }
        if filecheck && matches!(op, Op::Checkpoint | Op::Shutdown) && !c.apply(cx, &Op::FileCheck) {
            break;
        }
    }
    c.end(cx);
}

/// (D) checkpoint histories with something in the middle.  Every history is
///   fill S1; bump x b1; WRITE1; MIDDLE; make the table S2; bump x b2; WRITE2; dirty the table; RELOAD
/// with WRITE in {checkpoint_to_disk, shutdown}, b1, b2 in 0..=2, MIDDLE over every operation of
/// the alphabet (alone and in the pairs that matter around a reset / a restart) and RELOAD over
/// every way a saved table comes back: run_cycle on the same manager, restart + run_cycle,
/// find_latest_lru_file, load_from_disk of the file written last (same manager and after a
/// restart), and the same again after the manager has been reset.  S1, S2 and the dirty table are
/// pairwise different and non-empty, so restoring the wrong checkpoint, or none, is visible.
/// All of these histories are inside the persistence clause (no checkpoint is written by a
/// manager that has not seen the directory), so each RELOAD is held against WRITE2's table.
fn persistence_grid(cx: &mut Ctx, thorough: bool) {
    let keys: Vec<Key> = vec![ZERO, [0x11; 9], [0, 0, 0, 0, 0, 0, 0, 0, 1], [0xFF; 9]];
    use Op::*;
    let middles: Vec<Vec<Op>> = vec![
        vec![], vec![Reset], vec![Touch(3)], vec![Remove(1)], vec![EvictTail], vec![EvictTo(1, 1)], vec![EvictTo(9, 1)], vec![Bump],
        vec![RunCycle(0, 0)], vec![RunCycle(1, 1)], vec![Reopen, RunCycle(0, 0)], vec![Load(LAST)], vec![Reopen, Load(LAST)],
        vec![Latest], vec![Load(77)],
        vec![Reset, Reset], vec![Reset, Bump], vec![Bump, Reset], vec![Reset, RunCycle(0, 0)], vec![RunCycle(0, 0), Reset],
        vec![Reopen, RunCycle(0, 0), Reset], vec![Reset, Touch(3), EvictTail], vec![Reset, Load(LAST)], vec![Load(LAST), Reset],
        vec![Reopen, Latest, RunCycle(1, 1), Bump],
    ];
    let reloads: Vec<Vec<Op>> = vec![
        vec![RunCycle(0, 0)], vec![RunCycle(1, 1)], vec![Reopen, RunCycle(0, 0)], vec![Reopen, RunCycle(0, 1), Latest],
        vec![Latest, Load(LAST)], vec![Reopen, Load(LAST), RunCycle(0, 0)], vec![Reset, RunCycle(0, 0)], vec![Bump, Reset, Bump, RunCycle(3, 1), Latest],
    ];
    let writes = [Checkpoint, Shutdown];
    let mut n = 0u64;
    for cap in 1..=3u32 {
        for b1 in 0..=2usize {
            for b2 in 0..=2usize {
                // the full bump grid on capacity 2; the corners elsewhere (thorough: everywhere)
                if !thorough && cap != 2 && !matches!((b1, b2), (0, 0) | (2, 0) | (1, 1) | (0, 2)) { continue; }
                for (w1, w2) in [(0, 0), (1, 0), (0, 1), (1, 1)] {
                    if !thorough && cap != 2 && w1 != w2 { continue; }
                    for mid in &middles {
                        for rel in &reloads {
                            let mut sc: Vec<Op> = vec![Touch(1)];
                            if cap >= 2 { sc.push(Touch(2)); }
                            sc.extend(std::iter::repeat(Bump).take(b1));
                            sc.push(writes[w1].clone());
                            sc.extend(mid.iter().cloned());
                            sc.extend([Touch(2), Remove(1), Remove(3)]);
                            sc.extend(std::iter::repeat(Bump).take(b2));
                            sc.push(writes[w2].clone());
                            sc.push(Touch(1));
                            sc.extend(rel.iter().cloned());
                            n += 1;
                            scripted(cx, cap, &keys, &sc, n % 7 == 0);
                        }
                    }
                }
            }
        }
    }
    cx.s.with(|s| { s.extra.insert("persistence_grid_histories".into(), serde_json::json!(n)); });
}

fn random_history(cx: &mut Ctx, rng: &mut Rng, cap: u32, max_len: usize) {
    let with_zero = rng.chance(1, 3);
    let extra = rng.range(1, 4) as usize;
    let keys = key_universe(cap as usize + extra - with_zero as usize, with_zero, rng);
    let nk = keys.len();
    let mut c = Case::begin(cx, cap, keys);
    let n = rng.range(max_len as u64 / 4, max_len as u64) as usize;
    let mut known_gens: Vec<u64> = vec![1];
    let persist = rng.chance(2, 3);
    // half of the persistence histories stay inside the history-order clause for their whole
    // length: reloads name the file written last, a restart runs a cycle before anything else
    let disciplined = persist && rng.chance(1, 2);
    if disciplined { cx.s.tally("random.disciplined-persistence"); }
    let mut i = 0;
    while i < n {
        i += 1;
        // directed phases aimed at the boundary cases of the quantifier
        let op = match rng.below(100) {
            0..=1 => {
                // fill to capacity, evict a part through the public calls, refill
                let mut alive = true;
                for k in 0..(cap as usize).min(nk) { alive = alive && c.apply(cx, &Op::Touch(k)); if !alive { break; } }
                if alive {
                    let e = rng.range(1, cap.max(1) as u64);
                    alive = if rng.chance(1, 2) { c.apply(cx, &Op::EvictTo(e, 1)) } else { (0..e).all(|_| c.apply(cx, &Op::EvictTail)) };
                }
                if alive { for k in (0..nk).rev() { if !c.apply(cx, &Op::Touch(k)) { alive = false; break; } } }
                if !alive { break; }
                continue;
            }
            2..=51 => Op::Touch(rng.below(nk as u64) as usize),
            52..=63 => Op::Remove(rng.below(nk as u64) as usize),
            64..=71 => Op::EvictTail,
            72..=77 => {
                let avg = *rng.pick(&[0u64, 1, 1, 3, 100]);
                let target = match rng.below(4) { 0 => 0, 1 => avg * rng.below(cap as u64 + 2), 2 => avg * rng.below(cap as u64 + 2) + 1, _ => rng.below(4 * cap as u64 + 2) };
                Op::EvictTo(target, avg)
            }
            78..=79 => Op::Reset,
            _ if !persist => Op::Touch(rng.below(nk as u64) as usize),
            80..=84 => Op::Bump,
            85..=90 => if rng.chance(1, 4) { Op::Shutdown } else { Op::Checkpoint },
            91..=95 => match rng.below(8) {
                0 => Op::Latest,
                1 if !disciplined => Op::Load(rng.range(1, 6)),
                _ if disciplined => Op::Load(c.persist.name().unwrap_or(1)),
                _ => Op::Load(*rng.pick(&known_gens)),
            },
            96..=98 => {
                let avg = *rng.pick(&[0u64, 1, 1, 10]);
                Op::RunCycle(match rng.below(3) { 0 => 0, 1 => avg * rng.below(cap as u64 + 1), _ => rng.below(10 * cap as u64 + 1) }, avg)
            }
            _ => Op::Reopen,
        };
        if !c.apply(cx, &op) {
            break;
        }
        if matches!(op, Op::Checkpoint | Op::Shutdown) {
            let g = c.lru.generation();
            if !known_gens.contains(&g) { known_gens.push(g); }
        }
        if (matches!(op, Op::Checkpoint | Op::Shutdown) && rng.chance(2, 3)) || (persist && rng.chance(1, 25)) {
            if !c.apply(cx, &Op::FileCheck) {
                break;
            }
        }
        // a restart looks at the directory first (always when disciplined, often otherwise)
        if matches!(op, Op::Reopen) && (disciplined || rng.chance(1, 2)) {
            let cyc = if rng.chance(1, 2) { Op::RunCycle(0, 0) } else { Op::RunCycle(rng.below(3 * cap as u64 + 1), 1) };
            if !c.apply(cx, &cyc) {
                break;
            }
        }
    }
    c.end(cx);
}

fn replay(cx: &mut Ctx, lines: &[String]) {
    let mut cur: Option<Case> = None;
    for l in lines {
        let t: Vec<&str> = l.split(' ').filter(|x| !x.is_empty()).collect();
        if t.first() == Some(&"begin") {
            if let Some(c) = cur.take() { c.end(cx); }
            let mut cap = None;
            let mut keys: Option<Vec<Key>> = None;
            for a in &t[1..] {
                if let Some(v) = a.strip_prefix("cap=") { cap = v.parse::<u32>().ok(); }
                if let Some(v) = a.strip_prefix("keys=") {
                    keys = v.split(',').map(|h| unhex(h).and_then(|b| <Key>::try_from(b).ok())).collect();
                }
            }
            match (cap, keys) {
                (Some(cap), Some(keys)) if t.len() == 3 => {
                    // re-emit exactly the canonical begin line
                    let c = Case::begin(cx, cap, keys);
                    cur = Some(c);
                }
                _ => cx.s.line(l, "bad-op"),
            }
            continue;
        }
        match cur.as_mut() {
            Some(c) if !c.dead => match Op::parse(&t, c.keys.len()) {
                Some(op) => { c.apply(cx, &op); }
                None => cx.s.line(l, "bad-op"),
            },
            // the oracle has already failed on this case: the state is undefined from there on,
            // the remaining lines are not run (and not sent to the model either)
            Some(_) => println!("skipped after oracle failure: {l}"),
            None => cx.s.line(l, "bad-op"),
        }
    }
    if let Some(c) = cur.take() { c.end(cx); }
}

fn main() {
    let args = Args::parse();
    quiet_panics();
    // real files, on tmpfs when there is one: checkpoint_to_disk fsyncs every file, and the
    // persistence sections write tens of thousands of checkpoints (durability is C06's subject)
    let tmp = tempfile::tempdir_in("/dev/shm").or_else(|_| tempfile::tempdir()).expect("tempdir");
    let beat = Arc::new(AtomicU64::new(0));
    let shared = Shared(Arc::new(Mutex::new(Some(Session::new(&args.out)))));
    let cur: Arc<Mutex<Vec<String>>> = Arc::new(Mutex::new(vec![]));
    {
        // watchdog: a hang of the real code (a cycle in the intrusive list) must not hang the
        // check, and must come out as an oracle failure with the history that produced it
        let beat = beat.clone();
        let shared = shared.clone();
        let cur = cur.clone();
        std::thread::spawn(move || {
            let mut last = u64::MAX;
            loop {
                std::thread::sleep(std::time::Duration::from_secs(60));
                let now = beat.load(Ordering::Relaxed);
                if now == last {
                    eprintln!("c17: no progress for 60 s — the real code hangs (cycle in the list?)");
                    let log = cur.lock().unwrap_or_else(|e| e.into_inner()).clone();
                    let last_req = log.last().cloned().unwrap_or_default();
                    shared.oracle_fail("lru-hang", &format!("the real code does not return from `{last_req}` within 60 s (an operation of the LRU manager must terminate; a cycle in the intrusive list?)"), &log);
                    shared.tally("oracle.lru-hang");
                    shared.finish();
                    std::process::exit(0);
                }
                last = now;
            }
        });
    }
    let mut cx = Ctx {
        s: shared,
        cur,
        rt: tokio::runtime::Builder::new_current_thread().enable_all().build().expect("tokio runtime"),
        base: tmp.path().to_path_buf(),
        ncase: 0,
        beat,
        sig_count: HashMap::new(),
    };
    let rule: String = "op histories over touch/remove/evict_tail/evict_to_target/bump_generation/checkpoint_to_disk/load_from_disk/run_cycle/reset/reopen/shutdown (+ find_latest_lru_file as a probe) on the real LruManager (real files in a temp dir): (A) every in-memory history up to a length bound over capacities 1-3 and the keys {all-zero, a, b, c} (non-zero keys in canonical first-use order), (B) every persistence history up to a shorter bound over capacities 1-3 and keys {all-zero, a, b} (15 ops incl. shutdown), (C) seeded random long histories for capacities 0..64 with directed fill / public-evict / refill phases, half of the persistence ones disciplined (reloads name the file written last, a restart runs a cycle first), (D) the grid `fill; bump x 0..2; checkpoint|shutdown; MIDDLE; other table; bump x 0..2; checkpoint|shutdown; dirty; RELOAD` with MIDDLE over every operation (reset, evictions, bump, run_cycle, restart, load, … alone and in pairs around reset / restart) and RELOAD over every loading entry point (run_cycle, restart + run_cycle, find_latest_lru_file, load_from_disk of the file written last, each also after reset / restart); in (B) and 1/7 of (D) after every checkpoint and in (C) after 2/3 of them and at random points a `filecheck` reads the .lru file of the current generation back as a doubly linked list (own parser) and holds it against the representation invariant and the textbook order; every run_cycle / find_latest_lru_file of a history in which no checkpoint was written by a manager out of step with the directory is held against the checkpoint written LAST in history order (harness's own record, no generation arithmetic); evaluation = one history; non-trivial = history reaches touch-evicts-at-capacity, an evict_to_target that evicts, or a successful reload; distinct = canonical request text of the history".into();
    cx.s.with(|s| s.rule = rule);
    let mut rng = Rng::new(args.seed);

    if let Some(p) = &args.replay {
        let lines = read_case(p);
        replay(&mut cx, &lines);
        finish(cx);
        return;
    }

    let thorough = args.thorough();
    // (A) exhaustive in-memory histories
    let keys4: Vec<Key> = vec![ZERO, [0x11; 9], [0, 0, 0, 0, 0, 0, 0, 0, 1], [0xFF; 9]];
    let mut alpha_a: Vec<Op> = vec![];
    for k in 0..4 { alpha_a.push(Op::Touch(k)); }
    for k in 0..4 { alpha_a.push(Op::Remove(k)); }
    alpha_a.extend([Op::EvictTail, Op::EvictTo(2, 1), Op::EvictTo(1, 0), Op::Reset]);
    // the same over three keys only, for one more step of depth
    let keys3: Vec<Key> = vec![ZERO, [0x11; 9], [0, 0, 0, 0, 0, 0, 0, 0, 1]];
    let mut alpha_a3: Vec<Op> = vec![];
    for k in 0..3 { alpha_a3.push(Op::Touch(k)); }
    for k in 0..3 { alpha_a3.push(Op::Remove(k)); }
    alpha_a3.extend([Op::EvictTail, Op::EvictTo(2, 1), Op::Reset]);
    let la = if thorough { 5 } else { 4 };
    for cap in 1..=3u32 {
        for len in 1..=la {
            exhaustive(&mut cx, cap, &keys4, &alpha_a, len, 1);
        }
    }
    exhaustive(&mut cx, 2, &keys3, &alpha_a3, la + 1, 1);
    if thorough {
        exhaustive(&mut cx, 1, &keys3, &alpha_a3, la + 1, 1);
        exhaustive(&mut cx, 3, &keys4, &alpha_a3, la + 1, 1);
    }
    cx.s.with(|s| { s.extra.insert("exhaustive_in_memory_len".into(), serde_json::json!({"caps 1-3, 4 keys, 12 ops": la, "3 keys, 9 ops (quick: cap 2; thorough: caps 1-3)": la + 1})); });
    // (B) exhaustive persistence histories
    let alpha_b: Vec<Op> = vec![
        Op::Touch(0), Op::Touch(1), Op::Touch(2), Op::Remove(1), Op::EvictTail, Op::EvictTo(1, 1), Op::Bump, Op::Checkpoint,
        Op::Load(1), Op::Load(2), Op::RunCycle(0, 1), Op::RunCycle(1, 1), Op::Reset, Op::Reopen, Op::Shutdown,
    ];
    let lb = if thorough { 4 } else { 3 };
    for cap in 1..=3u32 {
        for len in 1..=lb {
            exhaustive(&mut cx, cap, &keys3, &alpha_b, len, 1);
        }
    }
    exhaustive(&mut cx, 2, &keys3, &alpha_b, lb + 1, 1);
    cx.s.with(|s| { s.extra.insert("exhaustive_persistence_len".into(), serde_json::json!({"caps 1-3, 3 keys, 15 ops": lb, "cap 2": lb + 1})); });
    // (D) checkpoint histories with something in the middle, every reload entry point
    persistence_grid(&mut cx, thorough);
    // (C) random long histories
    let n_random = if thorough { 6000 } else { 600 };
    let caps: [u32; 16] = [0, 1, 2, 3, 4, 4, 5, 7, 8, 15, 16, 17, 31, 32, 33, 64];
    for _ in 0..n_random {
        let cap = *rng.pick(&caps);
        let max_len = if cap <= 4 { 60 } else { 40 + 6 * cap as usize };
        random_history(&mut cx, &mut rng, cap, max_len);
    }
    finish(cx);
}

fn finish(cx: Ctx) {
    let counts: serde_json::Map<String, serde_json::Value> = cx.sig_count.iter().map(|(k, v)| (k.clone(), serde_json::json!(v))).collect();
    cx.s.with(|s| {
        s.extra.insert("oracle_failures_by_sig_uncapped".into(), serde_json::Value::Object(counts));
        s.extra.insert("oracle_lines_cap_per_sig".into(), serde_json::json!(MAX_ORACLE_LINES_PER_SIG));
    });
    cx.s.finish();
}
